------------------------------- MODULE Memo -------------------------------
(***************************************************************************)
(* C15: a memoized function runs its body at most once per distinct        *)
(* argument tuple until invalidated, even under concurrent first calls.    *)
(*                                                                         *)
(* Threads call a function wrapped by utils.cached (Kind = "cached"):       *)
(*     with lock:                      acquire                             *)
(*         try: return cache[args]     hit  -> release, return             *)
(*         except KeyError:            miss -> body (lock held)            *)
(*             return cache.setdefault(args, func(args))                  *)
(*   invalidate():  with lock: cache.clear()                               *)
(* or by utils.terminal_size_cached (Kind = "tsc"):                        *)
(*     with lock:                                                          *)
(*         ts = get_terminal_size()                                        *)
(*         if not cache or ts != cache[1]: cache = (func(), ts)            *)
(*     return cache[0]                                                     *)
(* where the terminal may be resized at any moment.  Acquire, body and     *)
(* release are separate steps (the scheduling points of env/sched.py).     *)
(***************************************************************************)
EXTENDS Integers, Sequences, FiniteSets, TLC

CONSTANTS
  NT,       \* threads 1..NT
  Prog,     \* <<prog_1, ...>>; item = [k |-> "call", a |-> arg] or [k |-> "inv", a |-> 0]
  Kind,     \* "cached" | "tsc"
  Sizes,    \* terminal sizes (tsc)
  MaxResize,
  MaxFail,  \* how many body executions may raise
  KwClass,  \* <<c_1, ...>>: arguments with equal c differ only in the VALUES of their keyword arguments
  Variant   \* "code" | "outside" (body outside the lock) | "kwnames" (key ignores keyword values)
            \* | "sizefirst" (tsc stores the new size before the body has returned)

Threads == 1..NT
ArgsUsed == (UNION {{Prog[t][i].a : i \in 1..Len(Prog[t])} : t \in Threads}) \ {0}

VARIABLES
  lock,     \* [o |-> owner or 0, n |-> count]
  cache,    \* cached: function arg -> value (0 = absent); tsc: <<value, size>> or <<>>
  th,       \* th[t] = [ip, pc, res, key]; pc \in {"acq", "body", "rel", "acq2", "done"}
  ts,       \* current terminal size (tsc)
  nres,     \* resizes so far
  nbody,    \* body executions so far (the body returns its ordinal: values are distinct)
  decided,  \* decided[key]: decisions to run the body for key since the last invalidation / size change
  nfail,    \* body executions that raised
  born,     \* born[v]: the key (argument tuple / terminal size) the body execution with ordinal v ran for
  out

vars == <<lock, cache, th, ts, nres, nbody, decided, nfail, born, out>>
View == <<lock, cache, th, ts, nres, nbody, decided, nfail, born>>
Raised == 0 - 1
\* the slot an argument tuple is stored under
KeyOf(a) == IF Variant = "kwnames" THEN (CHOOSE b \in 1..Len(KwClass) : KwClass[b] = KwClass[a]) ELSE a

Item(t) == Prog[t][th[t].ip]
Live(t) == th[t].ip <= Len(Prog[t])
At(t, pc) == Live(t) /\ th[t].pc = pc
Free(t) == lock.o \in {0, t}
Take(t) == [o |-> t, n |-> lock.n + 1]
Drop == IF lock.n <= 1 THEN [o |-> 0, n |-> 0] ELSE [o |-> lock.o, n |-> lock.n - 1]
Keys == IF Kind = "tsc" THEN Sizes ELSE ArgsUsed
EmptyCache == IF Kind = "tsc" THEN <<>> ELSE [a \in ArgsUsed |-> 0]

Init ==
  /\ lock = [o |-> 0, n |-> 0]
  /\ cache = EmptyCache
  /\ th = [t \in Threads |-> [ip |-> 1, pc |-> "acq", res |-> 0, key |-> 0]]
  /\ ts \in Sizes
  /\ nres = 0 /\ nbody = 0
  /\ decided = [k \in Keys |-> 0]
  /\ nfail = 0 /\ born = <<>>
  /\ out = [t |-> 0, act |-> "init", res |-> 0]

Hit(key) == IF Kind = "tsc" THEN cache # <<>> /\ cache[2] = key ELSE cache[key] # 0
Value(key) == IF Kind = "tsc" THEN cache[1] ELSE cache[key]
Store(key, v) == IF Kind = "tsc" THEN <<v, key>> ELSE [cache EXCEPT ![key] = IF @ = 0 THEN v ELSE @]

\* acquire the lock; look the key up (or clear the cache for invalidate)
DoAcq(t) ==
  /\ At(t, "acq") /\ Free(t)
  /\ LET it == Item(t)
         key == IF Kind = "tsc" THEN ts ELSE (IF it.k = "inv" THEN 0 ELSE KeyOf(it.a))
         want == IF Kind = "tsc" THEN ts ELSE it.a IN  \* what the caller asks for
     IF it.k = "inv"
       THEN /\ cache' = EmptyCache
            /\ decided' = [k \in Keys |-> 0]
            /\ lock' = Take(t)
            /\ th' = [th EXCEPT ![t].pc = "rel", ![t].res = 0]
       ELSE IF Hit(key)
         THEN /\ lock' = Take(t)
              /\ th' = [th EXCEPT ![t].pc = "rel", ![t].res = Value(key), ![t].key = want]
              /\ UNCHANGED <<cache, decided>>
         ELSE /\ decided' = [decided EXCEPT ![key] = @ + 1]
              /\ lock' = IF Variant = "outside" THEN lock ELSE Take(t)
              /\ th' = [th EXCEPT ![t].pc = "body", ![t].key = want]
              \* seeded regression "sizefirst": the new size is stored before the body has run
              /\ cache' = IF Variant = "sizefirst" /\ Kind = "tsc" THEN <<(IF cache = <<>> THEN 0 ELSE cache[1]), key>> ELSE cache
  /\ out' = [t |-> t, act |-> "Acq", res |-> 0]
  /\ UNCHANGED <<ts, nres, nbody, nfail, born>>

\* the wrapped function runs; its value goes into the cache (setdefault)
DoBody(t) ==
  /\ At(t, "body")
  /\ nbody' = nbody + 1
  /\ born' = Append(born, th[t].key)
  /\ LET slot == IF Kind = "tsc" THEN th[t].key ELSE KeyOf(th[t].key)
         v == IF Kind = "tsc" THEN nbody + 1 ELSE (IF cache[slot] = 0 THEN nbody + 1 ELSE cache[slot]) IN
       /\ cache' = Store(slot, nbody + 1)
       /\ th' = [th EXCEPT ![t].pc = IF Variant = "outside" THEN "done1" ELSE "rel", ![t].res = v]
  /\ out' = [t |-> t, act |-> "Body", res |-> nbody + 1]
  /\ UNCHANGED <<lock, ts, nres, decided, nfail>>

\* the wrapped function raises: nothing may be memoized, the next call has to compute again
DoBodyFail(t) ==
  /\ At(t, "body") /\ nfail < MaxFail
  /\ nfail' = nfail + 1
  /\ LET slot == IF Kind = "tsc" THEN th[t].key ELSE KeyOf(th[t].key) IN
       decided' = [decided EXCEPT ![slot] = @ - 1]
  /\ th' = [th EXCEPT ![t].pc = IF Variant = "outside" THEN "done1" ELSE "rel", ![t].res = Raised]
  /\ out' = [t |-> t, act |-> "BodyFail", res |-> Raised]
  /\ UNCHANGED <<lock, cache, ts, nres, nbody, born>>

\* release and return
DoRel(t) ==
  /\ At(t, "rel") \/ At(t, "done1")
  /\ lock' = IF th[t].pc = "done1" THEN lock ELSE Drop
  /\ LET r == IF Kind = "tsc" /\ Item(t).k = "call" /\ cache # <<>> /\ th[t].res # Raised THEN cache[1] ELSE th[t].res IN
       /\ th' = [th EXCEPT ![t] = [ip |-> th[t].ip + 1, pc |-> "acq", res |-> 0, key |-> 0]]
       /\ out' = [t |-> t, act |-> "Rel", res |-> r]
  /\ UNCHANGED <<cache, ts, nres, nbody, decided, nfail, born>>

\* the terminal is resized (tsc)
DoResize ==
  /\ Kind = "tsc" /\ nres < MaxResize
  /\ \E s \in Sizes \ {ts} : ts' = s
  /\ nres' = nres + 1
  /\ decided' = [k \in Keys |-> 0]
  /\ out' = [t |-> 0, act |-> "Resize", res |-> ts']
  /\ UNCHANGED <<lock, cache, th, nbody, nfail, born>>

Acq == \E t \in Threads : DoAcq(t)
Body == \E t \in Threads : DoBody(t)
BodyFail == \E t \in Threads : DoBodyFail(t)
Rel == \E t \in Threads : DoRel(t)
Resize == DoResize
Next == Acq \/ Body \/ BodyFail \/ Rel \/ Resize
Spec == Init /\ [][Next]_vars

-----------------------------------------------------------------------------
\* at most one decision to run the body per key between invalidations (size changes)
BodyOnce == \A k \in Keys : decided[k] <= 1

\* a returned value was computed by a body execution for the very argument tuple / terminal size the
\* caller asked for (and a raising body leaves nothing behind)
ValueFresh ==
  \A t \in Threads : (At(t, "rel") \/ At(t, "done1")) /\ th[t].res > 0 => born[th[t].res] = th[t].key

\* at most one thread is inside the wrapped function
BodyExclusive == Cardinality({t \in Threads : At(t, "body")}) <= 1

BlockedSet == {t \in Threads : At(t, "acq") /\ ~Free(t)}
InBodySet == {t \in Threads : At(t, "body")}
=============================================================================
