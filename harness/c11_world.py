"""C11: the real-code side.  Executes abstract operations of specs/ImageIterCore.tla on
REAL term-image objects and records what a caller (and the OS) can observe afterwards.

Nothing in here decides whether an observation is right: `World.execute(action)` returns an
event ``{"a": action, "o": observation}``; the events are judged by TLC
(specs/Trace_ImageIter.tla).  This module only

* builds the fixtures (animated GIF / WebP / APNG, a static PNG; copies for the library,
  the caller, the shadow (paired cached/uncached iterator) and the reference renders),
* serves them over a loopback HTTP server (plus a 404 and a non-image body),
* substitutes the seams: ``PIL.Image.open`` (records the file object Pillow opened, by weak
  reference), ``Image.Image.convert/resize/save/alpha_composite`` and the plugins' ``seek``
  (fault injection at the k-th outermost call), ``common.time`` (no sleeping),
* observes: ``/proc/self/fd`` entries pointing into the fixture / temp directories, the
  recorded file objects' ``closed`` flags, ResourceWarnings (= a file was closed by the
  garbage collector, not by the library), ``image.tell()``, ``image.size``, the listing of
  ``common._TEMP_DIR``, the caller's own file object,
* decodes frames: a frame string is looked up in a table of ``format(reference, spec)``
  renders -> (frame number, abstract rendered size).
"""

from __future__ import annotations

import base64
import contextlib
import gc
import http.server
import io
import os
import random
import re
import shutil
import tempfile
import threading
import time
import warnings
import weakref
from pathlib import Path

from . import imgs
from .env import stubs
from .tlc import MachineryError

ROOT = imgs.TMP / f"c11-{os.getpid()}"  # per process: checks may run concurrently
LIB = ROOT / "lib"  # files the library opens
CALLER = ROOT / "caller"  # files the caller opens (PIL-image sources)
SHADOW = ROOT / "shadow"  # files of the paired (opposite cache setting) iterator
REF = ROOT / "ref"  # files of the reference renders
ALT = ROOT / "alt"  # same file names, OTHER content: served as /alt/<name> (second URL image)
REFALT = ROOT / "refalt"  # reference copies of ALT
TMPD = ROOT / "tmp"  # tempfile.tempdir: the library's _TEMP_DIR is created in here

NFRAMES = 3
SRC_PX = (7, 5)
FIXED = {"A": (3, 2), "B": (5, 2)}
TERMS = {1: (12, 9), 2: (7, 6)}
STEPS = ("open", "seek", "convert", "resize", "composite", "encode")


class InjectedFault(Exception):
    pass


# ----------------------------------------------------------------------------- fixtures
def _rgba_animation(path: Path, fmt: str, n: int):
    from PIL import Image

    w, h = SRC_PX
    frames = []
    for i in range(n):
        f = Image.new("RGBA", (w, h), ((70 * i + 30) % 256, (200 - 80 * i) % 256, (90 * i + 17) % 256, 255))
        for x in range(w):
            f.putpixel((x, (i + x) % h), (255, 255, 255, 0 if x % 2 else 90))
        for x in range(2):
            for y in range(2):
                f.putpixel((x, y), ((i * 83 + 9) % 256, (i * 151) % 256, (i * 211) % 256, 255))
        frames.append(f)
    kw = dict(save_all=True, append_images=frames[1:], duration=40, loop=0)
    if fmt == "WEBP":
        kw["lossless"] = True
    frames[0].save(path, fmt, **kw)


FIXTURES = {
    # name: (file name, animated)
    "gif": ("anim.gif", True),
    "webp": ("anim.webp", True),
    "static": ("static.png", False),
    "staticrgb": ("staticrgb.png", False),
}


def build_fixtures(seed: int):
    from PIL import Image

    for d in (LIB, CALLER, SHADOW, REF, TMPD, ALT, REFALT):
        shutil.rmtree(d, ignore_errors=True)
        d.mkdir(parents=True, exist_ok=True)
    rng = random.Random(seed)
    imgs.make_animation(rng, LIB / "anim.gif", NFRAMES, *SRC_PX, fmt="GIF")
    _rgba_animation(LIB / "anim.webp", "WEBP", NFRAMES)
    # no APNG: Pillow 11.1 raises "APNG contains frame sequence errors" on the seek sequence
    # 0, 1, 0, 1 (rewind from a middle frame) - a Pillow defect, not term-image's
    st = Image.new("RGBA", SRC_PX, (10, 200, 90, 255))
    for x in range(SRC_PX[0]):
        st.putpixel((x, x % SRC_PX[1]), (250, 20, 20, 0 if x % 2 else 128))
    st.save(LIB / "static.png")
    st.convert("RGB").save(LIB / "staticrgb.png")
    for name in ("anim.gif", "anim.webp"):  # harness sanity, independent of term-image
        src = Image.open(LIB / name)
        fr = []
        for i in range(NFRAMES):
            src.seek(i)
            fr.append(src.convert("RGBA").tobytes())
        src.close()
        if len(set(fr)) != NFRAMES:
            raise MachineryError(f"fixture {name}: frames are not pairwise different")
    (LIB / "notimage.gif").write_bytes(b"this is not an image\n" * 20)
    for name in os.listdir(LIB):
        for d in (CALLER, SHADOW, REF):
            shutil.copy(LIB / name, d / name)
    # other pictures under the same file names
    for name, fmt in (("anim.gif", "GIF"), ("anim.webp", "WEBP")):
        frames = []
        for i in range(NFRAMES):
            f = Image.new("RGB", SRC_PX, ((200 - 60 * i) % 256, (35 + 90 * i) % 256, (140 + 50 * i) % 256))
            for x in range(SRC_PX[0]):
                f.putpixel((x, (2 * i + x + 1) % SRC_PX[1]), (0, 0, 0))
            frames.append(f)
        kw = dict(save_all=True, append_images=frames[1:], duration=40, loop=0)
        if fmt == "WEBP":
            kw["lossless"] = True
        frames[0].save(ALT / name, fmt, **kw)
    alt = Image.new("RGBA", SRC_PX, (230, 60, 200, 255))
    for x in range(SRC_PX[0]):
        alt.putpixel((x, (x + 2) % SRC_PX[1]), (5, 5, 90, 255))
    alt.save(ALT / "static.png")
    alt.convert("RGB").save(ALT / "staticrgb.png")
    for name in os.listdir(ALT):
        shutil.copy(ALT / name, REFALT / name)
        if (ALT / name).read_bytes() == (LIB / name).read_bytes():
            raise MachineryError(f"fixture alt/{name} does not differ from {name}")


# ----------------------------------------------------------------------------- http
class _Handler(http.server.BaseHTTPRequestHandler):
    def do_GET(self):  # noqa: N802
        name = self.path.lstrip("/")
        base = LIB
        if name.startswith("alt/"):
            base, name = ALT, name[4:]
        p = base / name
        if "/" in name or not p.is_file():
            self.send_response(404)
            self.send_header("Content-Length", "0")
            self.end_headers()
            return
        body = p.read_bytes()
        self.send_response(200)
        self.send_header("Content-Type", "application/octet-stream")
        self.send_header("Content-Length", str(len(body)))
        self.end_headers()
        self.wfile.write(body)

    def log_message(self, *a):
        pass


class Server:
    def __init__(self):
        self.httpd = http.server.ThreadingHTTPServer(("127.0.0.1", 0), _Handler)
        self.httpd.daemon_threads = True
        self.thread = threading.Thread(target=self.httpd.serve_forever, kwargs={"poll_interval": 0.05},
                                       daemon=True)
        self.thread.start()
        self.base = f"http://127.0.0.1:{self.httpd.server_address[1]}"

    def stop(self):
        self.httpd.shutdown()
        self.httpd.server_close()
        self.thread.join(timeout=5)


# ----------------------------------------------------------------------------- seams
class Seams:
    """Substituted module-level names; one instance per process."""

    def __init__(self):
        self.installed = False
        self.armed: str | None = None
        self.k = 0
        self.calls: dict[str, int] = {}
        self.fired = False
        self.depth = 0
        self.tracked: list[tuple[weakref.ref, str, str]] = []  # (fp ref, path, owner tag)
        self.owner_tag = "call"
        self.watch: tuple[str, ...] = ()
        self.render_calls = 0
        self.sleep_hook = None

    # -- fault bookkeeping
    def arm(self, step: str | None, k: int = 1):
        self.armed, self.k, self.fired = step, k, False
        self.calls = {}

    def disarm(self) -> bool:
        fired = self.fired
        self.armed, self.fired = None, False
        return fired

    def _hit(self, step: str):
        self.calls[step] = self.calls.get(step, 0) + 1
        if self.armed == step and not self.fired and self.calls[step] == self.k:
            self.fired = True
            raise InjectedFault(step)

    def _wrap_method(self, cls, name: str, step: str, cond=None):
        orig = cls.__dict__[name]
        seams = self

        def wrapper(self, *a, **kw):
            if seams.depth:
                return orig(self, *a, **kw)
            if cond is None or cond(self, *a, **kw):
                seams._hit(step)
            # calls Pillow makes from inside this one (e.g. GifImageFile.n_frames seeking back
            # during the end-of-pass probe) are not processing steps of the library
            seams.depth += 1
            try:
                return orig(self, *a, **kw)
            finally:
                seams.depth -= 1

        wrapper.__name__ = name
        wrapper._c11_orig = orig
        setattr(cls, name, wrapper)

    def install(self):
        if self.installed:
            return
        import PIL.Image as PI
        from PIL import GifImagePlugin, PngImagePlugin, WebPImagePlugin
        import term_image.image.common as common

        self.common = common
        self.orig_open = PI.open
        seams = self

        def watched(fp) -> str | None:
            if isinstance(fp, (str, os.PathLike)):
                p = os.fspath(fp)
                if isinstance(p, str) and p.startswith(seams.watch):
                    return p
            return None

        def open_(fp, *a, **kw):
            p = watched(fp)
            if p is None:
                return seams.orig_open(fp, *a, **kw)
            seams._hit("open")
            img = seams.orig_open(fp, *a, **kw)
            f = getattr(img, "fp", None)
            if f is None:
                raise MachineryError("Pillow opened an image without a file object: seam lost")
            seams.tracked.append((weakref.ref(f), p, seams.owner_tag))
            return img

        PI.open = open_
        for name, step in (("convert", "convert"), ("resize", "resize"), ("save", "encode"),
                           ("alpha_composite", "composite")):
            if name not in PI.Image.__dict__:
                raise MachineryError(f"PIL.Image.Image.{name} is missing: seam lost")
            self._wrap_method(PI.Image, name, step)
        # a seek beyond the last frame raises EOFError by itself (the end-of-pass probe of
        # the iterator): only seeks to existing frames count as a processing step
        for cls in (GifImagePlugin.GifImageFile, PngImagePlugin.PngImageFile,
                    WebPImagePlugin.WebPImageFile):
            if "seek" not in cls.__dict__:
                raise MachineryError(f"{cls.__name__}.seek is missing: seam lost")
            self._wrap_method(cls, "seek", "seek", cond=lambda im, frame, *a: 0 <= frame < NFRAMES)
            # Pillow's own frame counting (GifImageFile.n_frames walks to the end with
            # update_image=False and seeks back) is not a processing step of the library: a
            # fault injected into ITS seek-back leaves the caller's PIL object at the last frame
            # with the first frame's pixels - Pillow's inconsistency, which the library cannot
            # see (thorough seed 0 reported it as format:frame-index:pil).  Nested, not injected.
            prop = cls.__dict__.get("n_frames")
            if isinstance(prop, property):
                def _n_frames(im, _get=prop.fget):
                    seams.depth += 1
                    try:
                        return _get(im)
                    finally:
                        seams.depth -= 1

                setattr(cls, "n_frames", property(_n_frames))
        for name in ("time", "Image", "_TEMP_DIR", "ImageIterator"):
            if not hasattr(common, name):
                raise MachineryError(f"term_image.image.common.{name} is missing: seam lost")
        def _sleep(_seconds):
            # never sleeps; the point between two frames of an animated draw() where a
            # "user" (signal handler / other thread in real life) can act: World sets a hook
            hook, seams.sleep_hook = seams.sleep_hook, None
            if hook is not None:
                hook()

        common.time = type("NoSleep", (), {"time": staticmethod(time.time),
                                          "sleep": staticmethod(_sleep)})
        if not str(common._TEMP_DIR).startswith(str(TMPD)):
            raise MachineryError(f"library temp dir {common._TEMP_DIR} is not under {TMPD}")
        self.watch = (str(LIB) + os.sep, str(common._TEMP_DIR) + os.sep)
        self.installed = True

    def count_renders(self, cls):
        """Count _render_image calls of ``cls`` (information: cache hits)."""
        if "_c11_counted" in cls.__dict__:
            return
        orig = cls._render_image
        seams = self

        def _render_image(self, *a, **kw):
            r = orig(self, *a, **kw)  # the end-of-pass probe raises EOFError in here
            seams.render_calls += 1
            return r

        cls._render_image = _render_image
        cls._c11_counted = True


SEAMS = Seams()
_SERVER: Server | None = None


def setup(seed: int) -> Server:
    """Fixtures, temp dir, proxies off, stubs, seams, HTTP server.  Call once."""
    global _SERVER
    build_fixtures(seed)
    tempfile.tempdir = str(TMPD)
    for k in list(os.environ):
        if k.lower() in ("http_proxy", "https_proxy", "all_proxy"):
            del os.environ[k]
    os.environ["NO_PROXY"] = os.environ["no_proxy"] = "*"
    stubs.install()
    SEAMS.install()
    _SERVER = Server()
    gc.collect()
    gc.freeze()  # everything imported so far is permanent: later full collections are cheap
    return _SERVER


def refreeze():
    """Exempt everything alive now (edge graphs, recorded traces, render tables) from later
    collections; call between worlds only (after a full collection)."""
    gc.collect()
    gc.freeze()


def teardown():
    global _SERVER
    if _SERVER:
        _SERVER.stop()
        _SERVER = None
    gc.unfreeze()
    shutil.rmtree(ROOT, ignore_errors=True)


# ----------------------------------------------------------------------------- configs
STYLE_IDENTS = {
    "block": ["other", "kitty"],
    "kitty": ["kitty", "konsole"],
    "iterm2": ["iterm2", "wezterm", "konsole"],
}
STYLE_SPECS = {
    "block": ["1.1#", "1.1#.3", "1.1##", "1.1#102030", "<6.^4"],
    "kitty": ["1.1#", "1.1##", "1.1#102030", "1.1+L", "1.1+W", "1.1+Lm1", "1.1+Wz5c0", "<6.^4+W"],
    "iterm2": ["1.1#", "1.1#102030", "1.1+L", "1.1+W", "1.1+Wm1c9", "<6.^4+L", "1.1##"],
}


def make_config(rng: random.Random, style: str | None = None, native_anim: bool = False) -> dict:
    style = style or rng.choice(["block", "kitty", "iterm2"])
    cfg = {
        "style": style,
        "ident": rng.choice(STYLE_IDENTS[style]),
        "anim_fx": rng.choice(["gif", "webp"]),
        "static_fx": rng.choice(["static", "staticrgb"]),
        "s1": "1.1",
        "s2": rng.choice(STYLE_SPECS[style]),
        "cell": rng.choice([None, [2, 4]]),
        "int_cached": rng.random() < 0.3,  # pass `cached` as an int around the frame count
    }
    if native_anim:
        cfg.update(style="iterm2", ident=rng.choice(STYLE_IDENTS["iterm2"]), s2="1.1+A")
    return cfg


def cfg_key(cfg) -> tuple:
    return (cfg["style"], cfg["ident"], cfg["anim_fx"], cfg["static_fx"], cfg["s2"],
            tuple(cfg["cell"]) if cfg["cell"] else None)


def image_class(style: str):
    from term_image.image import BlockImage, ITerm2Image, KittyImage

    return {"block": BlockImage, "kitty": KittyImage, "iterm2": ITerm2Image}[style]


def apply_env(cfg, term: int):
    if getattr(apply_env, "ident", None) != cfg["ident"]:
        stubs.set_identity(cfg["ident"])
        apply_env.ident = cfg["ident"]
    stubs.set_term(size=TERMS[term], cell=cfg["cell"], fg_bg=((200, 200, 200), (16, 32, 48)))


# ----------------------------------------------------------------------------- decode
class Table:
    """format(reference image at frame i, spec) for every rendered size -> reverse lookup."""

    def __init__(self):
        self.tabs: dict[tuple, dict[str, tuple[int, str]]] = {}
        self.steps: dict[tuple, dict[str, int]] = {}
        self.rsizes: dict[tuple, dict[tuple, str]] = {}
        self.srcframes: dict[str, list] = {}
        self.errors: dict[tuple, str] = {}  # what real code did wrong while rendering references

    def _ref_image(self, cfg, anim: bool, alt: bool = False):
        cls = image_class(cfg["style"])
        name = FIXTURES[cfg["anim_fx"] if anim else cfg["static_fx"]][0]
        return cls.from_file(str((REFALT if alt else REF) / name))

    def table(self, cfg, anim: bool, spec: str, cur_term: int, alt: bool = False) -> dict[str, tuple[int, str]]:
        """Reverse table for (config, animated?, spec).  The reference renders run REAL code: if
        they raise, or no longer tell frames / sizes apart, that is the code's doing (the fixture
        itself is checked without term-image in build_fixtures) - the problem is remembered in
        ``self.errors`` and shows up as an undecodable / wrongly decoded frame, never as exit 2."""
        from term_image.image import Size

        key = (cfg_key(cfg), anim, spec) + (("alt",) if alt else ())
        if key in self.tabs:
            return self.tabs[key]
        if SEAMS.armed:
            raise MachineryError("reference table built while a fault is armed")
        tab: dict[str, tuple[int, str]] = {}
        rsz: dict[tuple, str] = {}
        saved_tag = SEAMS.owner_tag
        img = None
        try:
            img = self._ref_image(cfg, anim, alt)
            for rs in ("A", "B", "d1", "d2"):
                if rs in FIXED:
                    apply_env(cfg, cur_term)
                    img.set_size(*FIXED[rs])
                else:
                    apply_env(cfg, int(rs[1]))
                    img.size = Size.FIT
                rsz.setdefault(tuple(img.rendered_size), rs)
                for i in range(NFRAMES if anim else 1):
                    if anim:
                        img.seek(i)
                    before = dict(SEAMS.calls)
                    s = format(img, spec)
                    if rs == "A" and not alt:
                        self.steps[key + (i,)] = {
                            k: v - before.get(k, 0) for k, v in SEAMS.calls.items()
                        }
                    if spec.endswith("+A") and anim:
                        continue  # native animation: the whole file, frame independent
                    if s in tab:
                        self.errors[key] = (f"format() renders frame {i} at size {rs} exactly like "
                                            f"frame {tab[s][0]} at size {tab[s][1]}")
                        continue  # first one wins
                    tab[s] = (i, rs)
        except MachineryError:
            raise
        except Exception as e:
            self.errors[key] = f"reference format() raised {type(e).__name__}: {e}"
        finally:
            with contextlib.suppress(Exception):
                if img is not None:
                    img.close()
            apply_env(cfg, cur_term)
            SEAMS.owner_tag = saved_tag
        if len(rsz) != 4 and key not in self.errors:
            self.errors[key] = f"the four size settings give rendered sizes {sorted(rsz)}"
        self.tabs[key] = tab
        self.rsizes.setdefault(cfg_key(cfg), {}).update(rsz)
        return tab

    def applicable_steps(self, cfg, anim: bool, spec: str, frame: int | None, cur_term: int) -> dict[str, int]:
        """Outermost calls per processing step during format() of ``frame`` (None: the
        minimum over all frames, i.e. steps that occur whatever the frame)."""
        self.table(cfg, anim, spec, cur_term)
        key = (cfg_key(cfg), anim, spec)
        if not anim:
            return self.steps.get(key + (0,), {})
        if frame is not None:
            return self.steps.get(key + (frame % NFRAMES,), {})
        per = [self.steps.get(key + (i,), {}) for i in range(NFRAMES)]
        return {k: min(p.get(k, 0) for p in per) for k in per[0]}

    # -- native animation requests: iterator frames are whole-image frames of another
    #    resolution; identify the frame by decoding the payload (dumb projection)
    _ITERM = re.compile(r"\x1b\]1337;File=([^:]*):([A-Za-z0-9+/=]*)(?:\x07|\x1b\\)")

    def decode_structural(self, cfg, s: str, cur_term: int) -> tuple[int, str]:
        from PIL import Image

        m = self._ITERM.search(s)
        if not m or len(self._ITERM.findall(s)) != 1:
            return (-2, "?")
        keys = dict(kv.split("=", 1) for kv in m.group(1).split(";") if "=" in kv)
        try:
            cells = (int(keys["width"]), int(keys["height"]))
            payload = SEAMS.orig_open(io.BytesIO(base64.b64decode(m.group(2))))
            payload.load()
        except Exception:
            return (-2, "?")
        self.table(cfg, True, cfg["s1"], cur_term)
        rs = self.rsizes.get(cfg_key(cfg), {}).get(cells, "?")
        fx = cfg["anim_fx"]
        if fx not in self.srcframes:
            src = SEAMS.orig_open(str(REF / FIXTURES[fx][0]))
            fr = []
            for i in range(NFRAMES):
                src.seek(i)
                fr.append(src.convert("RGBA").copy())
            src.close()
            self.srcframes[fx] = fr
        got = payload.convert("RGBA")
        best = []
        for i, f in enumerate(self.srcframes[fx]):
            g = f.resize(got.size, Image.Resampling.BOX)
            d = sum(
                abs(a - b) * (pa[3] > 0 or pb[3] > 0)
                for pa, pb in zip(g.getdata(), got.getdata())
                for a, b in zip(pa[:3], pb[:3])
            )
            best.append((d, i))
        best.sort()
        if len(best) > 1 and best[0][0] * 2 >= best[1][0] and best[1][0] > 0:
            return (-2, rs)  # not clearly one frame
        return (best[0][1], rs)

    def decode(self, cfg, anim: bool, spec: str, s: str, cur_term: int, iterator: bool) -> tuple[int, str]:
        if spec.endswith("+A") and anim:
            if iterator:
                return self.decode_structural(cfg, s, cur_term)
            raise MachineryError("format() with a native-animation spec is not decoded")
        return self.table(cfg, anim, spec, cur_term).get(s, (-2, "?"))

    def error_for(self, cfg, anim: bool, spec: str, alt: bool = False) -> str | None:
        return self.errors.get((cfg_key(cfg), anim, cfg["s1"] if spec.endswith("+A") else spec)
                               + (("alt",) if alt else ()))


TABLE = Table()


# ----------------------------------------------------------------------------- the world
def new_action(op: str, **kw) -> dict:
    a = dict(op=op, kind="", anim=False, outcome="", spec="", rep=0, cached=False, pos=0,
             size="", term=0, animated=False, fault="none", during="", pvar="")
    a.update(kw)
    return a


def _classify(exc: BaseException | None) -> str:
    if exc is None:
        return "ok"
    if isinstance(exc, StopIteration):
        return "stop"
    e: BaseException | None = exc
    seen = 0
    while e is not None and seen < 5:
        if isinstance(e, InjectedFault):
            return "fault"
        e = e.__cause__ or e.__context__
        seen += 1
    return type(exc).__name__


class World:
    """One image (+ iterator, + shadow pair) driven through abstract operations."""

    def __init__(self, cfg: dict, init: dict, server: Server, rng: random.Random, pair: bool = True):
        self.cfg = cfg
        self.server = server
        self.rng = rng
        self.pair = pair
        self.cls = image_class(cfg["style"])
        SEAMS.count_renders(self.cls)
        self.term = init["term"]
        apply_env(cfg, self.term)
        self.image = None
        self.it = None
        self.anim = False
        self.kind = "none"
        self.caller_img = None
        self.caller_fp = None
        self.shadow = None
        self.shadow_it = None
        self.peer = None  # second URL image alive at the same time
        self.peer_anim = False
        self.peer_alt = False
        self.it_spec = ""
        SEAMS.tracked = []
        SEAMS.owner_tag = "call"
        # descriptors a previous (violating) world may have left behind are not this world's
        self.baseline = self._fds()
        for n in os.listdir(SEAMS.common._TEMP_DIR):
            with contextlib.suppress(OSError):
                os.remove(os.path.join(SEAMS.common._TEMP_DIR, n))
        self.log: list[dict] = []
        self.shadow_dead = False
        self.trace_init = dict(init)
        self.init_failed = False
        if init["kind"] != "none":
            ev = self.execute(new_action("open", kind=init["kind"], anim=init["anim"],
                                         size=init["size"], outcome="ok"), record=False)
            if ev["o"]["res"] != "ok":
                # the history then starts from the empty state with the failed construction
                # as its first (judged) event
                self.init_failed = True
                self.trace_init = dict(kind="none", anim=False, size="dyn", term=init["term"])
                self.log.append(ev)

    def trace(self) -> dict:
        return {"init": self.trace_init, "events": self.log, "cfg": self.cfg,
                "offset": 1 if self.init_failed else 0}

    # -- observation
    @staticmethod
    def _fds() -> tuple[int, int]:
        lib = caller = 0
        cal = str(CALLER) + os.sep
        for f in os.listdir("/proc/self/fd"):
            try:
                t = os.readlink(f"/proc/self/fd/{f}")
            except OSError:
                continue
            if t.startswith(SEAMS.watch):
                lib += 1
            elif t.startswith(cal):
                caller += 1
        return lib, caller

    def _observe(self, res: str, frame: tuple[int, str], gcw: int, tell_same: bool, pair: str,
                 nframes: int, rendered: int) -> dict:
        from term_image.image import Size

        lib_fds, caller_fds = self._fds()
        lib_fds = max(0, lib_fds - self.baseline[0])
        live = [(r, p, tag) for r, p, tag in SEAMS.tracked if (f := r()) is not None and not f.closed]
        SEAMS.tracked = live
        iter_h = sum(1 for _, _, tag in live if tag == "iter")
        # the descriptor table is the ground truth; file objects only attribute owners
        call_h = max(lib_fds - iter_h, len(live) - iter_h, 0)
        size = ""
        tell = 0
        if self.image is not None:
            try:
                sz = self.image.size
                if sz is Size.FIT:
                    size = "dyn"
                else:
                    size = next((k for k, v in FIXED.items() if v == sz), "?")
            except Exception as e:
                size = "!" + type(e).__name__
            try:
                tell = int(self.image.tell())
            except Exception:
                tell = -9
        # "closed" = Image.close() was called (the image is unusable).  The file object alone
        # does not tell: Pillow closes e.g. a WebP file itself once it is decoded.
        caller_open = False
        if self.caller_img is not None:
            try:
                self.caller_img.load()
                caller_open = True
            except Exception:
                caller_open = False
        del caller_fds
        return dict(res=res, fi=frame[0], frs=frame[1], tell=tell, size=size, iterH=iter_h,
                    callH=call_h, gc=gcw, caller=caller_open,
                    temp=len(os.listdir(SEAMS.common._TEMP_DIR)), pair=pair, nframes=nframes,
                    tellSame=tell_same, rendered=rendered)

    # -- helpers
    def _size_kw(self, size: str) -> dict:
        return dict(zip(("width", "height"), FIXED[size])) if size in FIXED else {}

    def _concrete_spec(self, s: str) -> str:
        return self.cfg[s]

    def _cached_arg(self, cached: bool):
        if self.cfg["int_cached"]:
            return NFRAMES + 2 if cached else NFRAMES - 1
        return cached

    def _set_size(self, image, size: str):
        from term_image.image import Size

        if size in FIXED:
            image.set_size(*FIXED[size])
        else:
            image.size = Size.FIT

    def _close_caller(self):
        if self.caller_img is not None:
            self.caller_img.close()
        self.caller_img = self.caller_fp = None

    def pick_fault(self, a: dict, state_hint: dict | None = None) -> tuple[str, int]:
        """Concrete (step, k) for an abstract fault label; prefers steps that occur."""
        label = a["fault"]
        if label == "open":
            k = 1
            if a["op"] == "draw" and a["animated"] and self.anim and self.rng.random() < 0.5:
                k = 2  # the draw's own iterator opens the file a second time
            return "open", k
        spec = self.it_spec if a["op"] == "next" else (
            self.cfg[a["spec"]] if a["op"] == "format" else self.cfg["s1"])
        frame = None
        if a["op"] != "next" and self.image is not None and self.anim:
            frame = self.image.tell()
        if state_hint and "frame" in state_hint:
            frame = state_hint["frame"]
        if spec.endswith("+A") and a["op"] != "next":
            counts = {}
        else:
            fspec = self.cfg["s1"] if spec.endswith("+A") else spec
            counts = TABLE.applicable_steps(self.cfg, self.anim, fspec, frame, self.term)
        if label in STEPS:
            step = label
        else:
            cands = sorted(k for k, v in counts.items() if v > 0 and k != "open")
            if not cands:
                cands = ["seek"] if self.anim else ["resize"]
            step = self.rng.choice(cands)
        n = max(1, counts.get(step, 1))
        if a["op"] == "draw" and a["animated"] and self.anim and step == "seek":
            n = a["rep"] * NFRAMES
        return step, self.rng.randint(1, n)

    # -- operations
    def execute(self, a: dict, record: bool = True, fault: tuple[str, int] | None = None) -> dict:
        """Run one abstract operation on the real objects; returns the event."""
        op = a["op"]
        a = dict(a)
        a.setdefault("during", "")
        a.setdefault("pvar", "")
        peer_frame = [False]
        during_fired = [False]
        frame_s: list[str | None] = [None]
        nframes = [0]
        exc_text: list[str | None] = [None]
        ref_err = None
        try:
            tell_before = self.image.tell() if self.image is not None else 0
        except Exception:
            tell_before = -9
        anim_draw = op == "draw" and a["animated"] and self.anim
        SEAMS.owner_tag = "iter" if op == "iter" else "call"
        renders_before = SEAMS.render_calls

        def primary():
            if op == "open":
                self._close_caller()
                kw = self._size_kw(a["size"])
                if a["outcome"] == "ctorFails":
                    kw = dict(width=0)
                fx = FIXTURES[self.cfg["anim_fx"] if a["anim"] else self.cfg["static_fx"]][0]
                if a["kind"] == "path":
                    img = self.cls.from_file(str(LIB / fx), **kw)
                elif a["kind"] == "url":
                    name = {"404": "missing-" + fx, "notImage": "notimage.gif"}.get(a["outcome"], fx)
                    img = self.cls.from_url(f"{self.server.base}/{name}", **kw)
                else:
                    self.caller_img = SEAMS.orig_open(str(CALLER / fx))
                    self.caller_fp = self.caller_img.fp
                    img = self.cls(self.caller_img, **kw)
                self.image, self.kind, self.anim = img, a["kind"], a["anim"]
                self.it = None
            elif op == "format":
                frame_s[0] = format(self.image, self._concrete_spec(a["spec"]))
            elif op == "str":
                frame_s[0] = str(self.image)
            elif op == "draw":
                buf = io.StringIO()
                with contextlib.redirect_stdout(buf):
                    kw = dict(animate=a["animated"])
                    if a["animated"]:
                        kw.update(repeat=a["rep"], cached=self._cached_arg(a["cached"]))
                    if a["during"]:
                        # the user changes the size while the animation is running
                        def hook(image=self.image, size=a["during"]):
                            during_fired[0] = True
                            self._set_size(image, size)

                        SEAMS.sleep_hook = hook
                    try:
                        self.image.draw("<", 1, "^", 1, **kw)
                    finally:
                        SEAMS.sleep_hook = None
                out = buf.getvalue()
                if anim_draw:
                    nframes[0] = a["rep"] * NFRAMES  # not decoded (see notes): C06's domain
                else:
                    nframes[0] = 1
                    frame_s[0] = self._strip_draw(out)
            elif op == "iter":
                new = SEAMS.common.ImageIterator(
                    self.image, a["rep"], self._concrete_spec(a["spec"]), self._cached_arg(a["cached"])
                )
                self.it = new
                self.it_spec = self._concrete_spec(a["spec"])
            elif op == "next":
                frame_s[0] = next(self.it)
            elif op == "iterseek":
                self.it.seek(a["pos"])
            elif op == "imageseek":
                self.image.seek(a["pos"])
            elif op == "nframes":
                nframes[0] = self.image.n_frames
            elif op == "setsize":
                self._set_size(self.image, a["size"])
            elif op == "resize":
                self.term = a["term"]
                apply_env(self.cfg, self.term)
            elif op == "closeiter":
                self.it.close()
            elif op == "dropiter":
                self.it = None
            elif op == "closeimage":
                self.image.close()
            elif op == "dropimage":
                self.image = None
                self.kind, self.anim = "none", False
                self._close_caller()
            elif op == "peeropen":
                # same last path component as the first image's URL: the very same URL, or
                # another path serving another picture
                fx = FIXTURES[self.cfg["anim_fx"] if self.anim else self.cfg["static_fx"]][0]
                self.peer_anim, self.peer_alt = self.anim, a["pvar"] == "other"
                url = f"{self.server.base}/{'alt/' if self.peer_alt else ''}{fx}"
                self.peer = self.cls.from_url(url, **self._size_kw("A"))
            elif op == "peerformat":
                frame_s[0] = format(self.peer, self.cfg["s1"])
                peer_frame[0] = True
            elif op == "peerclose":
                self.peer.close()
            elif op == "peerdrop":
                self.peer = None
            else:
                raise MachineryError(f"unknown operation {op}")

        concrete = None
        with warnings.catch_warnings(record=True) as wlist:
            warnings.simplefilter("always")
            if a["fault"] != "none":
                concrete = fault or self.pick_fault(a)
                SEAMS.arm(*concrete)
            exc = None
            try:
                primary()
            except MachineryError:
                raise
            except (Exception, StopIteration) as e:  # noqa: B014
                exc = e
            finally:
                fired = SEAMS.disarm()
            res = _classify(exc)
            if exc is not None and res not in ("stop", "fault"):
                exc_text[0] = f"{type(exc).__name__}: {exc}"[:300]
            exc = None
            rendered = SEAMS.render_calls - renders_before
            # the paired iterator (opposite cache setting) receives the same iterator operations
            pair, pair_err = "na", None
            self.during_fired = during_fired[0]
            if self.pair and not self.shadow_dead:
                pair, pair_err = self._mirror(a, res, frame_s[0])
                if pair == "diff":
                    self._kill_shadow()  # the twins are out of step from here on
            gc.collect()
        gcw = sum(
            1 for w in wlist
            if issubclass(w.category, ResourceWarning) and any(p in str(w.message) for p in SEAMS.watch)
        )
        if a["fault"] != "none":
            if fired:
                a["fault"] = concrete[0]
                a["k"] = concrete[1]
            else:
                a["fault"] = "none"
                a["unfired"] = list(concrete)
        if a["during"] and not during_fired[0]:
            a["during_unfired"] = a["during"]  # the animation never paused: nothing was set
            a["during"] = ""
        frame = (-1, "")
        if frame_s[0] is not None and res == "ok":
            spec = (self._concrete_spec(a["spec"]) if op == "format" else
                    self.it_spec if op == "next" else self.cfg["s1"])
            if peer_frame[0]:  # decoded against the PEER's own picture
                frame = TABLE.table(self.cfg, self.peer_anim, spec, self.term, alt=self.peer_alt).get(
                    frame_s[0], (-2, "?"))
                ref_err = TABLE.error_for(self.cfg, self.peer_anim, spec, alt=self.peer_alt)
            else:
                frame = TABLE.decode(self.cfg, self.anim, spec, frame_s[0], self.term, iterator=op == "next")
                ref_err = TABLE.error_for(self.cfg, self.anim, spec)
            if op == "next":
                res = "frame"
        tell_same = True
        if op == "draw" and self.image is not None:
            try:
                tell_same = self.image.tell() == tell_before
            except Exception:
                tell_same = False
        o = self._observe(res, frame, gcw, tell_same, pair, nframes[0],
                          -1 if op != "next" else min(rendered, 1))
        for k, v in (("raised", exc_text[0]), ("pairErr", pair_err), ("refErr", ref_err)):
            if v:  # plain ASCII: these strings travel through JSON into TLC
                o[k] = "".join(c if 32 <= ord(c) < 127 and c not in '"\\' else "?" for c in v)
        ev = {"a": a, "o": o}
        if record:
            self.log.append(ev)
        return ev

    @staticmethod
    def _strip_draw(out: str) -> str:
        # draw() appends SGR reset + newline after the (already padded) render
        from term_image._ctlseqs import SGR_DEFAULT

        tail = SGR_DEFAULT + "\n"
        return out[: -len(tail)] if out.endswith(tail) else out

    def _kill_shadow(self):
        self.shadow_dead = True
        for obj in (self.shadow_it, self.shadow):
            with contextlib.suppress(Exception):
                if obj is not None:
                    obj.close()
        self.shadow_it = self.shadow = None

    def _mirror(self, a: dict, res: str, frame: str | None) -> tuple[str, str | None]:
        """Apply iterator-relevant operations to the twin (same file, opposite cache setting).

        Returns (pair, error): "same"/"diff"/"na".  The twin runs REAL code on operations the
        primary performed successfully: an exception from it is a difference between a cached
        and an uncached iterator ("diff" + the exception text), never a harness failure."""
        op = a["op"]
        try:
            if op == "open" and res == "ok" and a["anim"]:
                fx = FIXTURES[self.cfg["anim_fx"]][0]
                self.shadow_it = None
                self.shadow = self.cls.from_file(str(SHADOW / fx), **self._size_kw(a["size"]))
            elif op in ("open", "dropimage") and res == "ok":
                self.shadow = self.shadow_it = None
            elif self.shadow is None:
                return "na", None
            elif op == "setsize":
                self._set_size(self.shadow, a["size"])
            elif op == "draw" and a["during"] and self.during_fired:
                self._set_size(self.shadow, a["during"])  # the user's change applies to the twin too
            elif op == "iter" and res == "ok":
                self.shadow_it = SEAMS.common.ImageIterator(
                    self.shadow, a["rep"], self._concrete_spec(a["spec"]), not a["cached"]
                )
            elif op == "iterseek" and self.shadow_it is not None and res == "ok":
                self.shadow_it.seek(a["pos"])
            elif op in ("closeiter", "dropiter") and self.shadow_it is not None:
                self.shadow_it.close()
                if op == "dropiter":
                    self.shadow_it = None
            elif op == "next" and self.shadow_it is not None:
                if res == "fault":
                    self.shadow_it.close()
                    return "na", None
                sres, sf, err = "ok", None, None
                try:
                    sf = next(self.shadow_it)
                except StopIteration:
                    sres = "stop"
                except Exception as e:
                    sres = type(e).__name__
                    err = f"twin next() raised {type(e).__name__}: {e}"[:300]
                if (sres, sf) == (res, frame):
                    return "same", None
                if err is None:
                    err = (f"twin next() -> {sres}" if sres != "ok" or res != "ok"
                           else "twin yielded a different frame")
                return "diff", err
        except Exception as e:
            return "diff", f"twin {op} raised {type(e).__name__}: {e}"[:300]
        return "na", None

    def close(self):
        """Tear the world down (not an observed operation)."""
        with warnings.catch_warnings():
            warnings.simplefilter("ignore")
            for obj in (self.it, self.shadow_it, self.image, self.shadow, self.peer):
                with contextlib.suppress(Exception):
                    if obj is not None:
                        obj.close()
            self.it = self.shadow_it = None
            self.image = self.shadow = self.peer = None
            with contextlib.suppress(Exception):
                self._close_caller()
            gc.collect()
            # a world that leaked must not poison the next one
            for r, _, _ in SEAMS.tracked:
                f = r()
                if f is not None and not f.closed:
                    f.close()
            SEAMS.tracked = []
            for n in os.listdir(SEAMS.common._TEMP_DIR):
                with contextlib.suppress(OSError):
                    os.remove(os.path.join(SEAMS.common._TEMP_DIR, n))
