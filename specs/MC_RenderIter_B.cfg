\* definite, 3 frames, cache on
SPECIFICATION Spec
CONSTANTS
  N = 3
  K = 0
  LoopsSet <- LoopsCached
  CacheSet = {TRUE}
  OwnSet = {"iter"}
  Sizes <- SizesTwo
  Durs <- DursTwo
  ArgsSet = {"a2", "a3"}
  Pads <- PadsTwo
  SeekOffs <- Offs3
  TW = 8
  TH = 6
  Terms <- TermsNone
  MaxDepth = 5
CONSTRAINT Bound
VIEW View
ACTION_CONSTRAINT Dump
INVARIANT TypeOK
INVARIANT FinalizeOnce
INVARIANT FinalizeIffClosedAndOwned
PROPERTY SeekNoLoop
PROPERTY RejectedChangesNothing
PROPERTY SettingsOnlyBySetter
PROPERTY FrameMatchesSettings
PROPERTY ResizeAloneChangesNothing
PROPERTY NoRerender
PROPERTY EqualArgsChangeNothing
PROPERTY ClosedIsTerminal
PROPERTY LoopCountdown
PROPERTY PendingSeekOnce
CHECK_DEADLOCK FALSE
