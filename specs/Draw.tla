--------------------------------- MODULE Draw ---------------------------------
(***************************************************************************)
(* The draw procedure of the Renderable API (Renderable.draw / _animate_)   *)
(* as a PROGRAM: the sequence of stream / sleep / render operations the     *)
(* code issues, each write carrying the token sequence it sends, for a      *)
(* renderable whose frame i is a rw x rh block of the letter chr(65+i).     *)
(*                                                                         *)
(*   still:  [W hide] R W(padded frame) F                                    *)
(*           | clean-up: W(LF) [W show] F Z                                  *)
(*   anim:   [W hide] R W(padded frame 0) F W(rewind0) F                     *)
(*           { R S W(frame i, LF -> LF CUF(l)) F W(rewind) F }*  S           *)
(*           | clean-up: W(CUD(h+pb-1)) F W(LF) [W show] F Z                 *)
(*   rewind0 = CR CUU(h+pb-1) CUF(l)      rewind = CR CUU(h-1) CUF(l)        *)
(*                                                                         *)
(* (W write, F flush, R render, S sleep, Z = the render data generated for  *)
(* this draw is finalized: part of draw()'s own clean-up, so it is owed     *)
(* after a fault at ANY body operation k - including k = 1, the hide-cursor *)
(* write, before any frame has been rendered; WHERE in the clean-up it      *)
(* happens is the implementation's business: FinalizedBeforeReturn counts   *)
(* it, the choreography comparison ignores its position).                   *)
(* MC_Draw composes the program with Terminal.tla and checks C06 at the design level - every frame is    *)
(* written over the cells of the first one (SamePlaceEveryFrame), nothing   *)
(* outside the padded box is touched, and the run EndsBelow the box with    *)
(* the cursor visible - for every size, padding, frame count, loop count,   *)
(* start row (incl. rows that force scrolling) and tty-ness; and, with the  *)
(* Interrupt action (C07), that for every pre-clean-up operation k and      *)
(* every delivered token prefix the clean-up still leaves the cursor        *)
(* visible and the parser in ground state.  The programs are dumped (PROG)  *)
(* and the operation log of the REAL draw() must be exactly the program     *)
(* (spec -> code).                                                          *)
(***************************************************************************)
EXTENDS Terminal

Tok(k, n, m, g, p, x) == [k |-> k, n |-> n, m |-> m, g |-> g, p |-> p, x |-> x]
Simple(k) == Tok(k, -1, -1, "", <<>>, 0)
Num(k, n) == Tok(k, n, -1, "", <<>>, 0)
Spaces(n) == Tok("print", n, 32, "sp", <<>>, 0)
Letters(i, n) == Tok("print", n, 65 + i, "ch", <<>>, 0)
Hide == Tok("decrst", 25, -1, "", <<25>>, 0)
Show == Tok("decset", 25, -1, "", <<25>>, 0)

Opt(c, s) == IF c THEN s ELSE <<>>
MoveN(k, n) == IF n > 0 THEN <<Num(k, n)>> ELSE <<>>       \* cursor_up()/cursor_forward() emit nothing for 0
SpacesN(n) == IF n > 0 THEN <<Spaces(n)>> ELSE <<>>

RECURSIVE Rep(_, _)
Rep(s, n) == IF n <= 0 THEN <<>> ELSE s \o Rep(s, n - 1)

RECURSIVE JoinLines(_, _, _)
JoinLines(line, sep, n) == IF n <= 1 THEN line ELSE line \o sep \o JoinLines(line, sep, n - 1)

\* one padded frame: what Padding.pad() produces - a fill of " " writes spaces, an EMPTY fill
\* (c.fill = FALSE) only moves the cursor forward and leaves the padding cells untouched
FillN(c, n) == IF c.fill THEN SpacesN(n) ELSE MoveN("cuf", n)
PaddedFrame(c, i) ==
  LET pw == c.l + c.rw + c.r
      padline == FillN(c, pw)
      body == FillN(c, c.l) \o <<Letters(i, c.rw)>> \o FillN(c, c.r)
  IN Rep(padline \o <<Simple("lf")>>, c.t)
     \o JoinLines(body, <<Simple("lf")>>, c.rh)
     \o Rep(<<Simple("lf")>> \o padline, c.b)

\* a later frame: raw render with every LF followed by CUF(l)
BareFrame(c, i) == JoinLines(<<Letters(i, c.rw)>>, <<Simple("lf")>> \o MoveN("cuf", c.l), c.rh)

Rewind0(c) == <<Simple("cr")>> \o MoveN("cuu", c.rh + c.b - 1) \o MoveN("cuf", c.l)
Rewind(c) == <<Simple("cr")>> \o MoveN("cuu", c.rh - 1) \o MoveN("cuf", c.l)

W(toks) == [op |-> "W", toks |-> toks]
Op(k) == [op |-> k, toks |-> <<>>]

Animated(c) == c.frames > 1
TotalFrames(c) == c.frames * c.loops

RECURSIVE LaterFrames(_, _)
LaterFrames(c, j) ==
  \* j-th frame written overall (1-based, j >= 2); its number is (j-1) mod frames
  IF j > TotalFrames(c) THEN <<>>
  ELSE <<Op("R"), Op("S"), W(BareFrame(c, (j - 1) % c.frames)), Op("F"), W(Rewind(c)), Op("F")>>
       \o LaterFrames(c, j + 1)

Body(c) ==
  Opt(c.tty, <<W(<<Hide>>)>>)
  \o (IF Animated(c)
        THEN <<Op("R"), W(PaddedFrame(c, 0)), Op("F"), W(Rewind0(c)), Op("F")>>
             \o LaterFrames(c, 2) \o <<Op("S")>>
        ELSE <<Op("R"), W(PaddedFrame(c, 0)), Op("F")>>)

AnimCleanup(c) == <<W(MoveN("cud", c.rh + c.b - 1)), Op("F")>>
DrawCleanup(c) == <<W(<<Simple("lf")>>)>> \o Opt(c.tty, <<W(<<Show>>)>>) \o <<Op("F"), Op("Z")>>
Cleanup(c, firstWritten) ==
  (IF Animated(c) /\ firstWritten THEN AnimCleanup(c) ELSE <<>>) \o DrawCleanup(c)

Prog(c) == Body(c) \o Cleanup(c, TRUE)

\* Interrupted run: operation k of the body fails after delivering p tokens of its data.
\* first_frame_written is set once the first frame AND its rewind have been flushed.
FirstWrittenAfter(c, k) == Animated(c) /\ k > (IF c.tty THEN 6 ELSE 5)
Interrupted(c, k, p) ==
  LET b == Body(c)
      cut == IF b[k].op = "W" THEN <<W(SubSeq(b[k].toks, 1, p))>> ELSE <<>>
  IN SubSeq(b, 1, k - 1) \o cut \o Cleanup(c, FirstWrittenAfter(c, k))

\* C07 "the render data is finalized": every run - clean, or cut at any body operation k after
\* any delivered prefix - finalizes the render data exactly once before draw() is over
Finalizations(prog) == Cardinality({i \in 1..Len(prog) : prog[i].op = "Z"})

\* flatten to the token stream the terminal receives
RECURSIVE Flat(_, _)
Flat(prog, i) == IF i > Len(prog) THEN <<>> ELSE prog[i].toks \o Flat(prog, i + 1)

(* geometry *)
PW(c) == c.l + c.rw + c.r
PH(c) == c.t + c.rh + c.b
BoxOf(c) == {<<rr, cc>> : rr \in c.r0..(c.r0 + PH(c) - 1), cc \in 0..(PW(c) - 1)}
InnerOf(c) == {<<rr, cc>> : rr \in (c.r0 + c.t)..(c.r0 + c.t + c.rh - 1), cc \in c.l..(c.l + c.rw - 1)}
LetterCells(S) == {q \in DOMAIN S.cells : S.cells[q].g = "ch"}
LastLetter(c) == 65 + (IF Animated(c) THEN c.frames - 1 ELSE 0)
Needed(c) == Max(0, c.r0 + PH(c) - c.rows + 1)
=============================================================================
