---------------------------- MODULE Trace_Sizing ----------------------------
(***************************************************************************)
(* C04: code -> spec.  A trace is the life of ONE real image object:        *)
(*   [fam, ow, oh, ev, base, calls]  with ev a sequence of events, one per  *)
(* public call (followed by `calls`, bulk set_size calls in compact form),  *)
(* recorded at its return together with the environment in force:           *)
(*   op    new | set_size | size= | width= | height=   (request k, a, b and *)
(*         for set_size the frame fc, fl as passed)                         *)
(*         | resize | cell_ratio | observe | render | rows                  *)
(*   tc tl cw ch rn rd   terminal size, cell size (0,0 = unknown), ratio    *)
(*   kind w h m          image.size after the call: fixed (w, h) | dyn m    *)
(*   rw rh               image.rendered_size after the call                 *)
(*   dw dh               render: the size in force while rendering;         *)
(*                       rows: dh = UrwidImage.rows((a,)), b = 1 if upscale *)
(*   xo xf               AUTO requests: what the real ORIGINAL and FIT      *)
(*                       requests returned in the same environment          *)
(* Every event is judged against Sizing!SizeClause (THE PROPERTY) and the   *)
(* history clauses (FixedUnchanged, DynamicFollows, render restores).       *)
(* Steps are total: the verdict names the first failing clause and its      *)
(* event index.  Events are folded in chunks of Chunk per TLC step, so a    *)
(* state stays small whatever the trace length.  Sizing!Algo is evaluated   *)
(* next to the real result: `ndiff` counts events where the float code and  *)
(* the exact-rational transcription differ (evidence, not a violation) and  *)
(* `brs` collects the branches of the algorithm that were exercised.        *)
(***************************************************************************)
EXTENDS Sizing, TLC, Json, IOUtils

Traces == JsonDeserialize(IOEnv.TRACE_FILE)
Chunk == 8

VARIABLES tid, l, acc
vars == <<tid, l, acc>>

Tr == Traces[tid]
N == Len(Tr.ev) + Len(Tr.calls)

\* bulk set_size calls are recorded compactly, under the trace's constant cell size / ratio:
\*   <<tc, tl, fc, fl, request code, a, b, stored fixed?, w, h, xo_w, xo_h, xf_w, xf_h>>
KName == <<"FIT", "AUTO", "ORIGINAL", "FIT_TO_WIDTH", "W", "H", "WH">>
CallEv(tr, c) ==
  [op |-> "set_size", k |-> KName[c[5]], a |-> c[6], b |-> c[7], fc |-> c[3], fl |-> c[4],
   tc |-> c[1], tl |-> c[2], cw |-> tr.base.cw, ch |-> tr.base.ch, rn |-> tr.base.rn, rd |-> tr.base.rd,
   kind |-> IF c[8] = 1 THEN "fixed" ELSE "dyn", w |-> c[9], h |-> c[10], m |-> IF c[8] = 1 THEN "" ELSE "?",
   rw |-> c[9], rh |-> c[10], dw |-> 0, dh |-> 0, xo |-> <<c[11], c[12]>>, xf |-> <<c[13], c[14]>>]
EvAt(tr, i) == IF i <= Len(tr.ev) THEN tr.ev[i] ELSE CallEv(tr, tr.calls[i - Len(tr.ev)])

EvEnv(tr, ev, fc, fl) ==
  [fam |-> tr.fam, ow |-> tr.ow, oh |-> tr.oh, tc |-> ev.tc, tl |-> ev.tl, fc |-> fc, fl |-> fl,
   cw |-> ev.cw, ch |-> ev.ch, rn |-> ev.rn, rd |-> ev.rd]

Stored(ev) == IF ev.kind = "fixed" THEN Fixed(ev.w, ev.h) ELSE Dynamic(ev.m)
ReqMode(ev) == [k |-> ev.k, a |-> ev.a, b |-> ev.b]

First(cs) == \* first clause of a sequence that is not "ok"
  LET bad == {i \in DOMAIN cs : cs[i] # "ok"} IN
  IF bad = {} THEN "ok" ELSE cs[CHOOSE i \in bad : \A j \in bad : i <= j]

\* AUTO *equals* ORIGINAL when the source fits and FIT otherwise: compared with what the real
\* code returned for those requests in the same environment
AutoEqual(d, ev) ==
  LET o == <<ev.w, ev.h>> IN
  IF AutoUndecided(d) THEN (IF o = ev.xo \/ o = ev.xf THEN "ok" ELSE "auto:equals-neither-original-nor-fit")
  ELSE IF SrcFits(d) THEN (IF o = ev.xo THEN "ok" ELSE "auto:source-fits-but-differs-from-original")
  ELSE (IF o = ev.xf THEN "ok" ELSE "auto:source-does-not-fit-but-differs-from-fit")

\* rendered_size: a fixed size as stored; a dynamic size as the property demands under the
\* current terminal / cell ratio with the default frame
RenderedClause(tr, ev) ==
  IF ev.kind = "fixed"
  THEN (IF <<ev.rw, ev.rh>> = <<ev.w, ev.h>> THEN "ok" ELSE "rendered-size:differs-from-fixed-size")
  ELSE IF ~(ev.m \in SizeModes) THEN "dynamic:not-a-size-mode"
  ELSE Tag("dynamic-follows:", SizeClause(Mode(ev.m), EvEnv(tr, ev, DefFC, DefFL), ev.rw, ev.rh))

\* set_size / width= / height= / constructor with arguments: stores a FIXED size satisfying the
\* property for the request under the frame given (default frame for the properties)
SetClause(tr, ev, fc, fl) ==
  LET m == ReqMode(ev)
      d == Derive(EvEnv(tr, ev, fc, fl))
  IN First(<<IF ev.kind = "fixed" THEN "ok" ELSE "set:stored-dynamic-instead-of-fixed",
             IF ev.kind = "fixed" THEN Tag("set:", SizeClauseD(m, d, ev.w, ev.h)) ELSE "ok",
             IF m.k = "AUTO" THEN AutoEqual(d, ev) ELSE "ok",
             RenderedClause(tr, ev)>>)

SizePropClause(tr, ev) ==
  First(<<IF ev.k = "WH"
          THEN (IF Stored(ev) = Fixed(ev.a, ev.b) THEN "ok" ELSE "size=:tuple-not-stored-as-given")
          ELSE (IF Stored(ev) = Dynamic(ev.k) THEN "ok" ELSE "size=:member-not-stored-as-dynamic"),
          RenderedClause(tr, ev)>>)

\* terminal resize / set_cell_ratio / plain observation: the stored size is untouched
KeepClause(tr, prev, ev) ==
  First(<<IF Stored(ev) = prev THEN "ok"
          ELSE IF prev.k = "fixed" THEN "fixed-unchanged:fixed-size-changed" ELSE "dynamic-size-changed",
          RenderedClause(tr, ev)>>)

RenderClause(tr, prev, ev) ==
  First(<<IF prev.k = "fixed"
          THEN (IF <<ev.dw, ev.dh>> = <<prev.w, prev.h>> THEN "ok" ELSE "render:fixed-size-not-used")
          ELSE Tag("render:dynamic:", SizeClause(Mode(prev.m), EvEnv(tr, ev, DefFC, DefFL), ev.dw, ev.dh)),
          IF Stored(ev) = prev THEN "ok" ELSE "render:size-not-restored",
          RenderedClause(tr, ev)>>)

\* UrwidImage.rows((cols,)): the height of the size the flow widget renders with: width = cols
\* given (upscale), else ORIGINAL when that is no larger (decided by the exact widths; either
\* answer within one cell of the boundary)
RowsClause(tr, prev, ev) ==
  LET d == Derive(EvEnv(tr, ev, DefFC, DefFL))
      cols == ev.a
      n == ev.dh
      fitOK == NearH(d, cols, n)
      oriOK == OriginalHeightOK(d, n)
  IN First(<<IF n >= 1 THEN "ok" ELSE "rows:positive",
             IF n <= HCap(GivenW(cols), d) THEN "ok" ELSE "rows:far-too-large",
             IF ev.b = 1 THEN (IF fitOK THEN "ok" ELSE "rows:upscale:aspect")
             ELSE IF d.ow <= (cols - 1) * d.CW THEN (IF oriOK THEN "ok" ELSE "rows:original-fits-but-not-original-height")
             ELSE IF d.ow >= (cols + 1) * d.CW THEN (IF fitOK THEN "ok" ELSE "rows:original-too-wide-but-not-fit-height")
             ELSE (IF fitOK \/ oriOK THEN "ok" ELSE "rows:neither-fit-nor-original-height"),
             IF Stored(ev) = prev THEN "ok" ELSE "rows:changed-the-image-size">>)

Clause(tr, prev, ev) ==
  CASE ev.op = "new" -> IF ev.k = "" THEN SizePropClause(tr, [ev EXCEPT !.k = "FIT"])
                        ELSE SetClause(tr, ev, DefFC, DefFL)
    [] ev.op = "set_size" -> SetClause(tr, ev, ev.fc, ev.fl)
    [] ev.op \in {"width=", "height="} -> SetClause(tr, ev, DefFC, DefFL)
    [] ev.op = "size=" -> SizePropClause(tr, ev)
    [] ev.op \in {"resize", "cell_ratio", "observe"} -> KeepClause(tr, prev, ev)
    [] ev.op = "render" -> RenderClause(tr, prev, ev)
    [] ev.op = "rows" -> RowsClause(tr, prev, ev)
    [] OTHER -> "unknown-op"

\* what the exact-rational transcription of _valid_size gives for the event: <<w, h, br>> or
\* <<0, 0, "">> when the event involves no computation
AlgoFor(tr, prev, ev) ==
  LET R(m, fc, fl) == LET r == Algo(m, EvEnv(tr, ev, fc, fl)) IN [w |-> r.w, h |-> r.h, br |-> r.br, tie |-> r.tie, got |-> <<ev.w, ev.h>>]
      None == [w |-> 0, h |-> 0, br |-> "", tie |-> FALSE, got |-> <<0, 0>>]
  IN CASE ev.op = "set_size" /\ ev.kind = "fixed" -> R(ReqMode(ev), ev.fc, ev.fl)
       [] ev.op \in {"width=", "height="} /\ ev.kind = "fixed" -> R(ReqMode(ev), DefFC, DefFL)
       [] ev.op = "new" /\ ev.k # "" /\ ev.kind = "fixed" -> R(ReqMode(ev), DefFC, DefFL)
       [] ev.op \in {"resize", "cell_ratio", "observe", "size=", "new"} /\ ev.kind = "dyn" /\ ev.m \in SizeModes ->
            [R(Mode(ev.m), DefFC, DefFL) EXCEPT !.got = <<ev.rw, ev.rh>>]
       [] ev.op = "render" /\ prev.k = "dyn" /\ prev.m \in SizeModes ->
            [R(Mode(prev.m), DefFC, DefFL) EXCEPT !.got = <<ev.dw, ev.dh>>]
       [] OTHER -> None

Acc0 == [sz |-> Dynamic("?"), verdict |-> "ok", at |-> 0, ndiff |-> 0, firstdiff |-> 0, ndiffnotie |-> 0,
         brs |-> {}]

EvStep(tr, a, i) ==
  LET ev == tr.ev[i]
      c == IF a.verdict # "ok" THEN a.verdict ELSE Clause(tr, a.sz, ev)
      al == AlgoFor(tr, a.sz, ev)
      differs == al.br # "" /\ al.got # <<al.w, al.h>>
  IN [sz |-> Stored(ev),
      verdict |-> c,
      at |-> IF a.verdict = "ok" /\ c # "ok" THEN i ELSE a.at,
      ndiff |-> a.ndiff + (IF differs THEN 1 ELSE 0),
      \* a difference although no rounding of the exact computation is a tie (not expected)
      ndiffnotie |-> a.ndiffnotie + (IF differs /\ ~al.tie THEN 1 ELSE 0),
      firstdiff |-> IF differs /\ a.firstdiff = 0 THEN i ELSE a.firstdiff,
      brs |-> IF al.br = "" THEN a.brs ELSE a.brs \cup {al.br}]

\* the same judgement for a compact bulk call c (= SetClause of CallEv(tr, c) without building
\* the event record; the environment is derived once)
CallStep(tr, a, i, c) ==
  LET d == Derive([fam |-> tr.fam, ow |-> tr.ow, oh |-> tr.oh, tc |-> c[1], tl |-> c[2], fc |-> c[3],
                   fl |-> c[4], cw |-> tr.base.cw, ch |-> tr.base.ch, rn |-> tr.base.rn, rd |-> tr.base.rd])
      m == [k |-> KName[c[5]], a |-> c[6], b |-> c[7]]
      o == <<c[9], c[10]>>
      sc == SizeClauseD(m, d, c[9], c[10])
      cl == IF a.verdict # "ok" THEN a.verdict
            ELSE IF c[8] # 1 THEN "set:stored-dynamic-instead-of-fixed"
            ELSE IF sc # "ok" THEN "set:" \o sc
            ELSE IF m.k # "AUTO" THEN "ok"
            ELSE IF AutoUndecided(d)
                 THEN (IF o = <<c[11], c[12]>> \/ o = <<c[13], c[14]>> THEN "ok" ELSE "auto:equals-neither-original-nor-fit")
            ELSE IF SrcFits(d)
                 THEN (IF o = <<c[11], c[12]>> THEN "ok" ELSE "auto:source-fits-but-differs-from-original")
            ELSE (IF o = <<c[13], c[14]>> THEN "ok" ELSE "auto:source-does-not-fit-but-differs-from-fit")
      r == AlgoD(m, d)
      differs == c[8] = 1 /\ o # <<r.w, r.h>>
  IN [sz |-> IF c[8] = 1 THEN Fixed(c[9], c[10]) ELSE Dynamic("?"),
      verdict |-> cl,
      at |-> IF a.verdict = "ok" /\ cl # "ok" THEN i ELSE a.at,
      ndiff |-> a.ndiff + (IF differs THEN 1 ELSE 0),
      ndiffnotie |-> a.ndiffnotie + (IF differs /\ ~r.tie THEN 1 ELSE 0),
      firstdiff |-> IF differs /\ a.firstdiff = 0 THEN i ELSE a.firstdiff,
      brs |-> a.brs \cup {r.br}]

StepAcc(tr, a, i) ==
  IF i <= Len(tr.ev) THEN EvStep(tr, a, i) ELSE CallStep(tr, a, i, tr.calls[i - Len(tr.ev)])

RECURSIVE Fold(_, _, _, _)
Fold(tr, a, i, last) == IF i > last THEN a ELSE Fold(tr, StepAcc(tr, a, i), i + 1, last)

Init ==
  /\ tid \in 1..Len(Traces)
  /\ l = 0
  /\ acc = Acc0

Consume ==
  /\ l < N
  /\ LET last == MinI(l + Chunk, N) IN
       /\ acc' = Fold(Tr, acc, l + 1, last)
       /\ l' = last
  /\ UNCHANGED tid

Finish ==
  /\ l = N
  /\ l' = N + 1
  /\ UNCHANGED <<tid, acc>>

Next == Consume \/ Finish
Spec == Init /\ [][Next]_vars

Done == l = N + 1
Report == Done => PrintT(<<"VERDICT", ToJson([tid |-> tid, verdict |-> acc.verdict, at |-> acc.at,
                                               n |-> N, ndiff |-> acc.ndiff, firstdiff |-> acc.firstdiff,
                                               ndiffnotie |-> acc.ndiffnotie,
                                               brs |-> acc.brs])>>)
=============================================================================
