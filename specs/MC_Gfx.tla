------------------------------ MODULE MC_Gfx ------------------------------
(***************************************************************************)
(* C03 (b): the producer  Transmission.get_chunks  composed with the kitty *)
(* receiver.  For EVERY payload length L in 0..3*ChunkSize+8 (this covers  *)
(* 0, 1, k*ChunkSize-4, k*ChunkSize, k*ChunkSize+4 for k = 1..3) TLC       *)
(* checks that the receiver accepts every emitted command and that the     *)
(* reassembled length is L.  MC_Gfx.cfg: ChunkSize = 16; MC_Gfx4096.cfg:   *)
(* the implementation / protocol constant 4096.                            *)
(* At the end of each behaviour the emitted sequence is printed            *)
(* (<<"CHUNKS", ...>>) and replayed into the REAL get_chunks by the driver.*)
(***************************************************************************)
EXTENDS Gfx, Json

CONSTANT Variant       \* "code" | "m-by-full-chunk" | "size-minus-1"

VARIABLES p, R, out, verdict, hist
vars == <<p, R, out, verdict, hist>>

Lengths == 0..(3 * ChunkSize + 8)

TestRec == [NoRec EXCEPT !.a = "T", !.f = 24, !.t = "d"]

Init ==
  /\ p \in {PInit(L) : L \in Lengths}
  /\ R = RxInit
  /\ out = NoCmd
  /\ verdict = "ok"
  /\ hist = <<>>

Emit ==
  LET st == PStep(p, Variant)
      c == [st.out EXCEPT !.more = Emits(st.p, Variant) > 0, !.rec = TestRec]
  IN /\ p' = st.p
     /\ out' = c
     /\ verdict' = (IF verdict # "ok" THEN verdict ELSE ChunkClause(R, c))
     /\ R' = RxApply(R, c)
     /\ hist' = Append(hist, [ctl |-> c.ctl, m |-> c.m, len |-> c.len])

\* one named action per yield statement of get_chunks
First == p.pc = "first" /\ Emit
Continue == p.pc = "loop" /\ p.next > 0 /\ Emit
Last == p.pc = "loop" /\ p.next = 0 /\ p.chunk > 0 /\ Emit
Stop ==
  /\ p.pc = "loop" /\ p.next = 0 /\ p.chunk = 0
  /\ p' = [p EXCEPT !.pc = "done"]
  /\ UNCHANGED <<R, out, verdict, hist>>

Next == First \/ Continue \/ Last \/ Stop
Spec == Init /\ [][Next]_vars

Done == p.pc = "done"

ReceiverAccepts == verdict = "ok"
ReassembledLength == Done => (R.rx = "idle" /\ R.ntrans = 1 /\ R.last = p.L)
NothingLost == Done => p.pos = p.L
ChunkBound == out.len <= ChunkSize
FirstHasControl == (Len(hist) >= 1 => hist[1].ctl) /\ (\A i \in 2..Len(hist) : ~hist[i].ctl)
ChunkCount == Done => Len(hist) = Max(1, (p.L + ChunkSize - 1) \div ChunkSize)

Report == Done => PrintT(<<"CHUNKS", ToJson([L |-> p.L, seq |-> hist, verdict |-> verdict])>>)
=============================================================================
