------------------------------ MODULE RenderIter ------------------------------
(***************************************************************************)
(* RenderIterator (term_image.render) as a transition system: C08, C09, C10 *)
(*                                                                         *)
(* State record s (one variable, so that every dumped edge is self-        *)
(* describing); `out` holds the last operation with its arguments and its  *)
(* observable result.  One named action per public operation.              *)
(*                                                                         *)
(* Definite source (N >= 2 frames):                                        *)
(*   off      frame to be rendered next (0..N; N = "wraps at next render", *)
(*            the documented end-of-loop boundary)                         *)
(*   loop     public countdown                                             *)
(*   cache    per frame: <<>> or <<size, dur, args>> under which the frame *)
(*            was rendered and cached                                      *)
(* Indefinite source (N = 0; a stream of K frames owned by the renderable):*)
(*   pend     <<offset, whence>> handed to the renderable at the next      *)
(*            render (default <<0, "CURRENT">>), then reset                 *)
(*   pos      the renderable's stream position (environment)               *)
(* Settings: size, dur, args, pad - each applies from the next RENDERED    *)
(* frame (pad: next yielded frame).                                        *)
(* Ownership / finalization (C10): own ("iter" | "caller"), fin = number   *)
(* of times the render data was finalized, closed.                         *)
(***************************************************************************)
EXTENDS Naturals, Integers, Sequences, FiniteSets, TLC, Json

CONSTANTS
  N,          \* frame count (>= 2), or 0 for INDEFINITE
  K,          \* stream length for INDEFINITE
  LoopsSet,   \* loop counts to start with (negative = infinite)
  CacheSet,   \* subset of BOOLEAN: caching enabled?
  OwnSet,     \* subset of {"iter", "caller"}
  Sizes, Durs, ArgsSet, Pads,   \* setting domains: sizes <<w, h>>, durations (Dyn = DYNAMIC),
                                \* opaque args, padding records (see PadDims)
  SeekOffs,   \* offsets tried by Seek
  TW, TH,     \* initial terminal size (relative paddings resolve against the CURRENT one)
  Terms,      \* terminal sizes the environment may switch to (Resize); {} = never resized
  MaxDepth

VARIABLES s, out
vars == <<s, out>>

Definite == N > 0
Whences == {"START", "CURRENT", "END"}
NoPend == <<0, "CURRENT">>
InitPend == <<0, "START">>          \* what a fresh render data carries: "first frame of the stream"
Dyn == -1                          \* FrameDuration.DYNAMIC
DynDur(f) == 10 * (f + 1)          \* what the probe renderable reports for DYNAMIC
EffDur(d, f) == IF d = Dyn THEN DynDur(f) ELSE d

(* Padding: [kind |-> "exact", l, t, r, b] or [kind |-> "aligned", w, h, ha, va] where a  *)
(* non-positive w / h is terminal-relative (max(terminal + d, 1)) and ha / va in 0..2 are    *)
(* LEFT/CENTER/RIGHT resp. TOP/MIDDLE/BOTTOM with ratios 0/1, 1/2, 1/1 (floor).             *)
NoPad == [kind |-> "exact", l |-> 0, t |-> 0, r |-> 0, b |-> 0]
MaxI(a, b) == IF a > b THEN a ELSE b
Resolve(d, term) == IF d > 0 THEN d ELSE MaxI(term + d, 1)
Lead(total, a) == CASE a = 0 -> 0 [] a = 1 -> total \div 2 [] OTHER -> total
\* kind "sub": an instance of a USER SUBCLASS of AlignedPadding whose _get_exact_dimensions_
\* puts all of the horizontal padding on the left and all of the vertical padding at the top
\* (whatever the alignment); resolving a relative one must keep the class (and so the rule)
PadDims(p, size) ==
  IF p.kind = "exact" THEN <<p.l, p.t, p.r, p.b>>
  ELSE IF p.kind = "sub"
    THEN <<MaxI(Resolve(p.w, TW) - size[1], 0), MaxI(Resolve(p.h, TH) - size[2], 0), 0, 0>>
  ELSE LET pw == MaxI(Resolve(p.w, TW) - size[1], 0)
           ph == MaxI(Resolve(p.h, TH) - size[2], 0)
           l == Lead(pw, p.ha)
           t == Lead(ph, p.va)
       IN <<l, t, pw - l, ph - t>>
\* set_padding() resolves a terminal-relative padding against the terminal size AT THE TIME OF
\* THE CALL; the iterator keeps the resolved padding (a later resize alone changes nothing, a
\* set_padding() after a resize sees the new size)
ResolvePad(p, term) ==
  IF p.kind \in {"aligned", "sub"} THEN [p EXCEPT !.w = Resolve(p.w, term[1]), !.h = Resolve(p.h, term[2])] ELSE p
PaddedSize(p, size) == LET d == PadDims(p, size) IN <<d[1] + size[1] + d[3], d[2] + size[2] + d[4]>>

Frames == 0..(N - 1)
EmptyCache == [f \in Frames |-> <<>>]

\* a fresh iterator: l loops, caching decided as c, render data owned by o
InitState(l, c, o) ==
   [closed |-> FALSE, dropped |-> FALSE, loop |-> IF Definite THEN l ELSE 1, off |-> 0,
    pend |-> IF Definite THEN NoPend ELSE InitPend, pos |-> 0,
    size |-> <<2, 1>>, dur |-> 50, args |-> "a0", pad |-> NoPad,
    cached |-> (Definite /\ c), cache |-> IF Definite /\ c THEN EmptyCache ELSE <<>>,
    own |-> o, fin |-> 0, loops |-> IF Definite THEN l ELSE 1, term |-> <<TW, TH>>]
InitStates == {InitState(l, c, o) : l \in LoopsSet, c \in CacheSet, o \in OwnSet}

\* The cache decision of RenderIterator(..., cache=arg): arg is a bool ([kind |-> "bool", b]) or
\* a limit ([kind |-> "int", n]): "enabled if True or frame_count <= limit"; never for INDEFINITE
CacheRequested(arg) == Definite /\ (IF arg.kind = "bool" THEN arg.b ELSE N <= arg.n)

(* ---------------------------------------------------------------------- *)
(* closing                                                                 *)

Finalized(t) == [t EXCEPT !.closed = TRUE, !.fin = IF t.own = "iter" THEN t.fin + 1 ELSE t.fin]

(* ---------------------------------------------------------------------- *)
(* next()                                                                  *)

\* Definite: where the generator stands when resumed
AtBoundary(t) == t.off >= N
Wrapped(t) == IF AtBoundary(t)
                THEN [t EXCEPT !.off = 0, !.loop = IF t.loop > 0 THEN t.loop - 1 ELSE t.loop]
                ELSE t
Exhausts(t) == AtBoundary(t) /\ Wrapped(t).loop = 0
NextFrame(t) == Wrapped(t).off
CacheHit(t) == LET w == Wrapped(t) IN
                 w.cached /\ w.cache[w.off] = <<w.size, w.dur, w.args>>
WouldRender(t) ==
  ~t.closed /\ (IF Definite THEN ~Exhausts(t) /\ ~CacheHit(t) ELSE TRUE)

FrameRes(num, t, rendered) ==
  [res |-> "frame", num |-> num, dur |-> EffDur(t.dur, num), size |-> t.size,
   margins |-> PadDims(t.pad, t.size), psize |-> PaddedSize(t.pad, t.size),
   args |-> t.args, rendered |-> rendered, seek |-> <<>>, inner |-> ""]

NextDef(t) ==
  \* returns <<t', result>>
  IF Exhausts(t) THEN <<Finalized(Wrapped(t)), [res |-> "stop"]>>
  ELSE LET w == Wrapped(t)
           f == w.off
           hit == CacheHit(t)
           w1 == [w EXCEPT !.off = f + 1,
                           !.cache = IF w.cached THEN [w.cache EXCEPT ![f] = <<w.size, w.dur, w.args>>]
                                     ELSE w.cache]
       IN <<w1, FrameRes(f, w, ~hit)>>

\* Indefinite: the probe renderable's stream semantics (the environment)
Seeked(pos, p) ==
  LET o == p[1] wh == p[2]
      raw == CASE wh = "START" -> o [] wh = "CURRENT" -> pos + o [] OTHER -> K - 1 + o
  IN IF raw < 0 THEN 0 ELSE raw

NextIndef(t) ==
  LET p == Seeked(t.pos, t.pend) IN
  IF p >= K
    THEN <<Finalized([t EXCEPT !.loop = 0, !.pend = t.pend]), [res |-> "stop"]>>
    ELSE <<[t EXCEPT !.pos = p + 1, !.pend = NoPend],
           [FrameRes(p, t, TRUE) EXCEPT !.seek = t.pend]>>

DoNext(t) ==
  IF t.closed THEN <<t, [res |-> "stop-finalized"]>>
  ELSE IF Definite THEN NextDef(t) ELSE NextIndef(t)

\* A render that raises: the iterator closes, the exception reaches the caller.
DoNextFails(t, kind) ==
  IF Definite
    THEN <<Finalized(Wrapped(t)),
           [res |-> IF kind = "stop" THEN "StopDefiniteIterationError" ELSE "ProbeError"]>>
    ELSE IF kind = "stop"
           THEN <<Finalized([t EXCEPT !.loop = 0]), [res |-> "stop"]>>
           ELSE <<Finalized(t), [res |-> "ProbeError"]>>

(* ---------------------------------------------------------------------- *)
(* control operations                                                      *)

SeekTarget(t, o, wh) ==
  CASE wh = "START" -> o [] wh = "CURRENT" -> t.off + o [] OTHER -> N + o - 1

DoSeek(t, o, wh) ==
  IF t.closed THEN <<t, [res |-> "FinalizedIteratorError"]>>
  ELSE IF Definite THEN
    LET f == SeekTarget(t, o, wh) IN
    IF f >= 0 /\ f < N THEN <<[t EXCEPT !.off = f], [res |-> "ok"]>>
    ELSE <<t, [res |-> "ValueError"]>>
  ELSE
    IF (wh = "START" /\ o < 0) \/ (wh = "END" /\ o > 0) THEN <<t, [res |-> "ValueError"]>>
    ELSE <<[t EXCEPT !.pend = <<o, wh>>], [res |-> "ok"]>>

DoSet(t, field, v, valid, err) ==
  IF t.closed THEN <<t, [res |-> "FinalizedIteratorError"]>>
  ELSE IF ~valid THEN <<t, [res |-> err]>>
  ELSE <<[t EXCEPT ![field] = v], [res |-> "ok"]>>

DoSetPad(t, p) == DoSet(t, "pad", ResolvePad(p, t.term), TRUE, "")
DoResize(t, z) == <<[t EXCEPT !.term = z], [res |-> "ok"]>>   \* the environment: always possible

DoClose(t) == <<IF t.closed THEN t ELSE Finalized(t), [res |-> "ok"]>>

(* ---------------------------------------------------------------------- *)
(* actions                                                                 *)

Do(op, pair) ==
  /\ s' = pair[1]
  /\ out' = [op |-> op, r |-> pair[2]]

Next_ == Do([name |-> "next"], DoNext(s))
NextFails == \E kind \in {"exc", "stop"} :
               /\ WouldRender(s)
               /\ Do([name |-> "next_fails", kind |-> kind], DoNextFails(s, kind))
\* close() called re-entrantly while a frame of this very iterator is being rendered (from the
\* renderable, or from another thread): it is rejected (the generator is executing) and must
\* leave the iterator fully usable - in particular NOT marked closed
NextReclose ==
  /\ WouldRender(s)
  /\ LET pair == DoNext(s) IN
       Do([name |-> "next_reclose"],
          <<pair[1], IF pair[2].res = "frame" THEN [pair[2] EXCEPT !.inner = "ValueError"] ELSE pair[2]>>)
Seek == \E o \in SeekOffs, wh \in Whences :
          Do([name |-> "seek", off |-> o, whence |-> wh], DoSeek(s, o, wh))
SetDuration == \E d \in Durs \cup {0} :
                 Do([name |-> "set_frame_duration", v |-> d], DoSet(s, "dur", d, d # 0, "ValueError"))
SetPadding == \E p \in Pads : Do([name |-> "set_padding", v |-> p], DoSetPad(s, p))
Resize == \E z \in Terms \ {s.term} : Do([name |-> "resize", v |-> z], DoResize(s, z))
\* render arguments of an unrelated render class ("incompatible") and of a CHILD class of the
\* renderable's class ("child") are both incompatible: only the class itself and its ancestors
Incompat == {"incompatible", "child"}
\* Render-argument VALUES are opaque here and compared BY VALUE (the cache key below, FrameRes).
\* The binding gives every set_render_args() a NEW RenderArgs object, so "equal" never means
\* "identical".  Hashability of render arguments is optional ("hashable iff the constituent
\* namespaces are"): the values named here hold a list resp. a dict in a field - perfectly legal
\* arguments that cannot be hashed.  They obey exactly the same laws as every other value: the
\* cache may not need anything but equality of the arguments (C09, round 7).
ArgsUnhashable == {"a4", "a5"}
SetArgs == \E a \in ArgsSet \cup Incompat :
             Do([name |-> "set_render_args", v |-> a],
                DoSet(s, "args", a, a \notin Incompat, "IncompatibleRenderArgsError"))
SetSize == \E z \in Sizes : Do([name |-> "set_render_size", v |-> z], DoSet(s, "size", z, TRUE, ""))
Close == Do([name |-> "close"], DoClose(s))
Drop == /\ ~s.closed
        /\ Do([name |-> "drop"], <<[DoClose(s)[1] EXCEPT !.dropped = TRUE], DoClose(s)[2]>>)
        \* last reference dropped: __del__ closes; nothing can be called afterwards

Init == /\ s \in InitStates
        /\ out = [op |-> [name |-> "init"], r |-> [res |-> "ok"]]
        /\ PrintT(<<"INIT", ToJson(s)>>)
Next == ~s.dropped /\ (Next_ \/ NextFails \/ NextReclose \/ Seek \/ SetDuration \/ SetPadding \/ SetArgs \/ SetSize \/ Resize \/ Close \/ Drop)
Spec == Init /\ [][Next]_vars

Bound == TLCGet("level") <= MaxDepth
View == s

(* ---------------------------------------------------------------------- *)
(* properties                                                              *)

TypeOK ==
  /\ s.closed \in BOOLEAN
  /\ s.off \in 0..N
  /\ s.fin \in 0..1
  /\ s.loop \in Int

\* C10: finalized at most once; exactly once when the iterator owns the data and is closed;
\* never when the caller kept ownership
FinalizeOnce == s.fin <= 1
FinalizeIffClosedAndOwned == s.fin = (IF s.closed /\ s.own = "iter" THEN 1 ELSE 0)

\* C08: a seek never consumes a loop; rejected operations change nothing
IsOp(n) == out'.op.name = n \/ (n = "next" /\ out'.op.name = "next_reclose")
SeekNoLoop == [][IsOp("seek") => s'.loop = s.loop /\ s'.closed = s.closed]_vars
RejectedChangesNothing ==
  [][(out'.r.res \in {"ValueError", "FinalizedIteratorError", "IncompatibleRenderArgsError",
                      "stop-finalized"}) => s' = s]_vars
\* settings are only changed by their own setter
SettingsOnlyBySetter ==
  [][/\ (s'.size # s.size => IsOp("set_render_size"))
     /\ (s'.dur # s.dur => IsOp("set_frame_duration"))
     /\ (s'.args # s.args => IsOp("set_render_args"))
     /\ (s'.pad # s.pad => IsOp("set_padding"))]_vars
\* a terminal resize by itself changes nothing the iterator shows
ResizeAloneChangesNothing == [][IsOp("resize") => [s' EXCEPT !.term = s.term] = s]_vars
\* a yielded frame carries the CURRENT settings (cache invisible, C09) and the frame number
\* the history dictates
FrameMatchesSettings ==
  [][(IsOp("next") /\ out'.r.res = "frame") =>
       /\ out'.r.size = s.size /\ out'.r.margins = PadDims(s.pad, s.size) /\ out'.r.args = s.args
       /\ out'.r.dur = EffDur(s.dur, out'.r.num)
       /\ (Definite => out'.r.num = NextFrame(s))]_vars
\* C09: while (size, dur, args) are unchanged a cached frame is not rendered again
NoRerender ==
  [][(IsOp("next") /\ out'.r.res = "frame" /\ Definite /\ s.cached
        /\ Wrapped(s).cache[NextFrame(s)] = <<s.size, s.dur, s.args>>) => ~out'.r.rendered]_vars
\* C09: arguments are compared by value - setting arguments EQUAL to the current ones (a new,
\* possibly unhashable, object) changes nothing, in particular it invalidates no cache entry
\* and it never fails
EqualArgsChangeNothing ==
  [][(IsOp("set_render_args") /\ out'.op.v = s.args /\ ~s.closed) => s' = s /\ out'.r.res = "ok"]_vars
\* after exhaustion / close / error: closed, next() stops, control operations raise
ClosedIsTerminal == [][s.closed => s'.closed /\ s'.fin = s.fin]_vars
\* loop only ever decreases, by one, at a wrap; reaches 0 exactly at exhaustion
LoopCountdown ==
  [][s'.loop # s.loop => /\ IsOp("next") \/ IsOp("next_fails")
                         /\ (Definite => s'.loop = s.loop - 1 /\ s.off >= N)]_vars
\* indefinite: the pending seek is handed over exactly once (it is reset by the render that got it)
PendingSeekOnce ==
  [][(~Definite /\ IsOp("next") /\ out'.r.res = "frame") =>
        out'.r.seek = s.pend /\ s'.pend = NoPend]_vars

(* ---------------------------------------------------------------------- *)
(* edge dump for spec -> code replay                                       *)
Dump == PrintT(<<"EDGE", ToJson([from |-> s, op |-> out', to |-> s'])>>)
=============================================================================
