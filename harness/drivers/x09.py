"""X09 (extension) - the public API surface of ``term_image.image.ImageIterator`` that no listed
property states: constructor argument validation, the meaning of ``cached`` / ``repeat`` / the
defaults, ``loop_no``, ``__iter__``, ``__repr__``, ``seek()`` validation and its phase errors,
``close()`` idempotence, ``StopIteration`` for ever, independence from ``image.seek()``.

model:      specs/IterLife.tla over specs/IterLifeCore.tla: one animated image with N frames and the
            iterators held in slots over it; per iterator {phase none/fresh/started/exhausted/closed,
            next frame, countdown, loop_no, caching in force, stored frames}; one named action per
            API call and per way of being rejected; laws as named invariants / action properties.
            Explored exhaustively for N in {2,3} x repeat {-1,1,2} x cached {False,True,N-1,N} (one
            slot) and for two iterators over the same image (N = 2).
spec->code: TLC dumps every edge of the one-slot model; harness/graph.py turns them into covering
            walks; every walk runs on a fresh REAL image + iterator (harness/x09_world.py; render
            style, terminal identity, GIF/WebP, file/PIL source, fixed/dynamic size, iterator class
            drawn per walk) and after EACH operation the result class, return token, yielded frame
            number, renders, source-file opens, loop_no, the parsed repr() and the image's tell() /
            size / closed are compared with the model.
code->spec: seeded random histories over one or two iterators of the same image (N in 2..4, random
            arguments, mostly valid) are executed on the real code, recorded, and validated by TLC
            against specs/Trace_IterLife.tla, as are a sample of the replayed walks and every walk
            prefix the replay disagreed with (the failing clause = signature always comes from TLA+).
"""

from __future__ import annotations

import copy
import json
import multiprocessing as mp
import os
import random
import time
from concurrent.futures import ThreadPoolExecutor

from .. import graph, tlc
from .. import x09_world as W
from ..core import Report

POOL = int(os.environ.get("VERIF_X09_POOL", "4"))

ASSUMPTIONS = [
    "where several documented error conditions hold at once (two bad constructor arguments; an ill-typed "
    "seek position on an iterator that has not started) any of the documented classes is accepted: the "
    "documentation does not order the checks",
    "a yielded frame is identified by looking it up in format(reference image at frame i, same spec) "
    "(str(reference) for iter(image)); what the frame must look like is C11's",
    "'caching is enabled' is observed as: a frame that was rendered and stored in an earlier loop is not "
    "rendered again (count of successful _render_image calls during next()) and repr() shows cached=True; "
    "that caching never changes a frame is C09's",
    "'a rejected construction opens no file' is observed by counting PIL.Image.open calls on the source path",
    "bool is not offered where an int is documented (repeat=True is taken as 1 by the code; the docs are silent)",
    "after close() loop_no keeps the value it had: 'When iteration has ended, the value is zero' is read as "
    "'exhausted', not 'closed by the caller'",
    "garbage collection of an iterator = dropping the last reference (gc.collect() only if the object survives)",
    "DEVIATIONS modelled as actions of their own, not raised as violations: for a negative repeat other than "
    "-1 loop_no shows the number given instead of -1 (NewInfiniteOther); a seek() back to a stored frame "
    "within the first loop renders it again (NextSeekBackFirstLoop: either behaviour admitted)",
]

ACTIONS = (
    "New", "NewDefaults", "NewSomeDefaults", "NewViaIter", "NewInfiniteOther", "NewBadImage", "NewNotAnimated",
    "NewFinalizedImage", "NewBadRepeatType", "NewZeroRepeat", "NewBadSpecType", "NewBadSpec", "NewBadStyleSpec",
    "NewBadCachedType", "NewBadCachedValue", "NewSeveralBad", "NextFirst", "NextFrame", "NextCacheHit",
    "NextSeekBackFirstLoop", "NextNewLoop", "NextExhausts", "NextAfterEnd", "Seek", "SeekBadType",
    "SeekOutOfRange", "SeekNotStarted", "SeekAfterEnd", "Close", "CloseAgain", "IterSelf", "SetLoopNo", "Drop",
    "ImageSeek")


# ------------------------------------------------------------------ spec -> code
def _diff(ev: dict, edge: dict, src: str) -> str:
    """'' if what the real objects did equals the model's projection, else what differs."""
    op = edge["op"]
    if ev["res"] not in op["res"]:
        return f"result {ev['res']!r}, model admits {op['res']}"
    if ev["unr"]:
        return f"{ev['unr']} exception(s) escaped a finalizer"
    if ev["ret"] != op["ret"]:
        return f"returned {ev['ret']!r}, model {op['ret']!r}"
    if ev["frame"] != op["frame"]:
        return f"frame {ev['frame']}, model {op['frame']}"
    if ev["rend"] not in op["rend"]:
        return f"{ev['rend']} frame(s) rendered, model admits {op['rend']}"
    if ev["opens"] not in op["opens"][src]:
        return f"source file opened {ev['opens']} time(s), model admits {op['opens'][src]}"
    obs, exp = ev["obs"], edge["exp"]
    if obs["img"] != exp["img"]:
        return f"image reads {obs['img']}, model {exp['img']}"
    for k, (a, b) in enumerate(zip(obs["its"], exp["its"]), 1):
        if a["live"] != b["live"] or a["ln"] != b["ln"]:
            return f"iterator {k}: live={a['live']} loop_no={a['ln']}, model live={b['live']} loop_no={b['ln']}"
        if b["live"]:
            for f, x in b["rp"].items():
                if x != "any" and a["rp"][f] != x:
                    return f"iterator {k}: repr field {f} reads {a['rp'][f]!r}, model {x!r}"
    return ""


def _walk_cfg(wseed: int) -> dict:
    return W.make_wcfg(random.Random(wseed))


def replay_chunk(task: dict) -> dict:
    """Execute covering walks on fresh real objects (pool worker)."""
    out = {"steps": 0, "mismatches": [], "traces": [], "lost_edges": 0}
    for wk in task["walks"]:
        wcfg = _walk_cfg(wk["wseed"])
        c = {"n": wk["n"]}
        w = W.World(c, wcfg, wk["wseed"], 1)
        events = []
        try:
            for i, edge in enumerate(wk["edges"]):
                ev = w.step(edge["op"]["o"])
                events.append(ev)
                out["steps"] += 1
                d = _diff(ev, edge, wcfg["src"])
                if d:
                    out["mismatches"].append({"c": {"n": wk["n"], "src": wcfg["src"]}, "slots": 1, "ev": events,
                                              "wcfg": wcfg, "wseed": wk["wseed"], "walk": wk["idx"], "step": i,
                                              "diff": d, "act": edge["op"]["act"]})
                    out["lost_edges"] += len(wk["edges"]) - i - 1
                    break
            else:
                if wk["keep"]:
                    out["traces"].append({"c": {"n": wk["n"], "src": wcfg["src"]}, "slots": 1, "ev": events,
                                          "wcfg": wcfg, "wseed": wk["wseed"], "walk": wk["idx"]})
        finally:
            w.close()
    return out


# ------------------------------------------------------------------ code -> spec: random histories
def _rep_good(rng):
    return W.V("int", rng.choice([-1, -1, 1, 2, 2, 3, -2]))


def _cached_good(rng, n):
    r = rng.random()
    if r < 0.4:
        return W.V("bool", rng.randrange(2))
    return W.V("int", rng.choice([1, n - 1, n, n, n + 1, n + 2, 100]))


def _spec_good(rng):
    return W.V("str", s=rng.choice(["plain", "fmt", "fmt"]))


def _new_good(rng, k, n):
    r = rng.random()
    if r < 0.12:
        return W.mkop("new", k, "good", W.ABSENT, W.ABSENT, W.ABSENT, "iter")
    a = W.ABSENT if rng.random() < 0.15 else _rep_good(rng)
    b = W.ABSENT if rng.random() < 0.2 else _spec_good(rng)
    c = W.ABSENT if rng.random() < 0.2 else _cached_good(rng, n)
    return W.mkop("new", k, "good", a, b, c, "ctor")


def _new_bad(rng, k, n):
    """A constructor call with at least one argument that is wrong by construction."""
    img, a, b, c = "good", _rep_good(rng), _spec_good(rng), _cached_good(rng, n)
    bad = rng.sample(["img", "a", "b", "c"], 1 if rng.random() < 0.8 else 2)
    if "img" in bad:
        img = rng.choice(["nonimage", "still", "finalized"])
    if "a" in bad:
        a = rng.choice([W.V("int", 0), W.V("float", s="2.0"), W.V("str", s="1"), W.NONE, W.OBJ])
    if "b" in bad:
        b = rng.choice([W.V("str", s="bad"), W.V("str", s="badstyle"), W.BYTES, W.NONE, W.V("int", 1)])
    if "c" in bad:
        c = rng.choice([W.V("int", 0), W.V("int", -1), W.V("int", -50), W.V("float", s="1.0"), W.NONE,
                        W.V("str", s="1")])
    return W.mkop("new", k, img, a, b, c, "ctor")


def _pos(rng, n):
    r = rng.random()
    if r < 0.78:
        return W.V("int", rng.randrange(n))
    if r < 0.9:
        return W.V("int", rng.choice([-1, n, n + 1, -n, 50]))
    return rng.choice([W.V("str", s="1"), W.V("float", s="1.0"), W.NONE, W.OBJ])


def _history_op(rng, w, n, slots):
    k = rng.randint(1, slots)
    if rng.random() < 0.07:
        return W.mkop("imgseek", 0, a=_pos(rng, n))
    if w.its[k] is None:
        return _new_good(rng, k, n) if rng.random() < 0.8 else _new_bad(rng, k, n)
    kind = rng.choices(["next", "seek", "close", "iter", "setln", "drop", "newbad"], [58, 14, 5, 3, 2, 6, 6])[0]
    if kind == "seek":
        return W.mkop("seek", k, a=_pos(rng, n))
    if kind == "newbad":
        return _new_bad(rng, k, n)
    return W.mkop(kind, k)


def record_random(task: dict) -> dict:
    """Generate a history online (the generator only looks at whether a slot holds an object) and run
    it on the real code (pool worker)."""
    rng = random.Random(task["hseed"])
    n = rng.choice(W.FRAME_COUNTS)
    slots = rng.choice([1, 2, 2])
    wcfg = W.make_wcfg(rng)
    w = W.World({"n": n}, wcfg, task["hseed"] ^ 0x5A5A, slots)
    ev = []
    try:
        for _ in range(task["length"]):
            ev.append(w.step(_history_op(rng, w, n, slots)))
    finally:
        w.close()
    return {"c": {"n": n, "src": wcfg["src"]}, "slots": slots, "ev": ev, "wcfg": wcfg, "wseed": task["hseed"] ^ 0x5A5A}


# ------------------------------------------------------------------ verdicts
def _trace_json(t: dict) -> dict:
    return {"c": t["c"], "slots": t["slots"], "ev": t["ev"]}


def _scenario(t: dict) -> dict:
    return {"kind": "history", "c": t["c"], "slots": t["slots"], "wcfg": t["wcfg"], "wseed": t.get("wseed", 0),
            "ops": [e["o"] for e in t["ev"]]}


def _show_val(v: dict) -> str:
    t = v["t"]
    return {"absent": "<default>", "none": "None", "int": str(v["i"]), "bool": str(bool(v["i"])),
            "float": v["s"], "str": repr(v["s"]), "bytes": "b'1.1'", "obj": "<object>"}[t]


def _show_op(o: dict, specs: dict | None = None) -> str:
    op = o["op"]
    if op == "new":
        if o["via"] == "iter":
            return f"it{o['k']} = iter(image)"
        spec = _show_val(o["b"])
        if specs and o["b"]["t"] == "str":
            spec = f"{specs.get(o['b']['s'])!r} ({o['b']['s']})"
        return (f"it{o['k']} = ImageIterator({o['img']} image, repeat={_show_val(o['a'])}, "
                f"format_spec={spec}, cached={_show_val(o['c'])})")
    if op == "imgseek":
        return f"image.seek({_show_val(o['a'])})"
    if op == "seek":
        return f"it{o['k']}.seek({_show_val(o['a'])})"
    return {"next": "next(it%d)", "close": "it%d.close()", "iter": "iter(it%d)", "setln": "it%d.loop_no = ...",
            "drop": "del it%d"}[op] % o["k"]


def _describe(t: dict, v: dict) -> str:
    at = v["at"]
    wc = t["wcfg"]
    lines = [f"clause {v['verdict']!r} at operation {at} of {len(t['ev'])} ({v['op']}, iterator {v['ph']}); "
             f"{wc['style']} on {wc['ident']}, {wc['fx']} with {t['c']['n']} frames from {t['c']['src']}, "
             f"{'dynamic' if wc['dyn'] else 'fixed'} size, class {wc['icls']}, specs {wc['specs']}"]
    lo = max(0, at - 10)
    for i, e in enumerate(t["ev"][lo:at], lo + 1):
        extra = f" #{e['frame']}" if e["frame"] != -1 else ""
        lines.append(f"  {i}. {_show_op(e['o'], wc['specs'])} -> {e['res']}{extra}"
                     + (f" (rendered {e['rend']})" if e["o"]["op"] == "next" and e["res"] == "frame" else ""))
    if 0 < at <= len(t["ev"]):
        e = t["ev"][at - 1]
        lines.append("  observed after it: " + json.dumps(e["obs"]) + f" opens={e['opens']} unraisable={e['unr']}")
    return "\n".join(lines)


def validate(traces: list[dict], name: str):
    if not traces:
        return [], 0, 0
    return tlc.validate_traces("Trace_IterLife", "Trace_IterLife.cfg", [_trace_json(t) for t in traces],
                               batch=300, parallel=3, workers=1, timeout=900, name=name)


def report(rep: Report, traces: list[dict], validated, origin: str, expect_fail: bool = False):
    verdicts, st, tr = validated
    rep.states += st
    rep.transitions += tr
    rep.traces_validated += len(traces)
    for t, v in zip(traces, verdicts):
        if v["verdict"].startswith("unsupported"):
            raise tlc.MachineryError(f"x09: {v['verdict']} at event {v['at']} ({origin}): "
                                     f"{_show_op(t['ev'][max(v['at'] - 1, 0)]['o']) if t['ev'] else ''}")
        if expect_fail and (v["verdict"] == "ok" or v["at"] != len(t["ev"])):
            raise tlc.MachineryError(
                f"x09: the replay saw a difference ({t.get('diff')}) at walk {t.get('walk')} step {t.get('step')} "
                f"that Trace_IterLife does not confirm: {v}")
        if v["verdict"] != "ok":
            detail = f"[{origin}] " + _describe(t, v)
            if t.get("diff"):
                detail += f"\n  replay difference: {t['diff']} (model action {t.get('act')})"
            rep.violation(f"{v['op']}:{v['verdict']}:{v['ph']}", detail, _scenario(t))
    return verdicts


# ------------------------------------------------------------------ main
def _run_tlc(*a, **kw):
    """TLC with several workers once died on a race over a shared constant record ("Attempted to select
    nonexistent field ..."): such a failure is retried once with a single worker."""
    try:
        return tlc.run(*a, **kw)
    except tlc.MachineryError as e:
        if "nonexistent field" not in str(e) or kw.get("workers") == 1:
            raise
        return tlc.run(*a, **dict(kw, workers=1))


def _replay(rep: Report, replay: dict) -> None:
    sc = replay["scenario"]
    if sc.get("kind") == "design":
        res = tlc.run("MC_IterLife", sc.get("cfg", "MC_IterLife.cfg"), workers=1, timeout=900)
        rep.add_tlc(res)
        if res.violated:
            rep.violation(f"design:IterLife:{res.violated}", res.error_text[:1500], sc)
        return
    W.install()
    W.build_fixtures(0)
    t = W.run_history({"c": sc["c"], "wcfg": sc["wcfg"], "wseed": sc.get("wseed", 0), "slots": sc.get("slots", 1),
                       "ops": sc["ops"]})
    rep.evaluations += len(t["ev"])
    report(rep, [t], validate([t], "x09-replay"), "replay")


def main(rep: Report, replay: dict | None) -> None:
    rep.assumptions += ASSUMPTIONS
    rep.rule = (
        "spec->code: every edge of the one-slot model (every reachable state of image + iterator x every "
        "operation of the alphabet, N in {2,3} x repeat {-1,1,2} x cached {False,True,N-1,N}) replayed on real "
        "iterators of the three render styles, everything observable read after each step; code->spec: seeded "
        "random histories over one or two iterators of one image; distinct_nontrivial = distinct (state, "
        "operation) edges + distinct recorded histories")
    if replay:
        _replay(rep, replay)
        return
    quick = rep.tier == "quick"
    tier = "quick" if quick else "thorough"
    timing = rep.extra.setdefault("timing_s", {})
    t0 = time.time()

    def lap(name):
        nonlocal t0
        timing[name] = round(time.time() - t0, 1)
        t0 = time.time()

    mc_cfg = "MC_IterLife.cfg" if quick else "MC_IterLife_thorough.cfg"
    pair_cfg = "MC_IterLife_pair.cfg" if quick else "MC_IterLife_pair_thorough.cfg"
    W.install()
    W.build_fixtures(0)
    pool = mp.get_context("fork").Pool(POOL)  # forked before any thread exists
    try:
        with ThreadPoolExecutor(max_workers=6) as ex:
            # -coverage with several workers hit a TLC race on shared constant records once: 1 worker
            f_mc = ex.submit(tlc.run, "MC_IterLife", mc_cfg, workers=1, timeout=900, coverage=True)
            f_pair = ex.submit(_run_tlc, "MC_IterLife", pair_cfg, workers=2 if quick else 4, timeout=1800)
            f_edges = ex.submit(tlc.run, "MC_IterLife", f"Edges_IterLife_{tier}.cfg", workers=1,
                                timeout=900 if quick else 1800)

            # ---- code -> spec: record random histories while TLC runs
            rng = random.Random(rep.seed * 7919 + 9)
            nh = 260 if quick else 3000
            htasks = [{"hseed": rng.randrange(1 << 30), "length": rng.randint(14, 36) if quick else rng.randint(25, 70)}
                      for _ in range(nh)]
            recorded = pool.map(record_random, htasks, chunksize=8)
            lap("record_histories")
            # canaries: corrupted copies of recorded histories (loop_no altered in one observation)
            def _started(e):
                return e["res"] == "frame" and e["obs"]["its"][e["o"]["k"] - 1]["ln"] != "None"

            canaries = []  # (index of the source history, event index, corrupted trace)
            for hi, t_ in enumerate(recorded):
                kk = next((i for i, e in enumerate(t_["ev"]) if _started(e)), None)
                if kk is None:
                    continue
                cn = copy.deepcopy(_trace_json(t_))
                cn["ev"] = cn["ev"][: kk + 1]
                ob = cn["ev"][kk]["obs"]["its"][cn["ev"][kk]["o"]["k"] - 1]
                ob["ln"] = "0" if ob["ln"] != "0" else "1"
                canaries.append((hi, kk, dict(cn, wcfg=t_["wcfg"])))
                if len(canaries) == 5:
                    break
            if not canaries:
                raise tlc.MachineryError("x09: no recorded history ever started an iteration")
            f_hist = ex.submit(validate, recorded + [cn for _, _, cn in canaries], "x09-c2s")

            # ---- spec -> code: replay every edge
            res_e = f_edges.result()
            if res_e.violated:
                raise tlc.MachineryError(f"x09: edge dump failed: {res_e.violated}\n{res_e.error_text[:1500]}")
            rep.add_tlc(res_e)
            edges = sorted(res_e.tagged("EDGE"), key=lambda e: (graph.key(e["from"]), graph.key(e["op"]["o"])))
            g2 = graph.Graph(edges, res_e.tagged("INIT"))
            cov: dict[str, int] = {}
            for e in g2.edges:  # per-action counts from the dump itself: these transitions ARE replayed
                cov[e["op"]["act"]] = cov.get(e["op"]["act"], 0) + 1
            states = {graph.key(x["key"]): x["obs"] for x in res_e.tagged("STATE")}
            if not g2.edges or len(states) != g2.nodes:
                raise tlc.MachineryError(f"x09: edge dump is incomplete: {len(g2.edges)} edges, {len(states)} STATE "
                                         f"lines for {g2.nodes} nodes")
            for e in g2.edges:
                e["exp"] = states[graph.key(e["to"])]
                rep.distinct.add((graph.key(e["from"]), graph.key(e["op"]["o"])))
            walks = g2.walks(max_len=40)
            if g2.unreachable_edges:
                raise tlc.MachineryError(f"x09: {g2.unreachable_edges} dumped edges are unreachable")
            nedges, nstates = len(g2.edges), g2.nodes
            keep_every = 25 if quick else 40
            wl = [{"idx": i, "n": w[0]["from"][0], "edges": w, "wseed": rep.seed * 1000003 + i,
                   "keep": (i + rep.seed) % keep_every == 0} for i, w in enumerate(walks)]
            all_walks = len(wl)
            wl.sort(key=lambda x: -len(x["edges"]))
            nchunk = POOL * 8
            chunks = [{"walks": wl[i::nchunk]} for i in range(nchunk) if wl[i::nchunk]]
            ar = pool.map_async(replay_chunk, chunks, chunksize=1)
            # a tampered edge (expected loop_no altered) must be noticed by the replay
            tw = next(w for w in wl if any(e["exp"]["its"][0]["live"] for e in w["edges"]))
            tw = copy.deepcopy(tw)
            j = next(i for i, e in enumerate(tw["edges"]) if e["exp"]["its"][0]["live"])
            tw["edges"][j]["exp"]["its"][0]["ln"] = "7"
            lap("dump_and_dispatch")
            results = ar.get()
            lap("replay_walks")
            if not pool.apply(replay_chunk, ({"walks": [tw]},))["mismatches"]:
                raise tlc.MachineryError("x09: the replay did not notice a tampered edge")

            mism = [m for r in results for m in r["mismatches"]]
            sampled = [t for r in results for t in r["traces"]]
            f_walks = ex.submit(validate, mism + sampled, "x09-s2c")

            res_mc = f_mc.result()
            res_pair = f_pair.result()
            lap("wait_model_check")
            hv, hst, htr = f_hist.result()
            cvs = hv[len(recorded):]
            del hv[len(recorded):]
            # a corrupted copy must be rejected at the corrupted event with a clause naming loop_no; only
            # histories the real code passed can tell (a violating one is rejected earlier, rightly)
            judged = [(cv, kk) for (hi, kk, _), cv in zip(canaries, cvs) if hv[hi]["verdict"] == "ok"]
            for cv, kk in judged:
                if cv["verdict"] == "ok" or cv["at"] != kk + 1 or "loop_no" not in cv["verdict"]:
                    raise tlc.MachineryError(f"x09: Trace_IterLife accepted a corrupted trace (or named another clause): {cv}")
            if not judged and all(v["verdict"] == "ok" for v in hv):
                raise tlc.MachineryError("x09: no corrupted-trace canary could be judged")
            wv, wst, wtr = f_walks.result()
            lap("wait_trace_validation")
    finally:
        pool.terminate()
        pool.join()

    # ---- the model itself
    for res, cfg, what in ((res_mc, mc_cfg, "one iterator"), (res_pair, pair_cfg, "two iterators")):
        rep.add_tlc(res)
        if res.violated:
            rep.violation(f"design:IterLife:{res.violated}",
                          f"the model in IterLife.tla ({what}) violates {res.violated}\n{res.error_text[:1500]}",
                          {"kind": "design", "cfg": cfg})
    mcov = {a: g_ for a, (_d, g_) in res_mc.coverage.items() if a in ACTIONS}
    if not res_mc.violated and (set(mcov) != set(ACTIONS) or not all(mcov.values())):
        raise tlc.MachineryError(f"x09: -coverage of the model-checking run shows vacuous / missing actions: "
                                 f"{sorted(set(ACTIONS) - {a for a, n in mcov.items() if n})}")
    actions = [a for a in cov if a != "Init"]
    vac = sorted(set(ACTIONS) - {a for a in actions if cov[a] > 0})
    if vac or set(actions) - set(ACTIONS):
        raise tlc.MachineryError(f"x09: actions without a replayed transition / unknown actions: {vac} "
                                 f"{sorted(set(actions) - set(ACTIONS))}")
    rep.extra["model"] = {"one_iterator": {"states": res_mc.distinct, "transitions": res_mc.generated,
                                           "depth": res_mc.depth, "wall_s": round(res_mc.wall_s, 1)},
                          "two_iterators": {"states": res_pair.distinct, "transitions": res_pair.generated,
                                            "depth": res_pair.depth, "wall_s": round(res_pair.wall_s, 1)},
                          "actions_generated": mcov, "edges_replayed_per_action": {a: cov[a] for a in sorted(actions)}}
    rep.exhaustive = True
    rep.extra["exhaustive_space"] = (
        "one animated image with N in " + ("{2,3}" if quick else "{2,3,4}") + " frames x one iterator: every reachable "
        "state {phase, next frame, countdown, loop_no, caching in force, later loop, stored frames, image frame number} "
        "reached through every constructor form (repeat " + ("{-1,1,2,-3,default}" if quick else "{-1,1,2,3,-3,default}")
        + " x cached {False,True,N-1,N,default} x iter(image)) x every operation of the rich alphabet model-checked and "
        "replayed on real iterators; two iterators over one image ("
        + ("N=2, repeat {-1,2}, cached {False,True}" if quick else "N in {2,3}, repeat {-1,2}, cached {False,True,N}")
        + ") model-checked")

    # ---- replay results
    steps = sum(r["steps"] for r in results)
    rep.evaluations += steps + sum(len(t["ev"]) for t in recorded)
    rep.traces_validated += all_walks - len(sampled) - len(mism)  # replayed (validated ones are added in report())
    rep.extra["replay"] = {"edges": nedges, "model_states": nstates, "walks": all_walks, "steps": steps,
                           "disagreeing_walks": len(mism),
                           "edges_not_reached_behind_a_disagreement": sum(r["lost_edges"] for r in results),
                           "walks_also_validated_by_tlc": len(sampled)}
    rep.extra["canary"] = {"corrupted_traces_rejected": len(judged), "clause": sorted({cv["verdict"] for cv, _ in judged}),
                           "tampered_edge": "noticed"}
    nm = len(mism)
    report(rep, mism, (wv[:nm], wst, wtr), "spec->code replay", expect_fail=True)
    sv = report(rep, sampled, (wv[nm:], 0, 0), "spec->code replay (walk judged by TLC)")
    if any(v["verdict"] != "ok" for v in sv):
        raise tlc.MachineryError("x09: Trace_IterLife rejects a walk the replay found in agreement with the model: "
                                 + str(next(v for v in sv if v["verdict"] != "ok")))

    # ---- recorded histories
    verdicts = report(rep, recorded, (hv, hst, htr), "code->spec history")
    ops_seen: dict[str, int] = {}
    stats = {"rejected": 0, "frames": 0, "cache_hits": 0, "exhausted": 0, "two_iterators": 0}
    for t in recorded:
        rep.distinct.add(("hist", json.dumps(t["wcfg"], sort_keys=True), json.dumps([e["o"] for e in t["ev"]], sort_keys=True)))
        stats["two_iterators"] += t["slots"] == 2
        for e in t["ev"]:
            ops_seen[e["o"]["op"]] = ops_seen.get(e["o"]["op"], 0) + 1
            stats["rejected"] += e["res"] not in W.OKTAGS
            stats["frames"] += e["res"] == "frame"
            stats["cache_hits"] += e["res"] == "frame" and e["rend"] == 0
            stats["exhausted"] += e["res"] == "stop" and e["obs"]["img"]["tell"] == 0 and \
                e["obs"]["its"][e["o"]["k"] - 1]["ln"] == "0"
    rep.extra["histories"] = {"recorded": len(recorded), "events": sum(v["events"] for v in verdicts),
                              "events_judged": sum(v["judged"] for v in verdicts), "operations": dict(sorted(ops_seen.items())),
                              "rejected_by_spec": sum(1 for v in verdicts if v["verdict"] != "ok"), **stats}
    missing_ops = {"new", "next", "seek", "close", "iter", "setln", "imgseek", "drop"} - set(ops_seen)
    if missing_ops or not all(stats.values()):
        if not rep.violations:
            raise tlc.MachineryError(f"x09: the random histories never used {sorted(missing_ops)} / never saw "
                                     f"{[k for k, v in stats.items() if not v]}")

    w0 = next((t for t in sampled if len(t["ev"]) >= 6), None)
    if w0:
        rep.sample({"walk": [f"{_show_op(e['o'])} -> {e['res']}" for e in w0["ev"][:10]], "style": w0["wcfg"]["style"],
                    "source": w0["c"]["src"]})
    rep.sample({"history": [f"{_show_op(e['o'])} -> {e['res']}" for e in recorded[0]["ev"][:10]],
                "style": recorded[0]["wcfg"]["style"], "source": recorded[0]["c"]["src"]})
    lap("report")
