"""Shared plumbing of the C12 / C13 drivers: scenario -> trace records for Trace_Tty.tla."""

from __future__ import annotations

from .env import vtty

PRED0 = {"stop": 0, "raiseAt": 0}

BASE_TERM = {
    "sup": [],
    "fg": {"c": [[99], [48], [102]], "st": "st"},
    "bg": {"c": [[99, 99], [48, 48], [70, 70]], "st": "st"},
    "name": [75, 99], "ver": [49, 46, 99], "form": "paren", "xst": "st",
    "cell": [20, 10], "area": [480, 800], "kid": 31, "kmsg": [79, 75], "da1": [54],
    "envName": [], "envVer": [],  # $TERM_PROGRAM / $TERM_PROGRAM_VERSION ([] = unset)
}

W0 = {"icanon": True, "echo": True, "vmin": 1, "vtime": 0, "rest": 0}


def b(s: str | bytes) -> list[int]:
    return list(s.encode() if isinstance(s, str) else s)


# ---- the terminal's replies (mirror of Tty.tla ReplyTo; the spec re-derives and checks them) ----
def _term(st):
    return b"\x07" if st == "bel" else b"\x1b\\"


def reply_to(t: dict, q: str) -> bytes:
    if q in ("fg", "bg"):
        f = t[q]
        return (b"\x1b]" + (b"10" if q == "fg" else b"11") + b";rgb:"
                + b"/".join(bytes(c) for c in f["c"]) + _term(f["st"]))
    if q == "xtv":
        v = bytes(t["ver"])
        return b"\x1bP>|" + bytes(t["name"]) + (b"(" + v + b")" if t["form"] == "paren" else b" " + v) + _term(t["xst"])
    if q == "cell":
        return b"\x1b[6;%d;%dt" % tuple(t["cell"])
    if q == "area":
        return b"\x1b[4;%d;%dt" % tuple(t["area"])
    if q == "kitty":
        return b"\x1b_Gi=%d;" % t["kid"] + bytes(t["kmsg"]) + b"\x1b\\"
    if q == "da1":
        return b"\x1b[?" + bytes(t["da1"]) + b"c"
    raise ValueError(q)


QUERIES = {"colors": [["fg", "bg", "da1"]], "namever": [["xtv", "da1"]], "cellsize": [["cell", "area", "da1"]],
           "kitty": [["xtv", "da1"], ["kitty", "da1"]], "iterm2": [["xtv", "da1"]],
           "auto": [["xtv", "da1"], ["kitty", "da1"]]}


def replies(t: dict, qs: list[str]) -> list[bytes]:
    return [reply_to(t, q) for q in qs if q in t["sup"]]


def one_burst(rs: list[bytes], delay: int = 0) -> list[dict]:
    return [{"delay": delay, "data": list(b"".join(rs))}] if rs else []


def make_trace(mode: str, scn: dict, run: dict, *, c12: bool, c13: bool = True, stream=None) -> dict:
    """scn: the scenario (fields of a SCEN line + term); run: result of vtty.run_virtual /
    the pty worker."""
    f = run["final"]
    op = run.get("op") or dict(vtty.NO_OP, name=scn["op"])
    if op["name"] == "history" and op["more"] == "always":
        op = dict(op, more=scn["inner"])
    term = dict(scn["term"])
    term["sup"] = sorted(term["sup"])
    return {
        "mode": mode,
        "op": {k: op[k] for k in vtty.NO_OP},
        "cfg": {"enabled": scn["enabled"], "qtmo": scn["tmo"], "swap": scn["swap"]},
        "term": term,
        "env": {"attr0": scn["attr0"], "win": scn["win"], "ioctlFails": scn["ioctlFails"],
                "preload": scn["preload"], "stream": list(stream or []), "sched": scn["sched"],
                "pred": scn.get("pred") or PRED0},
        "events": run["events"],
        "final": {"status": f["status"], "kind": f["kind"], "rb": f["rb"], "rnone": f["rnone"], "val": f["val"],
                  "residual": f["residual"], "attr": f["attr"], "elapsed": f["elapsed"], "slack": f.get("slack", 0),
                  "spawned": f.get("spawned", []), "late": f.get("late", [])},
        "c12": c12,
        "c13": c13,
    }


# ---- scenario construction (dumb: pick facts, partitions, delays) ----
WIN0 = {"cols": 80, "rows": 24, "xpx": 0, "ypx": 0}
ALL_SUP = ["fg", "bg", "xtv", "cell", "area", "kitty", "da1"]
REQUESTS = {
    "fg": b"\x1b]10;?\x1b\\", "bg": b"\x1b]11;?\x1b\\", "xtv": b"\x1b[>q", "cell": b"\x1b[16t", "area": b"\x1b[14t",
    "kitty": b"\x1b_Ga=q,t=d,i=31,f=24,s=1,v=1,C=1,c=1,r=1;AAAA\x1b\\", "da1": b"\x1b[c",
}


def request_bytes(qs: list[str]) -> bytes:
    return b"".join(REQUESTS[q] for q in qs)


def random_sched(rng, rs: list[bytes], budget: int) -> list[dict]:
    """Partition the replies into bursts of whole replies, cumulative delays < budget ticks."""
    if not rs:
        return []
    groups, cur = [], [rs[0]]
    for r in rs[1:]:
        if rng.random() < 0.5:
            groups.append(cur)
            cur = [r]
        else:
            cur.append(r)
    groups.append(cur)
    t, out = 0, []
    for g in groups:
        t = min(budget - 1, t + rng.choice([0, 0, 1, 2, 3]))
        out.append({"delay": t, "data": list(b"".join(g))})
    return out


def eff_op(scn: dict) -> str:
    return scn["inner"] if scn["op"] == "history" else scn["op"]


def label(scn: dict) -> str:
    """operation name used in signatures"""
    return scn["inner"] + "@disable-enable" if scn["op"] == "history" else scn["op"]


def writes_of(op: str, term: dict, enabled: bool = True, ioctl_good: bool = False) -> list[list[str]]:
    """The query groups the operation sends (dumb mirror used only to build schedules)."""
    if not enabled or (op == "cellsize" and ioctl_good):
        return []
    qs = QUERIES[op]
    name = bytes(term["name"] if "xtv" in term["sup"] else term.get("envName", [])).lower()
    if op in ("kitty", "auto") and name == b"iterm2":
        return qs[:1]
    return qs


def scenario(op: str, term: dict, *, rng=None, tmo: int = 64, enabled=True, swap=False, win=None,
             ioctl_fails=False, preload=(), attr0=None, history=False) -> dict:
    """history=True: disable_queries(); op(); enable_queries(); op()  (the first call writes nothing)"""
    scn = _scenario(op, term, rng, tmo, enabled, swap, win, ioctl_fails, preload, attr0)
    if history:
        scn.update(op="history", inner=op)
    return scn


def _scenario(op, term, rng, tmo, enabled, swap, win, ioctl_fails, preload, attr0) -> dict:
    win = dict(win or WIN0)
    good = not ioctl_fails and win["xpx"] and win["ypx"]
    sched = []
    for qs in writes_of(op, term, enabled, bool(good)):
        rs = replies(term, qs)
        sched.append(random_sched(rng, rs, tmo) if rng else one_burst(rs))
    return {"op": op, "inner": "always", "enabled": enabled, "swap": swap, "win": win, "ioctlFails": ioctl_fails,
            "preload": list(preload), "sched": sched, "attr0": dict(attr0 or W0), "tmo": tmo, "term": term,
            "intime": True}


def value_trace(scn: dict, val: dict) -> dict:
    final = {"status": "returned", "kind": "", "rb": [], "rnone": True, "val": val, "residual": [],
             "attr": scn["attr0"], "elapsed": 0, "slack": 0}
    return make_trace("value", scn, {"events": [], "final": final}, c12=True)


HEX = "0123456789abcdefABCDEF"


def colour_terms(rng, tier: str) -> list[dict]:
    """Uniform-width components: every 1-3 digit value, 4-digit values all (thorough) or a
    seeded eighth (quick), packed six per query (fg r,g,b + bg r,g,b); upper/lower case mixed."""
    vals: list[str] = []
    for w in (1, 2, 3, 4):
        allv = list(range(16**w))
        if w == 4 and tier == "quick":
            allv = rng.sample(allv, 6000) + [0, 1, 0xFFFF, 0xFFFE, 0x8000, 0x7FFF, 0x00FF, 0x0100]
        for v in allv:
            vals.append("%0*x" % (w, v))
    out = []
    by_w: dict[int, list[str]] = {}
    for v in vals:
        by_w.setdefault(len(v), []).append(v)
    for w, vs in by_w.items():
        rng.shuffle(vs)
        while len(vs) % 6:
            vs.append(vs[0])
        for i in range(0, len(vs), 6):
            six = [x.upper() if rng.random() < 0.3 else x for x in vs[i:i + 6]]
            out.append(dict(BASE_TERM, sup=["fg", "bg", "da1"],
                            fg={"c": [b(x) for x in six[:3]], "st": rng.choice(["st", "bel"])},
                            bg={"c": [b(x) for x in six[3:]], "st": rng.choice(["st", "bel"])}))
    return out


def mixed_width_terms(rng, n_per_combo: int) -> list[dict]:
    out = []
    for w1 in (1, 2, 3, 4):
        for w2 in (1, 2, 3, 4):
            for w3 in (1, 2, 3, 4):
                if w1 == w2 == w3:
                    continue
                for _ in range(n_per_combo):
                    comp = [b("%0*x" % (w, rng.randrange(16**w))) for w in (w1, w2, w3)]
                    other = [b("%02x" % rng.randrange(256)) for _ in range(3)]
                    fg_first = rng.random() < 0.5
                    out.append(dict(BASE_TERM, sup=["fg", "bg", "da1"],
                                    fg={"c": comp if fg_first else other, "st": "st"},
                                    bg={"c": other if fg_first else comp, "st": "bel"}))
    return out


NAMES = ["kitty", "konsole", "iterm2", "wezterm", "WezTerm", "iTerm2", "Konsole", "KITTY", "xterm", "XTerm",
         "foot", "contour", "mlterm", "st_256color", "tmux", "c", "alacritty2"]


def version_table(rng, tier: str) -> list[str]:
    vs = set()
    for a in (0, 1):
        for mid in (9, 19, 20, 21, 100):
            for c in (0, 9, 10):
                vs.add(f"{a}.{mid}.{c}")
    for a in (21, 22, 23):
        for mid in ("03", "3", "04", "4", "05", "12"):
            for c in (0, 9):
                vs.add(f"{a}.{mid}.{c}")
    vs |= {"0.20", "0.19", "0.20.0.0", "0.20.0.1", "0.19.9.9", "22.04", "22.03", "22.4", "22", "0", "22.04.0.1",
           "0.20.x", "0.20.0-dev", "0.20.0c", "22.04.x", "22.04.0-1", "20230712", "20230712-072601-f4abf8fd",
           "3.4.19", "3.5.0beta10", "1.c", "c", "0020.020.0", "00.20.00", "022.004.000", "1.0.0", "2.0", "v0.20.0",
           "0.20.0.", ".20.0", "0..20"}
    out = sorted(vs)
    if tier == "quick":
        keep = {"0.19.9", "0.20.0", "22.03.9", "22.04.0", "0.20.x", "22.04.x", "0.20.0-dev", "0.20.0.", "0..20", "0.20"}
        rest = [v for v in out if v not in keep]
        out = sorted(keep) + rng.sample(rest, 30)
    return out
