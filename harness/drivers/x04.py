"""X04 (extension) - the urwid image widget ``term_image.widget.UrwidImage``.

model:      specs/UrwidWidget.tla over specs/UrwidWidgetCore.tla (EXTENDS Sizing.tla of C04):
            one image, up to two widgets (UrwidImage + an application subclass) sharing it,
            rows / pack / render in the three urwid sizing modes, urwid's canvas cache
            (_invalidate, released canvases), the application resizing the image, failing
            renders and the per-class error placeholder, construction / placeholder argument
            validation.  18 named invariants / action properties, checked exhaustively within
            Weight <= MaxWeight (MC_UrwidWidget*.cfg).
spec->code: TLC dumps every transition between states of weight <= 3 (Edges_UrwidWidget*.cfg,
            one STATE line per state with the projection WObs); harness/graph.py turns them into
            covering walks; every walk is executed on REAL widgets (harness/x04_world.py) and
            after EACH operation the result record and the projection read from the real objects
            are compared with the spec's.
code->spec: seeded random histories over random configurations (block / kitty / iterm2, odd source
            sizes, random cell size, alignments, upscale, sizes) are executed on the real code,
            recorded and validated by TLC against specs/Trace_UrwidWidget.tla.  The clause
            (= signature) of every disagreement - also of those found by the walks - comes from
            that TLA+ module.
"""

from __future__ import annotations

import collections
import json
import multiprocessing as mp
import os
import random
import re
import shutil
import time
from concurrent.futures import ThreadPoolExecutor

from .. import graph, imgs, tlc
from .. import x04_world as W
from ..core import Report

IMGEXC = "FileNotFoundError"
POOL = 4

ASSUMPTIONS = [
    "sizes: the widget is documented through the image's own sizing (upscale: 'upscaled to fit "
    "maximally within the available size ... preserving the aspect ratio', else 'never upscaled'); the "
    "expected size of a render is Sizing!Algo (the exact-rational rule bound to the real set_size by "
    "C04) for the request FIT (upscale) / AUTO (no upscale) with the box as frame, or width = cols "
    "for flow; source sizes are odd so that no rounding is an exact tie (a tie is reported as "
    "machinery failure, never judged)",
    "what a canvas SHOWS is read from canvas.content() (untrimmed) and lexed: image rectangle = the "
    "non-blank lines / the cells between the leading and trailing blank cells; sources are opaque "
    "noise so that no image cell is a plain blank",
    "urwid keeps rendered canvases in a weak cache: the harness holds the most recent canvas of each "
    "widget (as a screen would); 'reused' = render() returned that very object",
    "a failing render is produced by taking the image's file away (images are created with "
    "from_file); the exception class that must propagate when no placeholder is set is "
    "FileNotFoundError",
    "the effective placeholder of a widget class is observed through a probe widget of that class "
    "over a permanently broken image (invalidated and rendered after every operation)",
    "Sub.set_error_placeholder(None) is read as 'this class renders no placeholder' (it shadows a "
    "placeholder of the base class), i.e. plain class-attribute semantics",
    "D1 (undocumented, modelled as its own clause ImageSizeSetting): a render that is not answered "
    "from the canvas cache leaves the image's size SET to the size it rendered at",
    "D2 (undocumented, modelled as action RenderPlaceholderNotBox): the placeholder is always "
    "rendered with a box size (cols, rows), also when the image widget is rendered as a flow widget; a "
    "flow-only placeholder (urwid.Text) therefore raises instead of being shown",
    "-coverage 1 does not terminate on this module (TLC re-evaluates every LET per reference in "
    "coverage mode); each transition carries the name of its action and the driver counts the names",
]

ACTIONS = ("Rows", "Pack", "PackFixedRejected", "RenderFixedRejected", "RenderImage", "RenderReusesCanvas",
           "RenderPlaceholder", "RenderRaises", "RenderPlaceholderNotBox", "Invalidate", "ReleaseCanvas",
           "ImageSetSize", "SetPlaceholder", "RemovePlaceholder", "SetPlaceholderInvalid", "BreakImage",
           "RepairImage", "NewWidget", "NewWidgetRejected", "DropWidget")
R_FIELDS = ("kind", "cc", "cr", "iw", "ih", "pl", "pt", "reused", "nc", "z", "eq")


# ------------------------------------------------------------------------------------------
# TLC helpers
# ------------------------------------------------------------------------------------------
def tally(res) -> dict:
    return dict(collections.Counter(re.findall(r'^<<"ACT", "(\w+)">>', res.stdout, re.M)))


def fast_tagged(res, tag: str) -> list:
    """res.tagged(tag) for big dumps: TLA+ string escapes (\\" \\\\ \\n \\t) are JSON string escapes."""
    out = []
    pat = re.compile(r'^<<"%s", (".*")>>$' % re.escape(tag), re.M)
    for m in pat.finditer(res.stdout):
        try:
            out.append(json.loads(json.loads(m.group(1))))
        except json.JSONDecodeError as e:
            raise tlc.MachineryError(f"undecodable {tag} payload: {m.group(1)[:200]!r}: {e}")
    return out


def require_actions(counts: dict, names, what: str) -> None:
    vac = [a for a in names if counts.get(a, 0) == 0]
    if vac:
        raise tlc.MachineryError(f"x04: vacuous actions in {what}: {vac} ({counts})")


# ------------------------------------------------------------------------------------------
# spec -> code
# ------------------------------------------------------------------------------------------
def same_result(exp: dict, got: dict) -> str:
    """'' if the observed result record equals the edge's (dumb comparison), else what differs."""
    want, res = exp["res"], got["res"]
    if want == "raise":
        ok = res == IMGEXC
    elif want == "phfail":
        ok = res not in ("ok", IMGEXC)
    elif want == "rejected":
        ok = res in exp["al"]
    else:
        ok = res == want
    if not ok:
        return f"result {res!r}, spec {want!r}" + (f" (one of {exp['al']})" if want == "rejected" else "")
    if want != "ok":
        return ""
    for f in R_FIELDS:
        if got[f] != exp[f]:
            return f"{f} = {got[f]!r}, spec {exp[f]!r}"
    return ""


def same_obs(exp: dict, got: dict) -> str:
    for f in ("isz", "has", "rows", "cache", "ph", "img"):
        if got[f] != exp[f]:
            return f"{f} afterwards = {got[f]!r}, spec {exp[f]!r}"
    return ""


def _event(op: dict, r: dict, o: dict) -> dict:
    return {"k": op["k"], "w": op["w"], "sz": op["sz"], "f": op["f"], "a": op["a"], "r": r, "o": o}


def _trace(cfg, qcols, init, ev) -> dict:
    return {"cfg": cfg, "qcols": qcols, "imgexc": IMGEXC, "init": init, "ev": ev}


def _scc(g: graph.Graph) -> dict:
    """node -> id of its strongly connected component (Kosaraju, iterative)."""
    order, seen = [], set()
    for root in g.out:
        if root in seen:
            continue
        seen.add(root)
        stack = [(root, iter(g.out[root]))]
        while stack:
            u, it = stack[-1]
            for _, v in it:
                if v not in seen:
                    seen.add(v)
                    stack.append((v, iter(g.out[v])))
                    break
            else:
                order.append(u)
                stack.pop()
    rev = collections.defaultdict(list)
    for u, outs in g.out.items():
        for _, v in outs:
            rev[v].append(u)
    comp = {}
    for root in reversed(order):
        if root in comp:
            continue
        comp[root] = root
        stack = [root]
        while stack:
            u = stack.pop()
            for v in rev[u]:
                if v not in comp:
                    comp[v] = root
                    stack.append(v)
    return comp


def cover_walks(g: graph.Graph, max_len: int) -> list[list[dict]]:
    """Segments from the initial states that together traverse every edge.  A segment = the
    BFS-tree path to the first node that still has untraversed edges, then: take an untraversed
    edge of the current node (self-loops first - rejected / pure operations are packed together -
    and edges that can never be undone last: a placeholder once set on the subclass cannot return
    to 'never set'), else walk to a node within 4 steps that has one, else stop."""
    comp = _scc(g)
    dest, untrav = {}, {}
    for k, outs in g.out.items():
        loops = [i for i, kt in outs if kt == k]
        intra = [i for i, kt in outs if kt != k and comp[kt] == comp[k]]
        cross = [i for i, kt in outs if comp[kt] != comp[k]]
        untrav[k] = cross[::-1] + intra[::-1] + loops[::-1]  # pop() takes from the end
        for i, kt in outs:
            dest[i] = kt

    def nearest(src, depth=4):
        prev = {src: None}
        frontier = [src]
        for _ in range(depth):
            nxt = []
            for u in frontier:
                for i, v in g.out[u]:
                    if v in prev:
                        continue
                    prev[v] = (u, i)
                    if untrav[v]:
                        path = []
                        while prev[v] is not None:
                            pv, j = prev[v]
                            path.append(j)
                            v = pv
                        return path[::-1]
                    nxt.append(v)
            frontier = nxt
        return None

    segs = []
    for init in g.inits:
        prev = {init: None}
        order = [init]
        dq = collections.deque([init])
        while dq:
            u = dq.popleft()
            for i, v in g.out[u]:
                if v not in prev:
                    prev[v] = (u, i)
                    order.append(v)
                    dq.append(v)
        ptr = 0
        while True:
            while ptr < len(order) and not untrav[order[ptr]]:
                ptr += 1
            if ptr == len(order):
                break
            cur = order[ptr]
            seg = []
            u = cur
            while prev[u] is not None:
                pu, i = prev[u]
                seg.append(i)
                u = pu
            seg.reverse()
            while len(seg) < max_len:
                if untrav[cur]:
                    i = untrav[cur].pop()
                    seg.append(i)
                    cur = dest[i]
                    continue
                path = nearest(cur)
                if path is None:
                    break
                seg.extend(path)
                cur = dest[path[-1]]
            segs.append([g.edges[i] for i in seg])
    g.unreachable_edges = sum(len(v) for v in untrav.values())
    return segs


def replay_walk(task: dict) -> dict:
    """Execute covering segments (each starts in the initial state) on real widgets, one World per
    task; between segments the objects are brought back to the initial state (pool worker)."""
    segs, states, conf = task["segs"], task["states"], task["conf"]
    cfg, sizes, qcols = conf["cfg"], conf["sizes"], conf["qcols"]
    out = {"steps": 0, "mismatches": [], "abandoned": 0, "resyncs": 0, "full": []}
    world = W.World(cfg, sizes, qcols, task["wseed"])
    try:
        for n, walk in enumerate(segs):
            first = states[graph.key(walk[0]["from"])]
            if n:
                world.force(first["s"])
                if same_obs(first["obs"], world.observe()):  # start over with fresh objects
                    world.close()
                    world = W.World(cfg, sizes, qcols, task["wseed"] + n)
            events: list = []
            clean = True
            for i, edge in enumerate(walk):
                op = edge["op"]["o"]
                r = world.do(op)
                o = world.observe()
                out["steps"] += 1
                e = _event(op, r, o)
                events.append(e)
                to = states[graph.key(edge["to"])]
                diff = same_result(edge["op"]["r"], r) or same_obs(to["obs"], o)
                if not diff:
                    continue
                clean = False
                # the real objects agreed with the spec state edge["from"] before this operation
                out["mismatches"].append({"trace": _trace(cfg, qcols, states[graph.key(edge["from"])]["s"], [e]),
                                          "wseed": task["wseed"], "sizes": sizes, "diff": diff, "walk": task["idx"],
                                          "seg": n, "step": i, "act": edge["op"]["act"],
                                          "edge": graph.key([edge["from"], edge["op"]["o"]])})
                try:
                    world.force(to["s"])
                    synced = not same_obs(to["obs"], world.observe())
                except Exception:
                    synced = False
                if not synced:
                    out["abandoned"] += 1
                    world.close()
                    world = W.World(cfg, sizes, qcols, task["wseed"] + 7919 * (n + 1))
                    break
                out["resyncs"] += 1
            if clean and n % task["keep_every"] == 0 and len(events) >= 5 and len(out["full"]) < 5:
                out["full"].append(_trace(cfg, qcols, first["s"], events))
    finally:
        world.close()
    return out


# ------------------------------------------------------------------------------------------
# code -> spec
# ------------------------------------------------------------------------------------------
INIT_STATE = {"isz": {"k": "dyn", "w": 0, "h": 0, "m": "FIT"}, "has": [True, False],
              "cache": [{"sz": [0, 0, 0], "kind": ""}, {"sz": [0, 0, 0], "kind": ""}],
              "ph": ["none", "inherit"], "fail": False}
FLAWS = [["image:path"], ["image:pil"], ["image:none"], ["spec:none"], ["spec:int"], ["spec:bytes"],
         ["spec:dot"], ["spec:plus"], ["spec:junk"], ["spec:style"], ["upscale:none"], ["upscale:int"],
         ["upscale:str"], ["image:pil", "upscale:str"], ["spec:junk", "upscale:none"], ["spec:style", "image:none"]]


def odd(rng, hi):
    return rng.randrange(1, hi + 1, 2)


def gen_config(rng: random.Random) -> dict:
    style = rng.choices(["block", "kitty", "iterm2"], [5, 3, 2])[0]
    if style == "block":
        cw = ch = 0
        ow, oh = odd(rng, 13), odd(rng, 15)
    else:
        cw, ch = rng.choice([(3, 5), (2, 4), (4, 7), (1, 2)])
        ow, oh = odd(rng, 12 * cw), odd(rng, 8 * ch)
    wp = []
    for cls in (0, 1):
        wp.append({"cls": cls, "up": rng.random() < 0.5, "ha": rng.choice(["", "<", "|", ">"]),
                   "va": rng.choice(["", "^", "-", "_"]),
                   "me": rng.choice(["lines", "lines", "whole"]) if style != "block" else "lines"})
    return {"style": style, "fam": "text" if style == "block" else "gfx", "ow": ow, "oh": oh, "cw": cw,
            "ch": ch, "tc": 80, "tl": 30, "wp": wp}


def gen_history(rng: random.Random, length: int) -> dict:
    cfg = gen_config(rng)
    ori_w = max(1, cfg["ow"] // (cfg["cw"] or 1))
    near = lambda: max(1, ori_w + rng.randrange(-2, 3))  # noqa: E731
    sizes = []
    while len(sizes) < 5:
        c = rng.choice([near(), rng.randrange(1, 13)])
        s = [c] if rng.random() < 0.45 else [c, rng.randrange(1, 9)]
        if s not in sizes:
            sizes.append(s)
    qcols = sorted({near(), rng.randrange(1, 13), rng.randrange(1, 13)})
    has2, fail = False, False
    ops = []

    def op(k, w=0, sz=(), f=False, a=()):
        ops.append({"k": k, "w": w, "sz": list(sz), "f": f, "a": list(a)})

    for _ in range(length):
        slots = [1, 2] if has2 else [1]
        x = rng.random()
        if x < 0.40:
            sz = rng.choice(sizes) if rng.random() < 0.93 else []
            op("render", rng.choice(slots), sz, rng.random() < 0.2)
        elif x < 0.46:
            op("rows", rng.choice(slots), [rng.randrange(1, 14)])
        elif x < 0.52:
            op("pack", rng.choice(slots), rng.choice(sizes + [[]]))
        elif x < 0.60:
            op("inval", rng.choice(slots))
        elif x < 0.64:
            op("release", rng.choice(slots))
        elif x < 0.71:
            if rng.random() < 0.5:
                op("setsize", 0, [rng.randrange(1, 13)], a=["width"])
            else:
                op("setsize", 0, a=[rng.choice(["FIT", "AUTO", "ORIGINAL", "FIT_TO_WIDTH"])])
        elif x < 0.83:
            v = rng.choice(["B1", "B2", "B1", "B2", "B1", "B2", "F", "F", "bad:int", "bad:str", "bad:class",
                            "bad:canvas"] * 2 + ["none"])
            op("setph", rng.choice([0, 1]), a=[v])
        elif x < 0.91:
            op("repair" if fail else "break")
            fail = not fail
        elif has2:
            op("drop", 2)
            has2 = False
        elif rng.random() < 0.55:
            op("new", 2)
            has2 = True
        else:
            op("new", 2, a=rng.choice(FLAWS))
    return {"cfg": cfg, "sizes": sizes, "qcols": qcols, "ops": ops, "wseed": rng.randrange(1 << 30)}


def record(task: dict) -> dict:
    """Run a history on the real code and record it (pool worker)."""
    world = W.World(task["cfg"], task["sizes"], task["qcols"], task["wseed"])
    try:
        init = task.get("init") or INIT_STATE
        if task.get("init"):
            world.force(init)
        ev = []
        for op in task["ops"]:
            r = world.do(op)
            ev.append(_event(op, r, world.observe()))
    finally:
        world.close()
    t = _trace(task["cfg"], task["qcols"], init, ev)
    return {"trace": t, "wseed": task["wseed"], "sizes": task["sizes"]}


# ------------------------------------------------------------------------------------------
# verdicts
# ------------------------------------------------------------------------------------------
def _scenario(item: dict) -> dict:
    t = item["trace"]
    return {"cfg": t["cfg"], "sizes": item["sizes"], "qcols": t["qcols"], "init": t["init"],
            "wseed": item["wseed"], "ops": [{k: e[k] for k in ("k", "w", "sz", "f", "a")} for e in t["ev"]]}


def _describe(item: dict, v: dict) -> str:
    t = item["trace"]
    at = v["at"]
    c = t["cfg"]
    lines = [f"clause {v['verdict']!r} at operation {at} of {len(t['ev'])}; {c['style']} image {c['ow']}x{c['oh']} px, "
             f"cell {c['cw']}x{c['ch']}, widgets {c['wp']}"]
    if t["init"] != INIT_STATE:
        lines.append(f"  start state {t['init']}")
    for i, e in enumerate(t["ev"][:at], 1):
        shown = {k: v2 for k, v2 in e["r"].items() if v2 not in (0, "", False) and k != "eq"}
        lines.append(f"  {i}. {e['k']} w={e['w']} size={tuple(e['sz'])}{' focus' if e['f'] else ''} {e['a'] or ''} -> {shown}"
                     + ("" if e["r"]["eq"] else " CONTENT DIFFERS"))
    if 0 < at <= len(t["ev"]):
        lines.append(f"  objects afterwards: {t['ev'][at - 1]['o']}")
    return "\n".join(lines)


def validate(items: list, name: str):
    if not items:
        return [], 0, 0
    events = sum(len(i["trace"]["ev"]) for i in items)
    batch = max(60, -(-len(items) // max(1, min(4, events // 3000 + 1))))  # <= 4 JVMs, each worth starting
    return tlc.validate_traces("Trace_UrwidWidget", "Trace_UrwidWidget.cfg", [i["trace"] for i in items],
                               batch=batch, parallel=4, workers=2, timeout=900, name=name)


def report(rep: Report, items: list, validated, origin: str, expect_fail: bool = False) -> list:
    verdicts, st, tr = validated
    rep.states += st
    rep.transitions += tr
    for item, v in zip(items, verdicts):
        vd = v["verdict"]
        if vd.startswith("unsupported") or vd.startswith("inconclusive"):
            raise tlc.MachineryError(f"x04: {vd} at event {v['at']} ({origin}): {json.dumps(_scenario(item))[:600]}")
        if expect_fail and (vd == "ok" or v["at"] != len(item["trace"]["ev"])):
            raise tlc.MachineryError(
                f"x04: the walk saw a difference ({item.get('diff')}) at walk {item.get('walk')} step "
                f"{item.get('step')} that Trace_UrwidWidget does not confirm: {v}")
        if vd != "ok":
            detail = f"[{origin}] " + _describe(item, v)
            if item.get("diff"):
                detail += f"\n  walk difference: {item['diff']}"
            rep.violation(vd, detail, _scenario(item))
    return verdicts


# ------------------------------------------------------------------------------------------
# main
# ------------------------------------------------------------------------------------------
def _replay(rep: Report, replay: dict) -> None:
    sc = replay["scenario"]
    if sc.get("kind") == "design":
        res = tlc.run("UrwidWidget", "MC_UrwidWidget.cfg", workers=4, timeout=900)
        rep.add_tlc(res)
        if res.violated:
            rep.violation(f"design:UrwidWidget:{res.violated}", res.error_text[:1500], sc)
        return
    W.setup()
    item = record({"cfg": sc["cfg"], "sizes": sc["sizes"], "qcols": sc["qcols"], "ops": sc["ops"],
                   "wseed": sc.get("wseed", 0), "init": sc.get("init") if sc.get("init") != INIT_STATE else None})
    rep.evaluations += len(item["trace"]["ev"])
    rep.traces_validated += 1
    report(rep, [item], validate([item], "x04-replay"), "replay")


def main(rep: Report, replay: dict | None) -> None:
    rep.assumptions += ASSUMPTIONS
    rep.rule = (
        "spec->code: every transition between model states of weight <= 3 / 2 (per configuration: image "
        "size setting x widget table x cached canvas per widget x placeholder per class x failing) x "
        "every operation of the alphabet, replayed on real widgets with the full projection compared "
        "after each step; code->spec: seeded random histories on random configurations validated by "
        "TLC; distinct_nontrivial = distinct (state, operation) edges + distinct recorded histories")
    if replay:
        _replay(rep, replay)
        return
    quick = rep.tier == "quick"
    timing = rep.extra.setdefault("timing_s", {})
    t0 = time.time()

    def lap(name):
        nonlocal t0
        timing[name] = round(time.time() - t0, 1)
        t0 = time.time()

    W.setup()
    W.RUN_DIR = imgs.TMP / f"x04-run-{os.getpid()}"
    shutil.rmtree(W.RUN_DIR, ignore_errors=True)
    pool = mp.get_context("fork").Pool(POOL)  # forked before any thread exists
    try:
        with ThreadPoolExecutor(max_workers=3) as ex:
            f_mc = ex.submit(tlc.run, "UrwidWidget", "MC_UrwidWidget.cfg" if quick else "MC_UrwidWidget_thorough.cfg",
                             workers=4, timeout=300 if quick else 1200)
            f_edges = ex.submit(tlc.run, "UrwidWidget",
                                "Edges_UrwidWidget.cfg" if quick else "Edges_UrwidWidget_thorough.cfg",
                                workers=1, timeout=300 if quick else 1200)

            # ---- code -> spec: record histories while TLC runs
            rng = random.Random(rep.seed * 7919 + 4)
            nh = 160 if quick else 2500
            tasks = [gen_history(rng, rng.randint(25, 50) if quick else rng.randint(30, 90)) for _ in range(nh)]
            recorded = pool.map(record, tasks, chunksize=4)
            lap("record_histories")
            f_hist = ex.submit(validate, recorded, "x04-c2s")

            # ---- spec -> code
            res_e = f_edges.result()
            if res_e.violated:
                raise tlc.MachineryError(f"x04: edge dump run failed: {res_e.violated}\n{res_e.error_text[:1500]}")
            rep.add_tlc(res_e)
            lap("wait_edge_dump")
            edges = fast_tagged(res_e, "EDGE")
            states = {graph.key(s["key"]): {"s": s["s"], "obs": s["obs"]} for s in fast_tagged(res_e, "STATE")}
            confs = {c["cid"]: c for c in fast_tagged(res_e, "CONFIG")}
            inits = fast_tagged(res_e, "INIT")
            lap("parse_edge_dump")
            if not edges or not confs or not inits:
                raise tlc.MachineryError("x04: edge dump is empty / has no CONFIG line")
            dump_counts = dict(collections.Counter(e["op"]["act"] for e in edges))
            require_actions(dump_counts, [a for a in ACTIONS if a != "Rows"], "the edge dump")
            g = graph.Graph(edges, inits)
            for k in g.out:
                if k not in states:
                    raise tlc.MachineryError("x04: an edge ends in a state without STATE line")
            walks = cover_walks(g, 300 if quick else 600)
            if g.unreachable_edges:
                raise tlc.MachineryError(f"x04: {g.unreachable_edges} dumped edges are unreachable")
            lap("cover_walks")
            # canaries of the trace spec, built from the SPEC's own edges (independent of the code
            # under test): the one-event trace of an edge must be accepted, its corrupted copy must be
            # rejected with the expected clause
            canaries = make_canaries(g.edges, states, confs)
            f_can = ex.submit(validate, [c for c, _, _ in canaries], "x04-canaries")
            # segments of one configuration are grouped into tasks of ~2500 steps (one World each)
            wtasks = []
            by_cid = collections.defaultdict(list)
            for w in walks:
                by_cid[w[0]["from"][0]].append(w)
            for cid, ws in by_cid.items():
                cur, n = [], 0
                for w in ws + [None]:
                    if w is None or (cur and n + len(w) > 2500):
                        need = {graph.key(x["from"]) for sg in cur for x in sg} | {graph.key(x["to"]) for sg in cur for x in sg}
                        wtasks.append({"idx": len(wtasks), "segs": cur, "states": {k: states[k] for k in need},
                                       "conf": confs[cid], "wseed": rep.seed * 1000003 + len(wtasks),
                                       "keep_every": 3 if quick else 10})
                        cur, n = [], 0
                    if w is not None:
                        cur.append(w)
                        n += len(w)
            lap("build_walks")
            results = pool.map(replay_walk, wtasks, chunksize=1)
            lap("replay_walks")

            # ---- canary: a tampered edge must be noticed by the replay (the first operation of a
            # fresh history, so that the answer does not depend on anything else going right)
            ikeys = {graph.key(i) for i in inits}
            e0 = next(e for e in g.edges if e["op"]["act"] == "RenderImage" and graph.key(e["from"]) in ikeys)
            e0 = json.loads(json.dumps(e0))
            e0["op"]["r"]["ih"] += 1
            tres = pool.apply(replay_walk, ({"idx": -1, "segs": [[e0]], "conf": confs[e0["from"][0]], "wseed": 1,
                                             "keep_every": 1, "states": {graph.key(k): states[graph.key(k)]
                                                                         for k in (e0["from"], e0["to"])}},))
            if not tres["mismatches"] or tres["mismatches"][0]["step"] != 0:
                raise tlc.MachineryError("x04: the replay did not notice a tampered edge")

            # a sample of complete, clean walks is also judged by TLC (cross-check of the comparer)
            full = [{"trace": t, "wseed": 0, "sizes": []} for r in results for t in r["full"]]
            f_full = ex.submit(validate, full, "x04-walks")
            mism_all = [m for r in results for m in r["mismatches"]]
            mism = list({m["edge"]: m for m in mism_all}.values())  # one per (state, operation)
            f_mism = ex.submit(validate, mism, "x04-s2c")

            res_mc = f_mc.result()
            lap("wait_model_check")
            hist_validated = f_hist.result()
            lap("wait_validate_histories")
            full_validated = f_full.result()
            mism_validated = f_mism.result()
            can_validated = f_can.result()
            lap("wait_validate_walk_traces")
    finally:
        pool.terminate()
        pool.join()
        shutil.rmtree(W.RUN_DIR, ignore_errors=True)

    # ---- the model itself
    rep.add_tlc(res_mc)
    if res_mc.violated:
        rep.violation(f"design:UrwidWidget:{res_mc.violated}",
                      "the model in UrwidWidget.tla violates " + res_mc.violated + "\n" + res_mc.error_text[:1500],
                      {"kind": "design"})
    else:
        mc_counts = tally(res_mc)
        require_actions(mc_counts, ACTIONS, "the model-checking run")
        rep.extra["model"] = {"states": res_mc.distinct, "transitions": res_mc.generated, "depth": res_mc.depth,
                              "actions_generated": mc_counts, "wall_s": round(res_mc.wall_s, 1)}
    rep.exhaustive = True
    rep.extra["exhaustive_space"] = (
        ("2" if quick else "6") + " configurations x the COMPLETE state graph of the model (image size setting x "
        "second widget x cached canvas per widget x placeholder per class x failing image) model-checked with "
        "every operation of the alphabet; every transition between states of weight <= 3 (first configuration) / "
        "<= 2 (the others) replayed on the real widgets")

    # ---- canaries of the trace spec
    for (c, at, clause), v in zip(canaries, can_validated[0]):
        if v["verdict"] != clause or v["at"] != at:
            raise tlc.MachineryError(f"x04: canary trace not judged as expected ({clause} at {at}): {v}")
    rep.extra["canary"] = {"corrupted_traces_rejected": [c[2] for c in canaries if c[2] != "ok"],
                           "tampered_edge": "noticed"}

    # ---- walks
    steps = sum(r["steps"] for r in results)
    rep.evaluations += steps + sum(len(i["trace"]["ev"]) for i in recorded)
    rep.traces_validated += len(walks) + len(recorded)
    for e in g.edges:
        rep.distinct.add(("edge", graph.key(e["from"]), graph.key(e["op"]["o"])))
    rep.extra["replay"] = {"edges": len(g.edges), "model_states": g.nodes, "segments": len(walks), "steps": steps,
                           "actions_generated": dump_counts, "disagreeing_steps": len(mism_all), "disagreeing_edges": len(mism),
                           "resyncs": sum(r["resyncs"] for r in results),
                           "segments_abandoned": sum(r["abandoned"] for r in results), "worlds": len(wtasks),
                           "clean_walks_also_judged_by_tlc": len(full)}
    if any(r["abandoned"] for r in results):
        rep.notes.append("some segments were abandoned because the real objects could not be resynchronised")
    fv = report(rep, full, full_validated, "clean walk")
    if any(v["verdict"] != "ok" for v in fv):
        rep.notes.append("a walk the comparer found clean was rejected by Trace_UrwidWidget")
    report(rep, mism, mism_validated, "spec->code walk", expect_fail=True)

    # ---- recorded histories
    verdicts = report(rep, recorded, hist_validated, "code->spec history")
    for it in recorded:
        t = it["trace"]
        rep.distinct.add(("hist", json.dumps(t["cfg"], sort_keys=True),
                          json.dumps([(e["k"], e["w"], e["sz"], e["a"]) for e in t["ev"]])))
    kinds = collections.Counter()
    for it in recorded:
        for e in it["trace"]["ev"]:
            if e["k"] == "render":
                kinds[e["r"]["kind"] + ("/reused" if e["r"]["reused"] else "") or e["r"]["res"]] += 1
    rep.extra["histories"] = {"recorded": len(recorded), "events": sum(v["events"] for v in verdicts),
                              "events_judged": sum(v["judged"] for v in verdicts),
                              "rejected": sum(1 for v in verdicts if v["verdict"] != "ok"),
                              "styles": dict(collections.Counter(i["trace"]["cfg"]["style"] for i in recorded)),
                              "render_outcomes": dict(kinds)}
    if not rep.violations:  # (a violation may well be the reason why an outcome never shows)
        for need in ("image", "image/reused", "B1", "B2", IMGEXC, "UrwidImageError"):
            if not kinds.get(need):
                raise tlc.MachineryError(f"x04: no recorded render with outcome {need!r} (vacuous histories)")
    lap("report")
    w0 = max(walks, key=lambda w: len({e["op"]["act"] for e in w[:10]}))
    rep.sample({"walk": [{"act": e["op"]["act"], "op": e["op"]["o"], "res": e["op"]["r"]["res"]} for e in w0[:8]],
                "style": confs[w0[0]["from"][0]]["cfg"]["style"]})
    rep.sample({"history": _scenario(recorded[0])["ops"][:8], "cfg": recorded[0]["trace"]["cfg"]})


def spec_event(edge: dict, states: dict) -> dict:
    """The event the real code is expected to produce for an edge (pure spec data)."""
    exp = edge["op"]["r"]
    r = {k: exp[k] for k in ("res",) + R_FIELDS}
    r["res"] = {"raise": IMGEXC, "phfail": "ValueError", "rejected": (exp["al"] or ["?"])[0]}.get(exp["res"], exp["res"])
    return _event(edge["op"]["o"], r, states[graph.key(edge["to"])]["obs"])


def make_canaries(edges: list, states: dict, confs: dict) -> list:
    """[(item, event index, expected verdict)]: clean one-event traces (verdict ok) and corrupted
    copies (verdict = the clause that must reject them)."""
    out = []

    def item(edge, corrupt=None):
        conf = confs[edge["from"][0]]
        e = json.loads(json.dumps(spec_event(edge, states)))
        if corrupt:
            corrupt(e)
        return {"trace": _trace(conf["cfg"], conf["qcols"], states[graph.key(edge["from"])]["s"], [e]),
                "wseed": 0, "sizes": conf["sizes"]}

    def find(pred):
        for e in edges:
            if pred(e):
                return e
        raise tlc.MachineryError("x04: no edge to build a canary from")

    def add(edge, clause, corrupt):
        out.append((item(edge), 0, "ok"))
        out.append((item(edge, corrupt), 1, clause))

    box = find(lambda e: e["op"]["act"] == "RenderImage" and len(e["op"]["o"]["sz"]) == 2)
    flow = find(lambda e: e["op"]["act"] == "RenderImage" and len(e["op"]["o"]["sz"]) == 1)
    ph = find(lambda e: e["op"]["act"] == "RenderPlaceholder")
    mode = "box" if len(ph["op"]["o"]["sz"]) == 2 else "flow"
    rm = find(lambda e: e["op"]["act"] == "RemovePlaceholder")
    add(box, "render:box:canvas-size", lambda e: e["r"].__setitem__("cc", e["r"]["cc"] - 1))
    add(flow, "render:flow:canvas-size", lambda e: e["r"].__setitem__("cr", e["r"]["cr"] + 1))
    add(box, "render:box:stale-canvas-reused", lambda e: e["r"].__setitem__("reused", True))
    add(box, "render:box:image-size-setting",
        lambda e: e["o"].__setitem__("isz", {"k": "fixed", "w": 99, "h": 99, "m": ""}))
    add(ph, f"render:{mode}:placeholder-of-another-class",
        lambda e: e["r"].__setitem__("kind", "B2" if e["r"]["kind"] == "B1" else "B1"))
    add(rm, "setph:" + ("base" if rm["op"]["o"]["w"] == 0 else "sub") + ":none-to-remove-rejected",
        lambda e: e["r"].__setitem__("res", "TypeError"))
    return out
