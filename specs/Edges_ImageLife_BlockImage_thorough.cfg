SPECIFICATION Spec
CONSTANTS
  Rich = TRUE
  ClsSet = {"BlockImage"}
VIEW View
ACTION_CONSTRAINT Dump
INVARIANT InitDump
INVARIANT StateDump
CHECK_DEADLOCK FALSE
