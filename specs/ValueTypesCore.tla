--------------------------- MODULE ValueTypesCore ---------------------------
(***************************************************************************)
(* X01 - the value types of term-image as DOCUMENTED (docstrings of         *)
(* term_image.geometry / .padding / .color; docs/source/api/*.rst):          *)
(*                                                                         *)
(*   RawSize(w, h)      any integers; a tuple                               *)
(*   Size(w, h)         both dimensions positive, else ValueError; a tuple  *)
(*   AlignedPadding(width, height, h_align=CENTER, v_align=MIDDLE, fill=" ") *)
(*       a dimension <= 0 is RELATIVE (`relative` is True); resolve(term)    *)
(*       returns an instance with equivalent ABSOLUTE dimensions            *)
(*       max(term + d, 1); every other padding operation on a relative      *)
(*       instance raises RelativePaddingDimensionError;                     *)
(*       padded dimension = max(render dimension, minimum dimension)        *)
(*   ExactPadding(left=0, top=0, right=0, bottom=0, fill=" ")                *)
(*       a negative dimension is rejected (ValueError);                     *)
(*       `dimensions` = (left, top, right, bottom)                          *)
(*   both: immutable, hashable, instances with equal fields compare equal;  *)
(*       get_padded_size(rs) = size of the output of pad(render, rs);        *)
(*       to_exact(rs) = an equivalent ExactPadding for that render size      *)
(*   Color(r, g, b, a=255)  channels 0..255 else ValueError; a NamedTuple;   *)
(*       hex = "#rrggbbaa", rgb_hex = "#rrggbb" (lowercase), rgb = 3-tuple;  *)
(*       from_hex("[#]rrggbb[aa]") case-insensitive, alpha defaults to 255,  *)
(*       anything else ValueError                                           *)
(*                                                                         *)
(* The arithmetic of the padding dimensions is NOT restated here: it is the  *)
(* functional core of check C05 (module Padding), instantiated below.  This  *)
(* module adds the OBJECT level: a store of objects with identity, the       *)
(* operations that derive objects from objects, equality / hashing /         *)
(* identity, immutability, the tuple types and the colour type.             *)
(*                                                                         *)
(* Object record (uniform, so that JSON traces deserialize to one shape):    *)
(*   [k, cls, n, s, id]   k   = "aligned" | "exact" | "size" | "color" | "str" *)
(*                        cls = class name (subclasses: Sub...)              *)
(*                        n   = integer fields    s = string fields          *)
(*                        id  = identity, normalised by first occurrence     *)
(*     aligned: n = <<width, height>>        s = <<h_align, v_align, fill>>    *)
(*     exact:   n = <<left, top, right, bottom>>   s = <<fill>>               *)
(*     size:    n = <<width, height>>      color: n = <<r, g, b, a>>          *)
(*     str:     n = the characters as symbols (see Symbols)                  *)
(* A store is a sequence of objects (the caller's variables).               *)
(***************************************************************************)
EXTENDS Integers, Sequences, FiniteSets

P == INSTANCE Padding

Obj(k, cls, n, s, id) == [k |-> k, cls |-> cls, n |-> n, s |-> s, id |-> id]
NoObj == Obj("none", "", <<>>, <<>>, 0)

AlignedClasses == {"AlignedPadding", "SubAligned"}
\* CustomPadding: a concrete Padding subclass written against the documented extension API
\* (only _get_exact_dimensions_, returning four fixed margins); it is NOT an ExactPadding
ExactClasses == {"ExactPadding", "SubExact", "CustomPadding"}
IsCustom(o) == o.cls = "CustomPadding"
CheckedSizeClasses == {"Size", "SubSize"}     \* constructor validates
SizeClasses == CheckedSizeClasses \cup {"RawSize"}
ColorClasses == {"Color", "SubColor"}
TupleClasses == SizeClasses \cup ColorClasses

KindOfClass(c) ==
  CASE c \in AlignedClasses -> "aligned" [] c \in ExactClasses -> "exact"
    [] c \in SizeClasses -> "size" [] c \in ColorClasses -> "color" [] OTHER -> "str"

HNames == {"LEFT", "CENTER", "RIGHT"}
VNames == {"TOP", "MIDDLE", "BOTTOM"}
HLow(a) == CASE a = "LEFT" -> "left" [] a = "CENTER" -> "center" [] OTHER -> "right"
VLow(a) == CASE a = "TOP" -> "top" [] a = "MIDDLE" -> "middle" [] OTHER -> "bottom"

IsPad(o) == o.k \in {"aligned", "exact"}
IsTuple(o) == o.k \in {"size", "color"}
Fill(o) == IF o.k = "aligned" THEN o.s[3] ELSE o.s[1]

\* the padding in the terms of module Padding (C05's functional core)
AsPad(o) == IF o.k = "aligned" THEN P!Aligned(o.n[1], o.n[2], HLow(o.s[1]), VLow(o.s[2]))
            ELSE P!Exact(o.n[1], o.n[2], o.n[3], o.n[4])

\* AlignedPadding.relative
Rel(o) == o.k = "aligned" /\ P!IsRelative(AsPad(o))

Chan(x) == x \in 0..255

\* an object whose fields are inside the documented domain of its class
ValidObj(o) ==
  CASE o.k = "size" -> (o.cls \in CheckedSizeClasses => o.n[1] >= 1 /\ o.n[2] >= 1)
    [] o.k = "color" -> \A i \in 1..4 : Chan(o.n[i])
    [] o.k = "exact" -> \A i \in 1..4 : o.n[i] >= 0
    [] OTHER -> TRUE

\* may be passed where a render size is documented
IsRenderSize(o) == o.k = "size" /\ o.cls \in CheckedSizeClasses /\ o.n[1] >= 1 /\ o.n[2] >= 1

(* ---- equality, hashing, identity ---------------------------------------- *)
(* "T" / "F", or "U" where the documentation does not decide:                *)
(*  - paddings: "instances with equal fields compare equal" (of one class;   *)
(*    an instance of a subclass against one of its base class: unspecified;  *)
(*    a user-written Padding subclass: its author's business)                *)
(*  - Size / RawSize / Color are tuples: tuple equality, whatever the class   *)
Group(o) == CASE IsPad(o) -> "pad" [] IsTuple(o) -> "tuple" [] OTHER -> o.k

Eq3(a, b) ==
  IF Group(a) # Group(b) THEN "F"
  ELSE IF Group(a) = "pad" THEN
    (IF a.k # b.k THEN "F"
     ELSE IF a.n # b.n \/ a.s # b.s THEN "F"
     ELSE IF a.cls = b.cls /\ ~IsCustom(a) THEN "T" ELSE "U")
  ELSE IF a.n = b.n THEN "T" ELSE "F"

\* equal objects must hash equal (the only hashing law there is)
MustHashEqual(a, b) == Eq3(a, b) = "T"

(* ---- stores ---------------------------------------------------------------- *)
First(S, i) == CHOOSE j \in 1..i : S[j].id = S[i].id /\ \A m \in 1..(j - 1) : S[m].id # S[i].id
Norm(S) == [i \in DOMAIN S |->
              [S[i] EXCEPT !.id = Cardinality({First(S, m) : m \in 1..First(S, i)})]]
Fresh(S) == Len(S) + 1      \* ids of a normalised store are <= Len(S)
Put(S, dst, o) == Norm(IF dst = Len(S) + 1 THEN Append(S, o) ELSE [S EXCEPT ![dst] = o])
Strip(o) == [o EXCEPT !.id = 0]

WFObj(o) ==
  /\ o.k \in {"aligned", "exact", "size", "color", "str"}
  /\ o.cls \in (CASE o.k = "aligned" -> AlignedClasses [] o.k = "exact" -> ExactClasses
                  [] o.k = "size" -> SizeClasses [] o.k = "color" -> ColorClasses
                  [] OTHER -> {"str"})
  /\ Len(o.n) = (CASE o.k = "aligned" -> 2 [] o.k = "exact" -> 4 [] o.k = "size" -> 2
                   [] o.k = "color" -> 4 [] OTHER -> Len(o.n))
  /\ Len(o.s) = (CASE o.k = "aligned" -> 3 [] o.k = "exact" -> 1 [] OTHER -> 0)
  /\ o.k = "aligned" => o.s[1] \in HNames /\ o.s[2] \in VNames
  /\ o.k = "exact" => \A i \in 1..4 : o.n[i] >= 0       \* there is no way around the constructor

WFStore(S) ==
  /\ \A i \in DOMAIN S : WFObj(S[i]) /\ S[i].id \in 1..Len(S)
  /\ \A i, j \in DOMAIN S : S[i].id = S[j].id => S[i] = S[j]
  /\ Norm(S) = S

(* ---- hex colour strings ---------------------------------------------------- *)
(* Symbols: 0..15 = '0'..'9','a'..'f'; 16..21 = 'A'..'F'; 22 = '#';            *)
(* everything above is NOT a hex digit: 23 'g', 24 ' ', 25 newline, 26 'x',     *)
(* 27 fullwidth zero, 28 '+', 29 '_', 30 'G'                                    *)
Pound == 22
IsHexDigit(c) == c \in 0..21
DigitVal(c) == IF c <= 15 THEN c ELSE c - 6
UpperSym(c) == IF c \in 10..15 THEN c + 6 ELSE c
LowerSym(c) == IF c \in 16..21 THEN c - 6 ELSE c
MapSeq(F(_), q) == [i \in DOMAIN q |-> F(q[i])]
DropPound(q) == IF Len(q) > 0 /\ q[1] = Pound THEN Tail(q) ELSE q

\* "[#]rrggbb[aa]", case-insensitive; <<>> = not a hex colour string
ParseHex(q) ==
  LET b == DropPound(q) IN
  IF Len(b) \in {6, 8} /\ \A i \in DOMAIN b : IsHexDigit(b[i])
    THEN LET ch(i) == 16 * DigitVal(b[2 * i - 1]) + DigitVal(b[2 * i]) IN
         <<ch(1), ch(2), ch(3), IF Len(b) = 8 THEN ch(4) ELSE 255>>
    ELSE <<>>

Nib(x) == <<x \div 16, x % 16>>
HexOf(c) == <<Pound>> \o Nib(c[1]) \o Nib(c[2]) \o Nib(c[3]) \o Nib(c[4])     \* "#rrggbbaa"
RgbHexOf(c) == <<Pound>> \o Nib(c[1]) \o Nib(c[2]) \o Nib(c[3])               \* "#rrggbb"

\* how from_hex is offered the text of a stored string
Forms == {"asis", "upper", "nopound", "upper-nopound"}
Transform(q, form) ==
  LET u == IF form \in {"upper", "upper-nopound"} THEN MapSeq(UpperSym, q) ELSE q IN
  IF form \in {"nopound", "upper-nopound"} THEN DropPound(u) ELSE u

(* ---- operations --------------------------------------------------------------- *)
(* op = [name, i, j, dst, cls, n, s]: i, j = operand slots (0 = none), dst = slot *)
(* that receives a returned object, n / s = integer / string arguments.          *)
Op(name, i, j, dst, cls, n, s) ==
  [name |-> name, i |-> i, j |-> j, dst |-> dst, cls |-> cls, n |-> n, s |-> s]

RelErr == "RelativePaddingDimensionError"

R(res, new, alias, val) == [res |-> res, new |-> new, alias |-> alias, val |-> val]
Made(o) == R("ok", o, 0, <<>>)         \* a NEW object is returned
Same(i) == R("ok", NoObj, i, <<>>)     \* the operand ITSELF is returned
Val(v) == R("ok", NoObj, 0, v)         \* a plain value is returned
Err(e) == R(e, NoObj, 0, <<>>)
New(k, cls, n, s) == Obj(k, cls, n, s, 0)

(* resolve() of an absolute padding and to_exact() of an exact padding are documented to       *)
(* return "an instance with equivalent absolute dimensions" / "an equivalent exact padding":   *)
(* the operand itself (what the implementation does, Same) or an equal new instance (Copy) -   *)
(* both are the documented behaviour.  For to_exact the new instance may be a plain            *)
(* ExactPadding even when the operand is an instance of a subclass.                            *)
CopyOf(o, cls) == Made(New(o.k, cls, o.n, o.s))
CopyClasses(o, name) == IF name = "to_exact" THEN {o.cls, "ExactPadding"} ELSE {o.cls}

\* render size argument: the object in slot j, else the literal <<w, h>> in n
RS(S, op) == IF op.j > 0 THEN P!Sz(S[op.j].n[1], S[op.j].n[2]) ELSE P!Sz(op.n[1], op.n[2])

IntFields(o) ==
  CASE o.k = "aligned" -> <<"width", "height">>
    [] o.k = "exact" -> <<"left", "top", "right", "bottom">>
    [] o.k = "size" -> <<"width", "height">>
    [] o.k = "color" -> <<"r", "g", "b", "a">>
    [] OTHER -> <<>>
StrFields(o) ==
  CASE o.k = "aligned" -> <<"h_align", "v_align", "fill">> [] o.k = "exact" -> <<"fill">> [] OTHER -> <<>>
IdxIn(q, x) == IF \E i \in DOMAIN q : q[i] = x THEN CHOOSE i \in DOMAIN q : q[i] = x ELSE 0
\* every attribute name an immutability probe may use (fields, `relative`, an unknown one)
AttrNames(o) == {IntFields(o)[i] : i \in DOMAIN IntFields(o)} \cup {StrFields(o)[i] : i \in DOMAIN StrFields(o)}
                \cup (IF o.k = "aligned" THEN {"relative"} ELSE {}) \cup {"foo"}

\* the constructor of the object's own class called with the object's attributes, one replaced
EvRebuild(o, op) ==
  LET f == op.s[1]
      ni == IdxIn(IntFields(o), f)
      si == IdxIn(StrFields(o), f)
      n2 == IF ni > 0 THEN [o.n EXCEPT ![ni] = op.n[1]] ELSE o.n
      s2 == IF si > 0 THEN [o.s EXCEPT ![si] = op.s[2]] ELSE o.s
  IN IF o.k = "exact" /\ \E i \in 1..4 : n2[i] < 0 THEN Err("ValueError")
     ELSE Made(New(o.k, o.cls, n2, s2))

\* What the documentation says each operation returns / raises (o = the operand object).
EvNewAligned(op) == Made(New("aligned", op.cls, op.n, op.s))
EvNewAlignedDefault(op) == Made(New("aligned", op.cls, op.n, <<"CENTER", "MIDDLE", " ">>))
EvNewExact(op) ==
  IF P!ValidExact(op.n[1], op.n[2], op.n[3], op.n[4]) THEN Made(New("exact", op.cls, op.n, op.s))
  ELSE Err("ValueError")
EvNewExactDefault(op) == Made(New("exact", op.cls, <<0, 0, 0, 0>>, <<" ">>))
EvResolve(o, op) ==
  IF ~Rel(o) THEN Same(op.i)
  ELSE LET q == P!Resolve(AsPad(o), P!Sz(op.n[1], op.n[2])) IN Made(New("aligned", o.cls, <<q.w, q.h>>, o.s))
EvToExact(o, rs, op) ==
  IF Rel(o) THEN Err(RelErr)
  ELSE IF o.k = "exact" /\ ~IsCustom(o) THEN Same(op.i)
  ELSE LET d == P!Dims(AsPad(o), rs) IN Made(New("exact", "ExactPadding", <<d.l, d.t, d.r, d.b>>, <<Fill(o)>>))
EvGetPaddedSize(o, rs) ==
  IF Rel(o) THEN Err(RelErr)
  ELSE LET z == P!PaddedSize(AsPad(o), rs) IN Made(New("size", "Size", <<z.w, z.h>>, <<>>))
EvExactDims(o, rs) ==
  IF Rel(o) THEN Err(RelErr) ELSE LET d == P!Dims(AsPad(o), rs) IN Val(<<d.l, d.t, d.r, d.b>>)
EvPad(o, rs) ==       \* <<lines, columns of every line>> of the padded output
  IF Rel(o) THEN Err(RelErr) ELSE LET z == P!PaddedSize(AsPad(o), rs) IN Val(<<z.h, z.w>>)
EvDimensions(o) == Val(o.n)
EvMinSize(o) == Made(New("size", "RawSize", o.n, <<>>))
EvNewAbstract == Err("TypeError")          \* Padding(...): "only concrete subclasses can be instantiated"
EvProbe == Err("AttributeError")            \* setattr / delattr: instances are immutable
EvNewSize(op) ==
  IF op.cls \in CheckedSizeClasses /\ (op.n[1] < 1 \/ op.n[2] < 1) THEN Err("ValueError")
  ELSE Made(New("size", op.cls, op.n, <<>>))
EvBypass(op) == Made(New(KindOfClass(op.cls), op.cls, op.n, <<>>))       \* cls._new(...)
EvReplace(o, op) ==                                                       \* tuple._replace
  Made(New(o.k, o.cls, [o.n EXCEPT ![IdxIn(IntFields(o), op.s[1])] = op.n[1]], <<>>))
EvNewColor(op) ==
  IF \A i \in 1..4 : Chan(op.n[i]) THEN Made(New("color", op.cls, op.n, <<>>)) ELSE Err("ValueError")
EvNewColorRGB(op) ==
  IF \A i \in 1..3 : Chan(op.n[i]) THEN Made(New("color", op.cls, op.n \o <<255>>, <<>>))
  ELSE Err("ValueError")
EvHex(o) == Made(New("str", "str", HexOf(o.n), <<>>))
EvRgbHex(o) == Made(New("str", "str", RgbHexOf(o.n), <<>>))
EvRgb(o) == Val(SubSeq(o.n, 1, 3))
EvNewStr(op) == Made(New("str", "str", op.n, <<>>))
EvFromHex(o, op) ==
  LET c == ParseHex(Transform(o.n, op.s[1])) IN
  IF c = <<>> THEN Err("ValueError") ELSE Made(New("color", op.cls, c, <<>>))

Eval(S, op) ==
  LET o == IF op.i > 0 THEN S[op.i] ELSE NoObj
      nm == op.name
  IN
  CASE nm = "new_aligned" -> EvNewAligned(op)
    [] nm = "new_aligned_default" -> EvNewAlignedDefault(op)
    [] nm = "new_exact" -> EvNewExact(op)
    [] nm = "new_exact_default" -> EvNewExactDefault(op)
    [] nm = "new_abstract" -> EvNewAbstract
    [] nm = "resolve" -> EvResolve(o, op)
    [] nm = "to_exact" -> EvToExact(o, RS(S, op), op)
    [] nm = "get_padded_size" -> EvGetPaddedSize(o, RS(S, op))
    [] nm = "exact_dims" -> EvExactDims(o, RS(S, op))
    [] nm = "pad" -> EvPad(o, RS(S, op))
    [] nm = "dimensions" -> EvDimensions(o)
    [] nm = "min_size" -> EvMinSize(o)
    [] nm \in {"setattr", "delattr"} -> EvProbe
    [] nm = "rebuild" -> EvRebuild(o, op)
    [] nm = "new_size" -> EvNewSize(op)
    [] nm = "bypass" -> EvBypass(op)
    [] nm = "replace" -> EvReplace(o, op)
    [] nm = "new_color" -> EvNewColor(op)
    [] nm = "new_color_rgb" -> EvNewColorRGB(op)
    [] nm = "hex" -> EvHex(o)
    [] nm = "rgb_hex" -> EvRgbHex(o)
    [] nm = "rgb" -> EvRgb(o)
    [] nm = "new_str" -> EvNewStr(op)
    [] nm = "from_hex" -> EvFromHex(o, op)

\* operations that hand back an object (stored in slot dst when accepted)
ObjectOps == {"new_aligned", "new_aligned_default", "new_exact", "new_exact_default", "new_abstract", "resolve",
              "to_exact", "get_padded_size", "min_size", "rebuild", "new_size", "bypass", "replace",
              "new_color", "new_color_rgb", "hex", "rgb_hex", "new_str", "from_hex"}
ValueOps == {"exact_dims", "pad", "dimensions", "rgb"}
ProbeOps == {"setattr", "delattr"}
AllOps == ObjectOps \cup ValueOps \cup ProbeOps

ApplyE(S, op, e) ==
  IF e.res # "ok" THEN S
  ELSE IF e.alias > 0 THEN Put(S, op.dst, S[e.alias])
  ELSE IF e.new # NoObj THEN Put(S, op.dst, [e.new EXCEPT !.id = Fresh(S)])
  ELSE S
Apply(S, op) == ApplyE(S, op, Eval(S, op))

\* the operation is one this module has something to say about, in this store
WFOp(S, op) ==
  LET o == IF op.i \in DOMAIN S THEN S[op.i] ELSE NoObj
      nm == op.name
      rsOK == IF op.j > 0 THEN op.j \in DOMAIN S /\ IsRenderSize(S[op.j])
              ELSE Len(op.n) = 2 /\ op.n[1] >= 1 /\ op.n[2] >= 1
  IN
  /\ nm \in AllOps
  /\ op.i = 0 \/ op.i \in DOMAIN S
  /\ nm \in ObjectOps => op.dst \in 1..(Len(S) + 1)
  /\ CASE nm = "new_aligned" -> op.cls \in AlignedClasses /\ Len(op.n) = 2 /\ Len(op.s) = 3
                                /\ op.s[1] \in HNames /\ op.s[2] \in VNames
       [] nm = "new_aligned_default" -> op.cls \in AlignedClasses /\ Len(op.n) = 2
       [] nm = "new_exact" -> /\ op.cls \in ExactClasses /\ Len(op.n) = 4 /\ Len(op.s) = 1
                              /\ op.cls = "CustomPadding" => \A i \in 1..4 : op.n[i] >= 0
       [] nm = "new_exact_default" -> op.cls \in ExactClasses \ {"CustomPadding"}
       [] nm = "new_abstract" -> Len(op.s) <= 1
       [] nm = "resolve" -> o.k = "aligned" /\ Len(op.n) = 2 /\ op.n[1] >= 1 /\ op.n[2] >= 1
       [] nm \in {"to_exact", "get_padded_size", "exact_dims", "pad"} -> IsPad(o) /\ rsOK
       [] nm = "dimensions" -> o.k = "exact" /\ ~IsCustom(o)
       [] nm = "min_size" -> o.k = "aligned"
       [] nm \in ProbeOps -> o # NoObj /\ o.k # "str" /\ ~IsCustom(o) /\ Len(op.s) = 1 /\ op.s[1] \in AttrNames(o)
       [] nm = "rebuild" ->
            /\ IsPad(o) /\ ~IsCustom(o) /\ Len(op.s) >= 1
            /\ \/ op.s[1] = "none"
               \/ IdxIn(IntFields(o), op.s[1]) > 0 /\ Len(op.n) = 1
               \/ /\ IdxIn(StrFields(o), op.s[1]) > 0 /\ Len(op.s) = 2
                  /\ op.s[1] = "h_align" => op.s[2] \in HNames
                  /\ op.s[1] = "v_align" => op.s[2] \in VNames
       [] nm = "new_size" -> op.cls \in SizeClasses /\ Len(op.n) = 2
       [] nm = "bypass" -> op.cls \in TupleClasses /\ Len(op.n) = (IF op.cls \in SizeClasses THEN 2 ELSE 4)
       [] nm = "replace" -> IsTuple(o) /\ Len(op.s) = 1 /\ IdxIn(IntFields(o), op.s[1]) > 0 /\ Len(op.n) = 1
       [] nm = "new_color" -> op.cls \in ColorClasses /\ Len(op.n) = 4
       [] nm = "new_color_rgb" -> op.cls \in ColorClasses /\ Len(op.n) = 3
       [] nm \in {"hex", "rgb_hex", "rgb"} -> o.k = "color" /\ ValidObj(o)
       [] nm = "new_str" -> TRUE
       [] nm = "from_hex" -> o.k = "str" /\ op.cls \in ColorClasses /\ Len(op.s) = 1 /\ op.s[1] \in Forms

(* ---- observable projection ------------------------------------------------------ *)
(* What the replay reads from the real objects after every operation: every field     *)
(* of every live object (by attribute, by index, by unpacking), its class, its         *)
(* `relative` flag, identity (id) and the == / hash relations between all of them.     *)
RelFlag(o) == IF o.k # "aligned" THEN 0 - 1 ELSE IF Rel(o) THEN 1 ELSE 0
ObsObj(o) == [k |-> o.k, cls |-> o.cls, n |-> o.n, s |-> o.s, id |-> o.id, rel |-> RelFlag(o),
              tup |-> IF IsTuple(o) THEN o.n ELSE <<>>]      \* list(obj) of the tuple types
Obs(S) == [o |-> [i \in DOMAIN S |-> ObsObj(S[i])],
           eq |-> [i \in DOMAIN S |-> [j \in DOMAIN S |-> Eq3(S[i], S[j])]]]
=============================================================================
