"""C15 - cached terminal facts never outlive the condition they were computed under.

model:      specs/TermCache.tla (+ TermCacheCore.tla) - histories of resizes, toggles, ratio modes;
            specs/Memo.tla - threads calling a memoized function concurrently
spec->code  tours covering every edge of the quick TermCache models are executed by the REAL
            public functions on a REAL pty (TIOCSWINSZ for cells and pixels, XTWINOPS / OSC /
            XTVERSION answered by a responder thread): harness/c15_worker.py;
            every interleaving of Memo.tla is replayed into probes wrapped with the REAL
            ``cached`` / ``terminal_size_cached`` under env/sched.py: harness/c15_memo.py
code->spec  seeded random histories of the public functions on the pty, validated by TLC against
            specs/Trace_TermCache.tla (a monitor that keeps no cache)
"""

from __future__ import annotations

import copy
import multiprocessing
import os
from concurrent.futures import ProcessPoolExecutor, ThreadPoolExecutor

from .. import c15_conc, c15_memo, c15_run, graph, tlc
from ..core import Report

ASSUMPTIONS = [
    "pixel-size changes need only be noticed when the size in cells differs from the one at the previous "
    "determination or after a toggle (swap on/off, queries re-enabled): TermCacheCore!RefEnv; "
    "an A->B->A resize without a call in between counts as unchanged (the library observes the size at calls)",
    "a positive cell size established while queries were enabled may still be returned after queries are "
    "disabled, as long as the size in cells and the swap setting are unchanged (it is still true of the "
    "terminal); a negative result (None) obtained while queries were disabled must not survive re-enabling",
    "AutoCellRatio.is_supported persists once determined (documented attribute; listed as out of scope in "
    "DESIGN section 5) and is modelled as the code behaves; TextImage._is_on_kitty / per-class _supported are "
    "not part of this property",
    "the terminal answers every query burst at once and always answers DA1; its colours and name do not "
    "change during a history; XTWINOPS 16 reports floor(pixels / cells), XTWINOPS 14 the text area",
    "a FIXED or explicit ratio is not required to follow the terminal; FIXED must equal the ratio of the cell "
    "size allowed at the moment it is set (fallback 1/2 when undetermined)",
    "the library state is reset between tours through its module globals and _invalidate_cache (seams)",
    "toggles racing with get_cell_size() (TermCacheConc): judged at quiescence (every program finished), for one "
    "toggle and one or two concurrent get_cell_size() calls at an unchanged terminal size; flag read / write, the "
    "read of the lock global, acquire / release, get_terminal_size() and the TIOCGWINSZ ioctl are the steps; "
    "termios / write_tty / read_tty of the loaded copy are stand-ins (canned XTWINOPS reply)",
    "Memo: invalidation concurrent with calls is explored for `cached` (invalidate takes the lock); for "
    "`terminal_size_cached` concurrent calls and resizes are explored, invalidation only sequentially "
    "(its `return cache[0]` after releasing the lock can raise TypeError if another thread invalidates in "
    "between - observation outside the property's statement, not flagged)",
]

# cellF / memo carry the faults (exceptions raised out of a terminal query): Faults = {"kbd", "exc"}
CELL_MODELS = ["MC_TermCache_cellA_dump.cfg", "MC_TermCache_cellB_dump.cfg", "MC_TermCache_cellC_dump.cfg",
               "MC_TermCache_cellF_dump.cfg", "MC_TermCache_memo_dump.cfg"]
VARIANTS = {
    "noswapclear": ("MC_TermCache_var.cfg", "enable_win_size_swap does not clear the cell-size cache"),
    "noqueryinval": ("MC_TermCache_var.cfg", "enable_queries does not invalidate get_fg_bg_colors"),
    "noquerycellclear": ("MC_TermCache_var.cfg", "enable_queries does not clear the cell-size cache"),
    "colsonly": ("MC_TermCache_var.cfg", "cell-size cache keyed on columns only"),
    "interimcell": ("MC_TermCache_var.cfg", "get_cell_size() writes an interim cache entry before the query; "
                                            "an exception raised out of the query leaves it behind"),
    "interimmemo": ("MC_TermCache_var.cfg", "a memoized query function stores `undetermined` before its body "
                                            "has returned; a raising body leaves it behind"),
}
ALL_ACTIONS = {"Resize", "EnableSwap", "DisableSwap", "EnableQueries", "DisableQueries", "SetRatioFloat",
               "SetRatioAuto", "GetCellSize", "GetRatio", "Memoized", "CellFault", "SetRatioFault", "MemoFault"}


def src_of(rep: Report) -> str:
    return os.path.join(rep.extra.get("repo", "/repo"), "src")


def edge_pipeline(cfg: str, src: str, seed: int, histories: dict | None, full: bool = False) -> dict:
    """TLC with the edge dump -> tours -> worker on a pty.  Runs in a thread (all subprocesses)."""
    res = tlc.run("MC_TermCache", cfg, workers=1, timeout=900, coverage=True)
    out = {"cfg": cfg, "res": res, "divergences": [], "tours": 0, "ops": 0, "edges": 0}
    if res.violated:
        return out
    edges = res.tagged("EDGE")
    g = graph.Graph(edges, [e["from"] for e in edges if e["lvl"] == 1])
    paths = c15_run.tours(g)
    tours = c15_run.materialize(g, paths)
    out.update(edges=len(g.edges), nodes=g.nodes, inits=len(g.inits))
    # self-check of the binding: a tampered edge (expected result altered) must be rejected there
    tamper_at = None
    if cfg == CELL_MODELS[0]:
        t0 = copy.deepcopy(tours[0])
        tamper_at = next((i for i, e in enumerate(t0) if e["op"]["op"] == "GetCellSize" and not e["op"]["fault"] and e["op"]["res"] != [0, 0]), None)
        if tamper_at is not None:
            t0[tamper_at]["op"]["res"] = [t0[tamper_at]["op"]["res"][0] + 1, t0[tamper_at]["op"]["res"][1]]
            t0[tamper_at]["allowed"] = [t0[tamper_at]["op"]["res"]]
            p, od = c15_run.launch(dict(src=src, tours=[t0[: tamper_at + 1]]), "tamper")
            r = c15_run.collect(p, od, timeout=120)["replay"]
            out["tamper_rejected"] = bool(r["divergences"] and r["divergences"][0]["idx"] == tamper_at)
    job = dict(src=src, tours=tours)
    if histories:
        job["histories"] = histories
    p, od = c15_run.launch(job, cfg.split(".")[0][-12:])
    r = c15_run.collect(p, od, timeout=900)
    rp = r["replay"]
    out.update(tours=rp["tours"], ops=rp["ops"], drift=rp.get("drift", 0), traces=r.get("traces", []),
               garbage=r.get("garbage", ""),
               **{k: rp.get(k, 0) for k in ("faults", "unfired", "swallowed", "after_fault", "abandoned")})
    if rp["tours"] != len(tours) and not rp["divergences"]:
        raise tlc.MachineryError(f"{cfg}: worker executed {rp['tours']} of {len(tours)} tours")
    seen = set()
    for d in rp["divergences"]:
        sig = (d["op"]["op"], d["what"])
        if sig in seen:
            continue
        seen.add(sig)
        # try to reproduce on the shortest path to the diverging edge (a readable scenario)
        tour_i = rp["tours"] - 1 if d is rp["divergences"][-1] else None
        short = None
        try:
            ti = next(k for k, t in enumerate(tours) if [x["op"] for x in t[: d["idx"] + 1]] == d["prefix"])
            sp = c15_run.shortest_to(g, paths[ti][d["idx"]])
            st = c15_run.materialize(g, [sp])
            p2, od2 = c15_run.launch(dict(src=src, tours=st), "short")
            r2 = c15_run.collect(p2, od2, timeout=120)["replay"]
            if r2["divergences"]:
                short = r2["divergences"][0]
            # the divergence depends on more of the history than the model state (e.g. on what an earlier
            # failed look-up left behind): shortest path to a state k operations back + the tour's last k
            k = 4
            while short is None and k < d["idx"] and k <= 512:
                s0 = d["idx"] - k
                sp = c15_run.shortest_to(g, paths[ti][s0]) + paths[ti][s0 + 1: d["idx"] + 1]
                p2, od2 = c15_run.launch(dict(src=src, tours=c15_run.materialize(g, [sp])), "short")
                r2 = c15_run.collect(p2, od2, timeout=120)["replay"]
                if r2["divergences"] and (r2["divergences"][0]["op"]["op"], r2["divergences"][0]["what"]) == sig:
                    short = r2["divergences"][0]
                k *= 4
        except (StopIteration, tlc.MachineryError):
            short = None
        out["divergences"].append(short or d)
    out["sample"] = [[e["op"]["op"], e["op"]["arg"], e["op"]["res"]] for e in tours[len(tours) // 2][:30]]
    return out


def report_edges(rep: Report, out: dict, cover: dict):
    cfg, res = out["cfg"], out["res"]
    rep.add_tlc(res)
    if res.violated:
        rep.violation(f"design:TermCache:{cfg}:{res.violated}",
                      f"the cache design specified in TermCache.tla violates {res.violated} ({cfg})\n{res.error_text[:1500]}",
                      {"kind": "design", "cfg": cfg})
        return
    for a, (d, g) in res.coverage.items():
        if a in ALL_ACTIONS:
            cover[a] = cover.get(a, 0) + g
    rep.traces_validated += out["tours"]
    rep.evaluations += out["ops"]
    rep.distinct.update((cfg, i) for i in range(out["edges"]))
    rep.extra.setdefault("replay", {})[cfg] = {k: out.get(k) for k in ("edges", "nodes", "inits", "tours", "ops", "drift", "tamper_rejected",
                                                                          "faults", "unfired", "swallowed", "after_fault", "abandoned")}
    rep.extra["replay"][cfg].update(states=res.distinct, transitions=res.generated)
    if out.get("tamper_rejected") is False and not out["divergences"]:
        raise tlc.MachineryError(f"{cfg}: a tampered edge was not rejected by the replay")
    if out.get("sample"):
        rep.sample({"model": cfg, "tour": out["sample"]})
    for d in out["divergences"]:
        op = d["op"]
        clause = {"GetCellSize": "CellFresh", "GetRatio": "RatioFresh",
                  "SetRatio": "FixedSnapshot" if d["what"] == "res" else "AutoSupport",
                  "GetColors": "MemoFresh", "GetName": "MemoFresh"}.get(op["op"], "Conformance")
        if d["what"] == "body-count":
            clause = "BodyOnce"
        if op["op"] == "GetRatio" and not (d.get("allowed_prefix") or [[]])[-1]:
            clause = "RatioFixed"
        if op.get("aff"):  # TermCache!FaultFresh: the operation ran after a failed look-up of the same fact
            clause = "FaultFresh"
        hist = [[o["op"], o["arg"]] + ([f"raises {o['fault']}"] if o.get("fault") else []) for o in d["prefix"]]
        rep.violation(
            f"replay:{op['op']}:{clause}:{d['what']}",
            f"[{cfg}] after {len(hist) - 1} operations on terminal {d['env']}: {op['op']}{op['arg']} {d['detail']} "
            f"(real: {d['real']})\nhistory (last 12): {hist[-12:]}",
            {"kind": "ops", "env": d["env"], "expect": d["prefix"], "allowed": d.get("allowed_prefix"),
             "fixed": d.get("fixed_prefix"), "errok": d.get("errok_prefix")},
        )


def validate_histories(rep: Report, traces: list[dict], owners: list, selfcheck=True):
    if not traces:
        raise tlc.MachineryError("no history was recorded")
    extra = []
    src_i = None
    if selfcheck:
        for i, t in enumerate(traces):
            k = next((j for j, e in enumerate(t["ev"]) if e["op"] == "GetCellSize" and not e["fault"] and e["res"] != [0, 0]), None)
            if k is not None:
                bad = copy.deepcopy(t)
                bad["ev"][k]["res"] = [bad["ev"][k]["res"][0] + 1, bad["ev"][k]["res"][1]]
                extra, src_i = [bad], i
                break
    verdicts, st, tr = tlc.validate_traces("Trace_TermCache", "Trace_TermCache.cfg", traces + extra,
                                           batch=60, parallel=6, workers=2, name="c15", timeout=600)
    rep.states += st
    rep.transitions += tr
    if extra and verdicts[src_i]["verdict"] == "ok":
        if not verdicts[-1]["verdict"].startswith(("CellFresh", "FaultFresh")):
            raise tlc.MachineryError(f"Trace_TermCache accepted a corrupted trace: {verdicts[-1]}")
        rep.extra["corrupted_trace_rejected"] = verdicts[-1]["verdict"][:60]
    gets = exempt = faults = aff = 0
    for t, v, o in zip(traces, verdicts, owners):
        rep.traces_validated += 1
        rep.evaluations += len(t["ev"])
        gets += v["gets"]
        exempt += v["exempt"]
        faults += v["faults"]
        aff += v["aff"]
        rep.distinct.add(("history", o, len(t["ev"])))
        if v["verdict"].startswith("malformed"):
            raise tlc.MachineryError(f"history {o}: {v['verdict']}")
        if v["verdict"] != "ok":
            e = t["ev"][v["at"] - 1]
            clause = v["verdict"].split(":")[0]
            rep.violation(
                f"history:{e['op']}:{clause}",
                f"history {o} on terminal {t['env']}: {v['verdict']} at event {v['at']}: {e}\n"
                f"preceding: {[[x['op'], x['arg'], ('raised ' + x['fault']) if x.get('fault') else x['res']] for x in t['ev'][max(0, v['at'] - 9): v['at'] - 1]]}",
                {"kind": "history", "env": t["env"], "ops": [[x["op"], x["arg"], x.get("req", "")] for x in t["ev"][: v["at"]]], "trace": t},
            )
    rep.extra["histories"] = {"count": len(traces), "events": sum(len(t["ev"]) for t in traces),
                              "cell_size_determinations": gets, "pixel_exemption_used": exempt,
                              "faults_raised": faults, "lookups_after_a_failed_lookup": aff}
    if not rep.violations and selfcheck and (gets == 0 or exempt == 0 or faults == 0 or aff == 0):
        raise tlc.MachineryError(f"histories are vacuous: gets={gets}, exemption used={exempt}, faults raised={faults}, "
                                 f"look-ups after a failed look-up={aff}")


def main(rep: Report, replay: dict | None) -> None:
    try:
        _main(rep, replay)
    finally:
        c15_run.cleanup()


def _main(rep: Report, replay: dict | None) -> None:
    rep.assumptions += ASSUMPTIONS
    rep.rule = (
        "spec->code: every edge of the quick TermCache models (cell A/B/C, memo) executed on a real pty in "
        "tours from the initial states, every interleaving of Memo (cached, terminal_size_cached) replayed "
        "under the scheduler; distinct_nontrivial = distinct model edges + distinct recorded histories; "
        "code->spec: one trace per seeded history"
    )
    src = src_of(rep)
    if replay:
        sc = replay["scenario"]
        if sc.get("kind") == "ops":
            n = len(sc["expect"])
            tour = [{"op": o, "allowed": a, "fixed": f, "errok": k} for o, a, f, k in
                    zip(sc["expect"], sc.get("allowed") or [[]] * n, sc.get("fixed") or [[]] * n, sc.get("errok") or [[]] * n)]
            # initial library state is the model's; the environment is the scenario's
            tour[0]["from"] = [sc["env"]]
            p, od = c15_run.launch(dict(src=src, tours=[tour]), "replay")
            r = c15_run.collect(p, od, timeout=300)["replay"]
            rep.traces_validated += 1
            for d in r["divergences"]:
                rep.violation(f"replay:{d['op']['op']}:{d['what']}", f"{d['detail']} (real: {d['real']})", sc)
        elif sc.get("kind") == "history":
            # re-run the recorded history against the code under test (the recorded trace itself is
            # kept in the file for reference)
            p, od = c15_run.launch(dict(src=src, scenario={"env": sc["env"], "ops": sc["ops"]}), "replay")
            r = c15_run.collect(p, od, timeout=300)
            validate_histories(rep, r["traces"], ["re-run"], selfcheck=False)
        elif sc.get("kind") == "conc":
            rep.traces_validated += 1
            if sc.get("schedule"):
                v, fl, ok = c15_conc.replay_schedule(sc["config"], sc["schedule"], sc["allowed"])
                if not ok:
                    rep.violation(f"conc:{sc['config']['prog'][0]}:QuiescentFresh:stale-after-toggle",
                                  f"at quiescence get_cell_size() returns {v} with {fl}; allowed {sc['allowed']}", sc)
            else:
                r = c15_conc.replay_walk(sc["config"], sc["walk"], 0)
                if r:
                    rep.violation(f"conc:{sc['config']['prog'][0]}:QuiescentFresh:{r[1].what}", r[1].detail, sc)
        elif sc.get("kind") == "memo":
            r = c15_memo.replay_walk(sc["config"], sc["walk"], 0)
            rep.traces_validated += 1
            if r:
                rep.violation(f"memo:{sc['config']['kind']}:{r[2].clause}:{r[2].what}", r[2].detail, sc)
        else:
            res = tlc.run("MC_TermCache", sc.get("cfg", "MC_TermCache.cfg"), workers=8, timeout=900)
            rep.add_tlc(res)
            if res.violated:
                rep.violation(f"design:TermCache:{sc.get('cfg')}:{res.violated}", res.error_text[:1500], sc)
        return

    quick = rep.tier == "quick"
    cover: dict = {}
    nhist = 240 if quick else 3000
    share = nhist // len(CELL_MODELS)
    with ProcessPoolExecutor(max_workers=6, mp_context=multiprocessing.get_context("spawn")) as pool, \
            ThreadPoolExecutor(max_workers=8) as tp:
        memo_f = [pool.submit(c15_memo.replay_model, dict(cfg=c)) for c in (("MC_Memo_cached.cfg", "MC_Memo_tsc.cfg") if quick else
                            ("MC_Memo_cached.cfg", "MC_Memo_tsc.cfg", "MC_Memo_tsc3.cfg"))]
        conc_f = [pool.submit(c15_conc.replay_model, dict(cfg=f"MC_TermCacheConc_{c}.cfg"))
                  for c in ("swapon", "swapoff", "queries", "two")]
        edge_f = [
            tp.submit(edge_pipeline, cfg, src, rep.seed,
                      dict(seed=rep.seed * 977 + i, count=share, min_len=10, max_len=60 if quick else 120))
            for i, cfg in enumerate(CELL_MODELS)
        ]
        full_f = None
        if not quick:
            full_f = tp.submit(edge_pipeline, "MC_TermCache_full_dump.cfg", src, rep.seed, None)
        # exhaustive models without dump + seeded regressions of the models
        # (these configurations have no VIEW: the invariants read `out`, so the last operation is part
        # of the state identity and every returned value is judged)
        # "fault": cell operations with failing look-ups (quick: 2 sizes x 2 pixel sizes, thorough: the `cell` family)
        mc_names = ("cell", "memo", "fault") if quick else ("cell", "memo", "fault", "all")
        mc_cfg = {"cell": "MC_TermCache.cfg", "all": "MC_TermCache_all.cfg", "memo": "MC_TermCache_memo.cfg",
                  "fault": "MC_TermCache_faultq.cfg" if quick else "MC_TermCache_faultx.cfg"}
        mc_f = [tp.submit(tlc.run, "MC_TermCache", mc_cfg[n], workers=4 if quick else 6, timeout=1200, coverage=True)
                for n in mc_names]
        var_f = {v: tp.submit(tlc.run, "MC_TermCache", c, workers=1, timeout=300, env={"VARIANT": v})
                 for v, (c, _) in VARIANTS.items()}
        var_f["clearfirst"] = tp.submit(tlc.run, "MC_TermCacheConc", "MC_TermCacheConc_var.cfg", workers=1, timeout=300,
                                        env={"VARIANT": "clearfirst"})
        var_f["kwnames"] = tp.submit(tlc.run, "MC_Memo", "MC_Memo_var_kw.cfg", workers=1, timeout=300, env={"VARIANT": "kwnames"})
        var_f["sizefirst"] = tp.submit(tlc.run, "MC_Memo", "MC_Memo_var_tsc.cfg", workers=1, timeout=300, env={"VARIANT": "sizefirst"})
        var_f["outside"] = tp.submit(tlc.run, "MC_Memo", "MC_Memo_var.cfg", workers=1, timeout=300, env={"VARIANT": "outside"})

        for name, f in zip(mc_names, mc_f):
            res = f.result()
            rep.add_tlc(res)
            rep.extra.setdefault("mc", {})[name] = {"states": res.distinct, "transitions": res.generated, "depth": res.depth}
            if res.violated:
                rep.violation(f"design:TermCache:{name}:{res.violated}", res.error_text[:1500],
                              {"kind": "design", "cfg": mc_cfg[name]})
            for a, (d, g) in res.coverage.items():
                if a in ALL_ACTIONS:
                    cover[a] = cover.get(a, 0) + g
        for v, f in var_f.items():
            res = f.result()
            rep.add_tlc(res)
            if not res.violated:
                raise tlc.MachineryError(f"model variant {v!r} satisfies every invariant: the specification no longer discriminates")
            rep.extra.setdefault("model_variants", {})[v] = f"{res.violated} after {res.distinct} states"

        traces, owners = [], []
        outs = [f.result() for f in edge_f] + ([full_f.result()] if full_f else [])
        if not any(o["res"].violated or o["divergences"] for o in outs) and (
                not sum(o.get("faults", 0) for o in outs) or not sum(o.get("after_fault", 0) for o in outs)):
            raise tlc.MachineryError("vacuous: no fault was raised out of a terminal query during the tours "
                                     f"({[(o['cfg'], o.get('faults'), o.get('unfired'), o.get('swallowed')) for o in outs]})")
        for out in outs:
            report_edges(rep, out, cover)
            for k, t in enumerate(out.get("traces", [])):
                traces.append(t)
                owners.append(f"{out['cfg']}#{k}")
        for f in memo_f:
            out = f.result()
            rep.states += out["distinct"]
            rep.transitions += out["generated"]
            if out["violated"]:
                rep.violation(f"design:Memo:{out['cfg']}:{out['violated']}", out["error_text"][:1500], {"kind": "design", "cfg": out["cfg"]})
                continue
            need = {"Acq", "Body", "BodyFail", "Rel"} | ({"Resize"} if "tsc" in out["cfg"] else set())
            if not need <= set(out["acts"]):
                raise tlc.MachineryError(f"{out['cfg']}: vacuous, actions {need - set(out['acts'])} never taken")
            rep.traces_validated += out["walks"]
            rep.evaluations += out["steps"]
            rep.distinct.update((out["cfg"], i) for i in range(out["edges"]))
            rep.extra.setdefault("memo_replay", {})[out["cfg"]] = {k: out[k] for k in ("distinct", "edges", "walks", "steps")}
            if out.get("sample"):
                rep.sample({"model": out["cfg"], "interleaving": out["sample"]})
            for d in out["divergences"]:
                rep.violation(
                    f"memo:{out['config']['kind']}:{d['clause']}:{d['what']}",
                    f"[{out['cfg']}] {d['clause']} at step {d['idx']}: {d['detail']}\ninterleaving: {d['path']}",
                    {"kind": "memo", "config": out["config"], "walk": d["walk"]},
                )

        for f in conc_f:
            out = f.result()
            rep.states += out["distinct"]
            rep.transitions += out["generated"]
            if out["violated"]:
                rep.violation(f"design:TermCacheConc:{out['cfg']}:{out['violated']}", out["error_text"][:1500],
                              {"kind": "design", "cfg": out["cfg"]})
                continue
            toggle = out["config"]["prog"][0]
            need = {"RF", "WF", "RL", "AQ", "REL", "ReadA", "AcqA", "ReadB", "AcqB", "TS", "IO", "FL", "RelB", "RelA"}
            if "queries" in out["cfg"]:
                need |= {"RQ"}
            if not need <= set(out["acts"]) or not out["quiescent"]:
                raise tlc.MachineryError(f"{out['cfg']}: vacuous (actions {sorted(need - set(out['acts']))}, "
                                         f"quiescent walks {out['quiescent']})")
            rep.traces_validated += out["walks"]
            rep.evaluations += out["steps"]
            rep.distinct.update((out["cfg"], i) for i in range(out["edges"]))
            rep.extra.setdefault("conc_replay", {})[out["cfg"]] = {k: out[k] for k in ("distinct", "edges", "walks", "steps", "quiescent")}
            if out.get("sample"):
                rep.sample({"model": out["cfg"], "interleaving": out["sample"]})
            for d in out["divergences"]:
                st = d.get("stale")
                if st:
                    rep.violation(
                        f"conc:{toggle}:QuiescentFresh:stale-after-toggle",
                        f"[{out['cfg']}] {toggle} racing with get_cell_size(): with the schedule {st['schedule']} (thread 1 = "
                        f"{toggle}, others = get_cell_size) every call has returned and get_cell_size() now returns "
                        f"{st['value']} although the settings are {st['flags']}; allowed: {st['allowed']}.  The code also "
                        f"departs from the specified statement order: {d['detail']}",
                        {"kind": "conc", "config": out["config"], "schedule": st["schedule"], "allowed": st["allowed"]},
                    )
                else:
                    rep.violation(
                        f"conc:{toggle}:QuiescentFresh:{d['what']}",
                        f"[{out['cfg']}] step {d['idx']}: {d['detail']}\ninterleaving: {d['path']}",
                        {"kind": "conc", "config": out["config"], "walk": d["walk"]},
                    )

    missing = sorted(a for a in ALL_ACTIONS if not cover.get(a))
    if missing:
        raise tlc.MachineryError(f"vacuous: TermCache actions never taken: {missing}")
    rep.extra["action_coverage"] = cover
    rep.exhaustive = True
    rep.extra["exhaustive_over"] = (
        "all histories of the TermCache configurations (finite state graphs fully explored; every edge of the "
        "models listed under extra.replay executed on the pty) and all interleavings of the Memo configurations; "
        "the recorded histories are samples"
    )
    validate_histories(rep, traces, owners)
