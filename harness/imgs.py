"""Deterministic source images for the render-level drivers (in memory and on disk)."""

from __future__ import annotations

import random
import shutil
from pathlib import Path

from PIL import Image

VERIF = Path(__file__).resolve().parent.parent
TMP = VERIF / "out" / "tmp"

MODES = ["1", "L", "LA", "P", "PA", "RGB", "RGBA", "CMYK"]


def tmpdir(name: str) -> Path:
    """A scratch directory private to this process (removed at exit)."""
    import atexit
    import os

    d = TMP / f"{name}-{os.getpid()}"
    shutil.rmtree(d, ignore_errors=True)
    d.mkdir(parents=True, exist_ok=True)
    atexit.register(shutil.rmtree, d, ignore_errors=True)
    return d


def rgba_pixels(rng: random.Random, w: int, h: int, style: str = "mixed"):
    """Pixel list biased towards runs, single-pixel changes and alpha transitions."""
    palette = [
        (rng.randrange(256), rng.randrange(256), rng.randrange(256)) for _ in range(3)
    ] + [(0, 0, 0), (255, 255, 255)]
    alphas = [0, 255, 255, 255, 30, 41, 200, 128]
    px = []
    cur = (*rng.choice(palette), rng.choice(alphas))
    for _ in range(w * h):
        roll = rng.random()
        if style == "uniform":
            pass
        elif style == "noise" or roll < 0.15:
            cur = (*rng.choice(palette), rng.choice(alphas))
        elif roll < 0.3:
            cur = (*cur[:3], rng.choice(alphas))  # alpha transition inside a colour run
        elif roll < 0.4:
            cur = (*rng.choice(palette), cur[3])  # colour change at constant alpha
        px.append(cur)
    return px


def make_image(rng: random.Random, mode: str, w: int, h: int, style: str = "mixed") -> Image.Image:
    base = Image.new("RGBA", (w, h))
    base.putdata(rgba_pixels(rng, w, h, style))
    if mode == "RGBA":
        return base
    if mode == "PA":
        p = base.convert("RGB").convert("P")
        img = Image.new("PA", (w, h))
        img.putpalette(p.getpalette())
        img.putdata(list(zip(p.getdata(), base.getchannel("A").getdata())))
        return img
    if mode == "P":
        # palette image with a transparent index
        img = base.convert("RGB").convert("P", palette=Image.Palette.ADAPTIVE, colors=8)
        img.info["transparency"] = 0
        return img
    if mode in ("LA",):
        return base.convert("LA")
    return base.convert("RGB").convert(mode)


def make_animation(rng: random.Random, path: Path, n: int, w: int, h: int, fmt: str = "GIF",
                   duration: int = 40) -> Path:
    frames = []
    for i in range(n):
        f = Image.new("RGB", (w, h), (40 * i % 256, 255 - 60 * i % 256, (90 * i + 17) % 256))
        # a distinguishing block so that frames differ after quantisation
        for x in range(min(w, 2)):
            for y in range(min(h, 2)):
                f.putpixel((x, y), ((i * 83) % 256, (i * 151) % 256, (i * 211) % 256))
        frames.append(f)
    frames[0].save(path, fmt, save_all=True, append_images=frames[1:], duration=duration, loop=0)
    return path
