SPECIFICATION Spec
CONSTANTS
  ChunkSize = 16
  RV = "second-cell-read"
INVARIANT JudgeAccepts
INVARIANT AllRowsSent
INVARIANT ReceiverIdleBetweenStrips
CHECK_DEADLOCK FALSE
