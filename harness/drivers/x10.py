"""X10 - validation and normalisation of the style-specific arguments of the old image API.

model:    specs/StyleArgs.tla over specs/StyleArgsCore.tla: the documented argument table of
          BlockImage / KittyImage / ITerm2Image (method, z_index, mix, compress: types, ranges,
          defaults, TypeError / ValueError / StyleError), what an accepted call denotes, and a
          state machine over histories of set_render_method / draw(**style) / format(+style) /
          _check_style_args calls on one user subclass and two instances, in which nothing leaks
          from one call into the next.  MC_StyleArgs*.cfg: laws as invariants / action properties;
          MC_StyleArgs_table.cfg: laws of the verdict function over the whole argument space.
spec->code: TLC dumps every edge of the bounded model (Edges_StyleArgs_*.cfg); harness/graph.py
          turns them into covering walks; every walk is replayed on a fresh REAL subclass +
          instances (harness/x10_world.py) on a scripted terminal with stdout captured; after each
          operation the projection of what was written is compared with the edge's expectation,
          and a plain still draw of every instance is made and compared as well.  Every replayed
          walk is ALSO validated by TLC (Trace_StyleArgs), which supplies the failing clause.
code->spec: seeded random histories (wider value alphabets, random case / order / routes) are
          run on the real code, recorded, and validated by TLC against specs/Trace_StyleArgs.tla.
"""

from __future__ import annotations

import copy
import json
import multiprocessing as mp
import random
import re
import time
from concurrent.futures import ThreadPoolExecutor

from .. import graph, tlc
from .. import x10_world as W
from ..core import Report
from ..env import stubs

ASSUMPTIONS = [
    "the documented table: the 'Style-Specific Render Parameters' sections of the KittyImage / ITerm2Image "
    "docstrings (method: None | str, z_index: int in the signed 32-bit range excluding -(2**31), mix: bool, "
    "compress: int 0..9; defaults None / 0 / False / 4), BaseImage.draw() 'Raises' (TypeError inappropriate type, "
    "ValueError bad value, StyleError unrecognised parameter), _check_style_args 'Removes any argument having a "
    "value equal to the default'; BlockImage documents no style-specific parameter",
    "D1 (named deviation, modelled): a bool is accepted where an int is documented (Python's bool is an int); "
    "True counts as 1, False as 0",
    "D2 (named deviation, modelled): a rejected draw() may still write its epilogue (SGR reset, cursor show/hide, "
    "one newline) - the documentation does not say what a rejected call writes; nothing of the image may be written",
    "D3: when several arguments of one call are wrong, any of their errors is accepted (the documentation does not "
    "order the checks)",
    "D4: the mapping returned by _check_style_args is compared case-insensitively for method names",
    "D5 (named deviation, modelled): the docstrings say 'method (None | str)', the code and the repository's own "
    "tests (TestStyleArgs.test_method) refuse None with TypeError; omitting `method` is the way to get the effective "
    "render method",
    "the render method / z-index / mix / compression level a call used are read from what it wrote: number of image "
    "transmissions (lines: one per row, whole: one), the z key of the kitty transmissions, presence of ECH, and the "
    "set of zlib / PNG levels that reproduce the transmitted bytes from the decoded data",
    "iterm2 mix is documented as ignored except on WezTerm: judged as 'no erasure' on the other identities",
    "kitty z_index is documented for non-animations: not judged for animated draws; compress is not judged when "
    "the source file is sent as is (iterm2 native animation)",
    "pictures are small enough to fit the scripted terminal (style arguments are validated after the size check)",
]

ACTIONS = ("SetClassMethod", "SetInstanceMethod", "SetMethodRejected", "DrawPlain", "DrawWithArgs", "DrawRejected",
           "DrawAnimation", "DrawAnimationRejected", "FormatWithSpec", "FormatRejected", "CheckArgs",
           "CheckArgsRejected", "MethodNoneRefusedCall")
TABLE_LAWS = ("DefaultsAreAccepted", "MethodNoneIsRefused", "ZRangeFormulationsAgree", "ZRangeBoundaries", "VerdictIsTotal",
              "OrderIrrelevant", "NormalisationPreservesMeaning", "CaseInsensitive", "RoutesAgree",
              "SetAndOverrideAgree")
POOL = 6


# ------------------------------------------------------------------ TLC helpers
def coverage_of(res, module: str) -> dict[str, int]:
    pat = re.compile(
        r"^<(\w+) line \d+, col \d+ to line \d+, col \d+ of module %s(?: \([\d ]+\))?>: (\d+):(\d+)"
        % re.escape(module), re.M)
    return {m.group(1): int(m.group(3)) for m in pat.finditer(res.stdout)}


def require_actions(res, what: str) -> dict[str, int]:
    cov = coverage_of(res, "StyleArgs")
    vac = [a for a in ACTIONS if cov.get(a, 0) == 0]
    if vac:
        raise tlc.MachineryError(f"x10: vacuous actions in {what}: {vac} (coverage {cov})")
    return {a: cov[a] for a in ACTIONS}


# ------------------------------------------------------------------ spec -> code
def _cmp_obs(exp: dict, o: dict, fam: str, term: str, rows: int) -> str:
    if o["wrote"] not in exp["wrote"]:
        return f"output class {o['wrote']!r}, spec {exp['wrote']}"
    if exp["wrote"] != ["picture"]:
        return ""
    if fam != "block" and o["ncmd"] != exp["ncmd"][rows - 1]:
        return f"{o['ncmd']} image transmissions, spec {exp['ncmd'][rows - 1]} (framing {exp['fr']})"
    if exp["zj"] and o["zs"] != [exp["den"]["z"]]:
        return f"z-index {[W.dec(z) for z in o['zs']]}, spec {W.dec(exp['den']['z'])}"
    if o["er"] != exp["er"][term]:
        return f"erases cells: {o['er']}, spec {exp['er'][term]}"
    if exp["cj"] and exp["den"]["c"] not in o["lv"]:
        return f"data consistent with compression levels {o['lv']}, spec {exp['den']['c']}"
    return ""


def _compare(edge: dict, plain: list, obs: dict, pr: list, fam: str, term: str, rows: int) -> str:
    """'' if the real observation equals the edge's projection, else what differs (text only).
    (The mapping returned by _check_style_args and the digest law are left to Trace_StyleArgs.)"""
    op, exp = edge["op"]["op"], edge["op"]["exp"]
    if obs["res"] not in exp["res"]:
        return f"result {obs['res']!r}, spec {exp['res']}"
    if obs["so"]:
        return "a call that is not a draw wrote to stdout"
    d = _cmp_obs(exp, obs, fam, term, rows)
    if d:
        return d
    allowed = []
    if op["r"] == "set" and exp["res"] == ["ok"]:
        allowed = ["U._render_method" if op["i"] == 0 else f"i{op['i']}._render_method"]
    extra = [c for c in obs["chg"] if c not in allowed]
    if extra:
        return f"attributes changed: {extra}"
    for i, p in enumerate(pr, 1):
        if p["wrote"] == "skip":
            continue
        if p["res"] != "ok":
            return f"plain draw of instance {i} afterwards: {p['res']}"
        d = _cmp_obs(plain[i - 1], p, fam, term, rows)
        if d:
            return f"plain draw of instance {i} afterwards: {d}"
    return ""


def _header(fam, term, rows, init) -> dict:
    return {"fam": fam, "term": term, "rows": rows, "nf": W.NF, "animated": [False, True],
            "init": {"cm": init["cm"], "im": list(init["im"])}}


def replay_walk(task: dict) -> dict:
    """Execute one covering walk on fresh real objects.  Runs in a pool worker."""
    walk, idx, seed = task["walk"], task["idx"], task["seed"]
    fam = walk[0]["from"]["fam"]
    terms = W.TERMS[fam]
    term = terms[(idx + seed) % len(terms)]
    rows = 2 + (idx // 3 + seed) % 2
    tty = bool((idx // 2 + seed) % 2)
    dense = (idx + seed) % 3 == 0  # probe only after the last operation
    world = W.World(fam, term, rows, seed * 1000003 + idx, tty)
    out = {"steps": 0, "mismatches": [], "traces": [], "resyncs": 0}
    try:
        init = {"cm": walk[0]["from"]["cm"], "im": walk[0]["from"]["im"]}
        if init["cm"] != "unset" or any(m != "unset" for m in init["im"]):
            raise tlc.MachineryError("x10: a covering walk does not start in the initial state")
        ev: list = []

        def close_segment():
            if ev:
                t = _header(fam, term, rows, init)
                t.update(ev=list(ev), wseed=world.wseed, tty=tty, walk=idx)
                out["traces"].append(t)

        for k, edge in enumerate(walk):
            op = edge["op"]["op"]
            obs = world.do(op)
            pr = world.probes(not dense or k == len(walk) - 1)
            out["steps"] += 1
            ev.append(W.event(op, obs, pr))
            to = edge["to"]
            diff = _compare(edge, task["plain"][json.dumps([to["cm"], to["im"]])], obs, pr, fam, term, rows)
            if diff:
                out["mismatches"].append({"trace": len(out["traces"]), "event": len(ev), "walk": idx, "step": k,
                                          "diff": diff})
            if op["r"] == "set" and (obs["res"] == "ok") != (edge["op"]["exp"]["res"] == ["ok"]):
                # the real render-method state has left the model's: start a new trace from the model state
                close_segment()
                init = {"cm": to["cm"], "im": to["im"]}
                ev = []
                world.force(to["cm"], to["im"])
                out["resyncs"] += 1
        close_segment()
    finally:
        world.close()
    return out


# ------------------------------------------------------------------ code -> spec
def _rcase(rng: random.Random, s: str) -> str:
    return "".join(c.upper() if rng.random() < 0.4 else c for c in s)


def _rand_value(rng: random.Random, fam: str, k: str):
    r = rng.random()
    if k == "method":
        if r < 0.7:
            return rng.choice([None, _rcase(rng, "lines"), _rcase(rng, "whole"), _rcase(rng, "anim"), "lines", "whole"])
        return rng.choice(["", "bogus", "block", "line", 3, True, 1.0, W.Other(), "lines "])
    if k == "z_index":
        if r < 0.75:
            b = rng.choice([0, 0, 1, -1, 2**31 - 1, -(2**31) + 1, -(2**31), 2**31, -(2**30), 2**30, 65536, -65535])
            return b + rng.choice([0, 0, 0, 1, -1, 2, -2]) if rng.random() < 0.8 else rng.randrange(-(2**32), 2**32)
        return rng.choice([True, False, 1.0, 0.0, "1", None, W.Other()])
    if k == "mix":
        if r < 0.7:
            return rng.choice([True, False])
        return rng.choice([0, 1, None, "1", "", 1.0, W.Other()])
    if k == "compress":
        if r < 0.75:
            return rng.randint(-2, 12)
        return rng.choice([True, False, 4.0, "4", None, W.Other(), 100, -(2**31)])
    return rng.choice([1, True, None, "x"])


def _rand_args(rng: random.Random, fam: str) -> list:
    names = ["method", "z_index", "mix", "compress"]
    n = rng.choice([0, 1, 1, 1, 2, 2, 3, 4])
    ks = rng.sample(names, n)
    if rng.random() < 0.1:
        ks.insert(rng.randrange(len(ks) + 1), rng.choice(["blend", "frame", "bogus", "native", "stall_native", "Method"]))
    return [{"k": k, "v": W.enc(_rand_value(rng, fam, k))} for k in ks]


def _rand_spec_args(rng: random.Random, fam: str) -> list:
    """An argument set that has a format specifier (fields in the specifier's order)."""
    args = []
    if rng.random() < 0.5:
        args.append({"k": "method", "v": W.enc(_rcase(rng, rng.choice(["lines", "whole", "anim"])))})
    if rng.random() < (0.45 if fam == "kitty" else 0.1):
        z = rng.choice([0, 0, 1, -1, 5, 2**31 - 1, -(2**31) + 1, -(2**31), 2**31, rng.randrange(-(2**32), 2**32)])
        args.append({"k": "z_index", "v": W.enc(z)})
    if rng.random() < 0.5:
        args.append({"k": "mix", "v": W.enc(rng.random() < 0.5)})
    if rng.random() < 0.5:
        args.append({"k": "compress", "v": W.enc(rng.randint(0, 9))})
    return args


def gen_ops(rng: random.Random, fam: str, length: int) -> list:
    ops = []
    for _ in range(length):
        r = rng.random()
        if r < 0.18:
            v = rng.choice([None, None, "lines", "whole", "anim", _rcase(rng, "whole"), _rcase(rng, "lines"),
                            "bogus", "", 3, True, W.Other()])
            ops.append({"r": "set", "i": rng.choice([0, 1, 1, 2]), "an": False, "args": [{"k": "method", "v": W.enc(v)}]})
        elif r < 0.58:
            ops.append({"r": "draw", "i": rng.choice([1, 1, 2]), "an": False, "args": _rand_args(rng, fam)})
        elif r < 0.64:
            ops.append({"r": "draw", "i": 2, "an": True, "args": _rand_args(rng, fam)})
        elif r < 0.80:
            ops.append({"r": "format", "i": rng.choice([1, 1, 2]), "an": False, "args": _rand_spec_args(rng, fam)})
        else:
            ops.append({"r": "check", "i": 0, "an": False, "args": _rand_args(rng, fam)})
    return ops


def record(task: dict) -> dict:
    """Run a history on the real code and record it (pool worker)."""
    fam, term, rows = task["fam"], task["term"], task["rows"]
    world = W.World(fam, term, rows, task["wseed"], task["tty"])
    try:
        init = task.get("init") or {"cm": "unset", "im": ["unset"] * W.NI}
        world.force(init["cm"], init["im"])
        ev = []
        for k, op in enumerate(task["ops"]):
            obs = world.do(op)
            pr = world.probes(not task.get("dense") or k == len(task["ops"]) - 1)
            ev.append(W.event(op, obs, pr))
    finally:
        world.close()
    t = _header(fam, term, rows, init)
    t.update(ev=ev, wseed=task["wseed"], tty=task["tty"])
    return t


# ------------------------------------------------------------------ verdicts
TRACE_KEYS = ("fam", "term", "rows", "nf", "animated", "init", "ev")


def _trace_json(t: dict) -> dict:
    return {k: t[k] for k in TRACE_KEYS}


def _scenario(t: dict, upto: int | None = None) -> dict:
    ev = t["ev"] if upto is None else t["ev"][:upto]
    return {"fam": t["fam"], "term": t["term"], "rows": t["rows"], "wseed": t.get("wseed", 0), "tty": t.get("tty", False),
            "init": t["init"], "ops": [e["op"] for e in ev]}


def _opstr(op: dict) -> str:
    tgt = "U" if op["i"] == 0 else f"image{op['i']}"
    a = W.show_args(op["args"])
    if op["r"] == "set":
        return f"{tgt}.set_render_method({W.show(op['args'][0]['v'])})"
    if op["r"] == "draw":
        return f"{tgt}.draw({'animate=True, ' if op['an'] else ''}{a})"
    if op["r"] == "format":
        return f"format({tgt}, {W.spec_text(op['args'])!r})"
    return f"U._check_style_args({{{a}}})"


def _describe(t: dict, v: dict) -> str:
    at = v["at"]
    lines = [f"clause {v['verdict']!r} at operation {at} of {len(t['ev'])}; U = subclass of the {t['fam']} style class "
             f"on terminal {t['term']!r}, image1 still, image2 animated ({t['nf']} frames), {t['rows']} rows; "
             f"start: class method {t['init']['cm']}, instance methods {t['init']['im']}"]
    for i, e in enumerate(t["ev"][max(0, at - 6):at], max(0, at - 6) + 1):
        lines.append(f"  {i}. {_opstr(e['op'])} -> {e['res']}, wrote {e['wrote']}"
                     + (f", {e['ncmd']} transmissions, z {[W.dec(z) for z in e['zs']]}, erases {e['er']}, levels {e['lv']}"
                        if e["wrote"] == "picture" else "")
                     + (f", returned {{{W.show_args(e['kept'])}}}" if e["op"]["r"] == "check" and e["res"] == "ok" else "")
                     + (f", changed {e['chg']}" if e["chg"] else ""))
    if 0 < at <= len(t["ev"]):
        for i, p in enumerate(t["ev"][at - 1]["pr"], 1):
            if p["wrote"] != "skip":
                lines.append(f"     plain draw of image{i} afterwards: {p['res']}, {p['wrote']}, {p['ncmd']} transmissions, "
                             f"z {[W.dec(z) for z in p['zs']]}, erases {p['er']}, levels {p['lv']}")
    return "\n".join(lines)


def validate(traces: list[dict], name: str, parallel: int = 4):
    if not traces:
        return [], 0, 0
    batch = max(100, -(-len(traces) // parallel))  # one JVM per worker slot: start-up dominates small batches
    return tlc.validate_traces("Trace_StyleArgs", "Trace_StyleArgs.cfg", [_trace_json(t) for t in traces],
                               batch=batch, parallel=parallel, workers=2, timeout=1500, name=name)


def report(rep: Report, traces: list[dict], validated, origin: str) -> list[dict]:
    verdicts, st, tr = validated
    rep.states += st
    rep.transitions += tr
    rep.traces_validated += len(traces)
    for t, v in zip(traces, verdicts):
        if v["verdict"].startswith("unsupported"):
            raise tlc.MachineryError(f"x10: {v['verdict']} at event {v['at']} ({origin}): "
                                     f"{json.dumps(t['ev'][v['at'] - 1]['op']) if v['at'] else t['fam']}")
        if v["verdict"] != "ok":
            sig = f"{t['fam']}:{v['route']}:{v['verdict']}"
            rep.violation(sig, f"[{origin}] " + _describe(t, v), _scenario(t, v["at"]))
    return verdicts


# ------------------------------------------------------------------ canaries
def corrupted_trace(seed: int) -> dict:
    """A one-operation history (a plain draw of the still kitty image) recorded from the real code,
    with ONE observed field (erasure) altered afterwards."""
    t = record({"fam": "kitty", "term": "kitty", "rows": 2, "wseed": seed, "tty": False,
                "ops": [{"r": "draw", "i": 1, "an": False, "args": []}]})
    c = copy.deepcopy(_trace_json(t))
    c["ev"][0]["er"] = not c["ev"][0]["er"]
    return c


# ------------------------------------------------------------------ main
def _replay(rep: Report, replay: dict) -> None:
    sc = replay["scenario"]
    if sc.get("kind") == "design":
        for cfg in ("MC_StyleArgs_quick.cfg", "MC_StyleArgs_table.cfg"):
            res = tlc.run("StyleArgs", cfg, workers=4, timeout=900)
            rep.add_tlc(res)
            if res.violated:
                rep.violation(f"design:StyleArgs:{res.violated}", res.error_text[:1500], sc)
        return
    stubs.install()
    t = record({"fam": sc["fam"], "term": sc["term"], "rows": sc["rows"], "wseed": sc.get("wseed", 0),
                "tty": sc.get("tty", False), "init": sc.get("init"), "ops": sc["ops"]})
    rep.evaluations += len(t["ev"])
    report(rep, [t], validate([t], "x10-replay", parallel=1), "replay")


def main(rep: Report, replay: dict | None) -> None:
    rep.assumptions += ASSUMPTIONS
    rep.rule = (
        "spec->code: every edge of the bounded model (one user subclass + a still and an animated instance per "
        "family; render-method states with <= MaxWeight methods set x kind of the previous call x every operation "
        "of the alphabet: boundary values per argument, combinations, three routes) replayed on real objects, the "
        "written output decoded after each step and a plain draw of every instance made afterwards; code->spec: "
        "seeded random histories; distinct_nontrivial = distinct (state, operation) edges + distinct recorded histories")
    if replay:
        _replay(rep, replay)
        return
    quick = rep.tier == "quick"
    timing = rep.extra.setdefault("timing_s", {})
    t0 = time.time()

    def lap(name):
        nonlocal t0
        timing[name] = round(time.time() - t0, 1)
        t0 = time.time()

    stubs.install()
    pool = mp.get_context("fork").Pool(POOL if quick else 8)  # forked before any thread exists
    try:
        with ThreadPoolExecutor(max_workers=4) as ex:
            f_edges = ex.submit(tlc.run, "StyleArgs",
                                "Edges_StyleArgs_quick.cfg" if quick else "Edges_StyleArgs_thorough.cfg",
                                workers=1, timeout=400 if quick else 1500, coverage=True)
            f_mc = ex.submit(tlc.run, "StyleArgs", "MC_StyleArgs_quick.cfg" if quick else "MC_StyleArgs.cfg",
                             workers=3, timeout=400 if quick else 1500, coverage=True)
            f_tab = ex.submit(tlc.run, "StyleArgs", "MC_StyleArgs_table.cfg", workers=1, timeout=300, coverage=True)

            # ---- code -> spec: record histories while TLC runs
            rng = random.Random(rep.seed * 7919 + 10)
            ntr = 160 if quick else 2000
            tasks = []
            for i in range(ntr):
                fam = ("kitty", "iterm2", "kitty", "iterm2", "block")[i % 5]
                length = rng.randint(10, 22) if quick else rng.randint(14, 40)
                tasks.append({"fam": fam, "term": rng.choice(W.TERMS[fam]), "rows": rng.choice([2, 3, 4]),
                              "wseed": rng.randrange(1 << 30), "tty": rng.random() < 0.5, "dense": rng.random() < 0.3,
                              "ops": gen_ops(rng, fam, length)})
            recorded = pool.map(record, tasks, chunksize=4)
            lap("record_histories")
            # machinery self-test: the decoding must be able to tell compression levels apart
            w0 = W.World("kitty", "kitty", 2, rep.seed + 1)
            w1 = W.World("iterm2", "wezterm", 2, rep.seed + 2)
            power = (w0.level_power(), w1.level_power())
            w0.close(), w1.close()
            if min(power) < 4:
                raise tlc.MachineryError(f"x10: the pictures do not separate compression levels {power}")
            # canary: a corrupted copy of a recorded trace must be rejected at the altered event
            canary, canary_at = corrupted_trace(rep.seed), 1
            f_hist = ex.submit(validate, recorded + [canary], "x10-c2s", 3)

            # ---- spec -> code: replay every edge
            res_e = f_edges.result()
            if res_e.violated:
                raise tlc.MachineryError(f"x10: edge dump run failed: {res_e.violated}\n{res_e.error_text[:1500]}")
            rep.add_tlc(res_e)
            require_actions(res_e, "the edge dump")
            lap("wait_edge_dump")
            g = graph.from_result(res_e)
            plain = {}
            for d in res_e.tagged("GEO"):
                if d["ni"] != W.NI or d["nf"] != W.NF or d["animated"] != [False, True] or \
                        sorted(d["terms"]) != sorted(W.TERMS[d["fam"]]):
                    raise tlc.MachineryError(f"x10: the model's geometry differs from the world's: {d}")
                plain[d["fam"]] = {json.dumps([r["cm"], r["im"]]): r["plain"] for r in d["plain"]}
            if not g.edges or set(plain) != set(W.FAMILIES):
                raise tlc.MachineryError("x10: edge dump is empty / has no GEO lines")
            g.edges.sort(key=lambda e: graph.key(e))  # TLC's order is not part of the seed
            g = graph.Graph(g.edges, res_e.tagged("INIT"))
            walks = g.walks(max_len=60)
            if g.unreachable_edges:
                raise tlc.MachineryError(f"x10: {g.unreachable_edges} dumped edges are unreachable")
            wtasks = [{"idx": i, "walk": w, "seed": rep.seed, "plain": plain[w[0]["from"]["fam"]]}
                      for i, w in enumerate(walks)]
            order = sorted(range(len(wtasks)), key=lambda i: -len(wtasks[i]["walk"]))
            lap("build_walks")
            results = [None] * len(wtasks)
            for i, r in zip(order, pool.imap(replay_walk, [wtasks[i] for i in order], chunksize=4)):
                results[i] = r
            lap("replay_walks")

            # ---- canary: a tampered edge must be noticed by the replay
            tampered = copy.deepcopy(next(t for t in wtasks if t["walk"][0]["from"]["fam"] == "kitty"))
            tampered["walk"] = tampered["walk"][:1]
            e0 = tampered["walk"][0]["op"]["exp"]
            e0["res"] = ["StyleError"] if e0["res"] == ["ok"] else ["ok"]
            if not pool.apply(replay_walk, (tampered,))["mismatches"]:
                raise tlc.MachineryError("x10: the replay did not notice a tampered edge")

            replayed = [t for r in results for t in r["traces"]]
            f_rep = ex.submit(validate, replayed, "x10-s2c", 4 if quick else 6)
            res_mc = f_mc.result()
            res_tab = f_tab.result()
            lap("wait_model_check")
            hv, hst, htr = f_hist.result()
            lap("wait_validate_histories")
            cv = hv.pop()
            if cv["verdict"] == "ok" or cv["at"] != canary_at:
                raise tlc.MachineryError(f"x10: Trace_StyleArgs accepted a corrupted trace: {cv} (altered event {canary_at})")
            rep.extra["canary"] = {"corrupted_trace_verdict": cv["verdict"], "tampered_edge": "noticed",
                                   "level_separation": power}
            rep_validated = f_rep.result()
            lap("wait_validate_replays")
    finally:
        pool.terminate()
        pool.join()

    # ---- the model itself
    for res, what in ((res_mc, "the model"), (res_tab, "the argument table")):
        rep.add_tlc(res)
        if res.violated:
            rep.violation(f"design:StyleArgs:{res.violated}",
                          f"{what} in StyleArgs.tla violates {res.violated}\n{res.error_text[:1500]}", {"kind": "design"})
    mc_cov = require_actions(res_mc, "the model-checking run")
    rep.extra["model"] = {"states": res_mc.distinct, "transitions": res_mc.generated, "depth": res_mc.depth,
                          "actions_generated": mc_cov, "wall_s": round(res_mc.wall_s, 1),
                          "table_laws": list(TABLE_LAWS), "table_states": res_tab.distinct}
    if res_tab.distinct != 3:
        raise tlc.MachineryError(f"x10: the table configuration explored {res_tab.distinct} states, expected one per family")
    rep.exhaustive = True
    rep.extra["exhaustive_space"] = (
        "per family (block, kitty, iterm2): one user subclass, a still and an animated instance; every render-method "
        f"state with at most {1 if quick else 2} methods set (model-checked: all) x kind of the previous operation x "
        "every operation of the alphabet (per-argument boundary values: method 6-13 spellings/types, z_index 14-18 "
        "values around +-2**31 and wrong types, mix 6-8, compress 10-15; undocumented names; combinations"
        + ("" if quick else "; the product of reduced alphabets") + ") through draw / format / _check_style_args; "
        "every edge replayed on the real classes")

    # ---- replay results
    steps = sum(r["steps"] for r in results)
    mism = [m for r in results for m in r["mismatches"]]
    rep.evaluations += steps + sum(len(t["ev"]) for t in recorded)
    for e in g.edges:
        rep.distinct.add(("edge", graph.key(e["from"]), graph.key(e["op"]["op"])))
    rv = report(rep, replayed, rep_validated, "spec->code replay")
    # the strict comparison against the edges and the Trace spec must tell the same story
    confirmed = 0
    base = 0
    for r in results:
        for m in r["mismatches"]:
            v = rv[base + m["trace"]]
            if v["verdict"] == "ok" or v["at"] > m["event"]:
                raise tlc.MachineryError(
                    f"x10: the replay saw a difference ({m['diff']}) at walk {m['walk']} step {m['step']} that "
                    f"Trace_StyleArgs does not confirm: {v}")
            confirmed += 1
        base += len(r["traces"])
    rep.extra["replay"] = {"edges": len(g.edges), "model_states": g.nodes, "walks": len(walks), "steps": steps,
                           "traces": len(replayed), "disagreeing_steps": len(mism), "confirmed_by_tlc": confirmed,
                           "resyncs": sum(r["resyncs"] for r in results),
                           "rejected_traces": sum(1 for v in rv if v["verdict"] != "ok")}
    lap("report_replays")

    # ---- recorded histories
    verdicts = report(rep, recorded, (hv, hst, htr), "code->spec history")
    for t in recorded:
        rep.distinct.add(("hist", t["fam"], t["term"], json.dumps([e["op"] for e in t["ev"]], sort_keys=True)))
    rep.extra["histories"] = {"recorded": len(recorded), "events": sum(v["events"] for v in verdicts),
                              "events_judged": sum(v["judged"] for v in verdicts),
                              "rejected": sum(1 for v in verdicts if v["verdict"] != "ok")}
    w0 = max(walks, key=lambda w: len({e["op"]["op"]["r"] + str(e["op"]["exp"]["res"]) for e in w[:8]}))
    rep.sample({"walk": [{"op": _opstr(e["op"]["op"]), "expected": e["op"]["exp"]["res"]} for e in w0[:6]],
                "family": w0[0]["from"]["fam"]})
    rep.sample({"history": [_opstr(e["op"]) + " -> " + e["res"] for e in recorded[0]["ev"][:6]],
                "family": recorded[0]["fam"]})
