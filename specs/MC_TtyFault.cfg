SPECIFICATION Spec
CONSTANTS
  Tmo = 3
  AllWords = FALSE
INVARIANT AttrRestored
INVARIANT Terminates
INVARIANT FaultSurfaces
INVARIANT ModeIsChanged
INVARIANT TimesOutEmpty
INVARIANT Report
CHECK_DEADLOCK FALSE
