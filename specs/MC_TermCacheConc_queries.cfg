SPECIFICATION Spec
CONSTANTS
  Prog <- PQueries
  Env <- EnvQ
  Swap0 = FALSE
  Queries0 = FALSE
  Cache0 <- CacheNone
  Variant = "code"
INVARIANT QuiescentFresh
INVARIANT LockFree
VIEW View
CHECK_DEADLOCK FALSE
ACTION_CONSTRAINT Dump
