---------------------------- MODULE MC_TtyLock ----------------------------
(* Configurations of TtyLock (C14).  One module, several .cfg files:        *)
(*   MC_TtyLock.cfg        quick, exhaustive: 2 callers (one nested) + starter, 1 child thread *)
(*   MC_TtyLock_{q,s,g}_dump.cfg  quick models with the edge dump (spec -> code replay): q as   *)
(*                         above; s = two starts by one thread (else-branch of the wrapper);   *)
(*                         g = a child starts a grandchild                                      *)
(*   MC_TtyLock_y_dump.cfg configuration: _queries_enabled TRUE / FALSE at the first start, one toggle    *)
(*   MC_TtyLock_cell.cfg   the `_cell_size_lock` instance (no nesting, no extra read), + dump   *)
(*   MC_TtyLock_d.cfg, MC_TtyLock_race.cfg   medium models (thorough)                          *)
(*   MC_TtyLock_big_dump.cfg  the big model with the edge dump, used with -simulate            *)
(*   MC_TtyLock_big.cfg    thorough: 3 callers + starter, child with 2 threads (one starts a    *)
(*                         grandchild), grandchild with 1 thread, nesting depth 2               *)
(*   MC_TtyLock_n_dump.cfg thread creation as an action + threads invisible to `threading` + "one thread so far"  *)
(*   MC_TtyLock_var_n.cfg  the n model with Variant from the environment ("fastpath")                       *)
(*   MC_TtyLock_var.cfg    seeded regressions of the model (Variant from the environment)       *)
EXTENDS TtyLock, Json, IOUtils

Call(d) == [k |-> "call", d |-> d, c |-> Nil]
Start(c) == [k |-> "start", d |-> 0, c |-> c]

\* quick: parent threads 1 (plain call), 2 (nested call), 3 (starts child 1, then calls); child thread 4
QProcOf == <<0, 0, 0, 1>>
QProg == << <<Call(1)>>, <<Call(2)>>, <<Start(1)>>, <<Call(1)>> >>

\* configuration model: queries enabled / disabled at the first start, toggled once at any moment
YProcOf == <<0, 0, 1>>
YProg == << <<Call(1)>>, <<Start(1)>>, <<Call(1)>> >>

\* replayed model: as quick; the starter also makes a call after starting
DProcOf == <<0, 0, 0, 1, 2>>
DProg == << <<Call(1)>>, <<Call(2)>>, <<Start(1), Start(2)>>, <<Call(1)>>, <<Call(1)>> >>

\* `_cell_size_lock`: get_cell_size is not re-entrant
CProcOf == <<0, 0, 1, 2>>
CProg == << <<Call(1)>>, <<Start(1), Start(2)>>, <<Call(1)>>, <<Call(1)>> >>

\* thorough
BProcOf == <<0, 0, 0, 0, 1, 1, 2>>
BProg == << <<Call(1)>>, <<Call(2)>>, <<Call(1)>>, <<Start(1), Call(1)>>,
            <<Call(2)>>, <<Start(2)>>, <<Call(1)>> >>

\* two starters racing in one process, one grandchild (medium, exhaustive in the thorough tier)
RProcOf == <<0, 0, 0, 1, 2>>
RProg == << <<Call(1)>>, <<Start(1)>>, <<Start(2), Call(1)>>, <<Call(1)>>, <<Call(1)>> >>

\* second start in one process (else-branch of the start wrapper), two children
SProcOf == <<0, 0, 1, 2>>
SProg == << <<Call(1)>>, <<Start(1), Start(2)>>, <<Call(1)>>, <<Call(1)>> >>

\* a child starts a grandchild
GProcOf == <<0, 0, 1, 2>>
GProg == << <<Call(1)>>, <<Start(1)>>, <<Start(2), Call(1)>>, <<Call(1)>> >>

\* thread population: in every configuration above all threads exist from the start and come from `threading`
NoCreator == [t \in 1..NT |-> 0]
AllThreading == [t \in 1..NT |-> "threading"]

\* newcomer model (n): the root starts with ONE thread known to `threading` (1: call, then starts child 1); thread 2 is
\* created by thread 1 at any moment (inside its call, inside the start wrapper, ...); thread 3 exists from the start but
\* was not created through `threading` (invisible to threading.active_count()); 4 = the child's main thread
NProcOf == <<0, 0, 0, 1>>
NProg == << <<Call(1), Start(1)>>, <<Call(1)>>, <<Call(1)>>, <<Call(1)>> >>
NCreator == <<0, 1, 0, 0>>
NKind == <<"threading", "threading", "raw", "threading">>

EnvVariant == IF "VARIANT" \in DOMAIN IOEnv THEN IOEnv.VARIANT ELSE "code"

ASSUME PrintT(<<"CONFIG", ToJson([np |-> NP, nt |-> NT, procOf |-> ProcOf, prog |-> Prog, copyStep |-> CopyStep,
                                     creator |-> Creator, kind |-> Kind])>>)

Dump ==
  PrintT(<<"EDGE", ToJson([from |-> View, to |-> View',
                          op |-> [t |-> out'.t, act |-> out'.act, req |-> out'.req, got |-> out'.got,
                                  incs |-> InBodySet', blk |-> BlockedSet', ok |-> ownok']])>>)
=============================================================================
