---------------------------------- MODULE VT ----------------------------------
(***************************************************************************)
(* Parser rules the output lexer (harness/lexer.py) must follow: a VT500-    *)
(* series escape-sequence parser over BYTE CLASSES, with the conservative    *)
(* reading of string-type sequences that the library's own documentation     *)
(* describes (a terminal keeps consuming output until ST is written).        *)
(*                                                                         *)
(* States: ground, esc, scs (charset designation awaiting its final byte),  *)
(*         csi, str (OSC/APC/DCS body), stresc (ESC seen inside a string).   *)
(* Classes: ESC, C0 (executable control), CAN (CAN/SUB), BEL, LB "[", RB "]",*)
(*   US "_", DP "P", BSL "\", PAR (0x30-0x3F), INT (0x20-0x2F, here "("),    *)
(*   FIN (0x40-0x7E dispatchable in both esc and csi, here "D"), PR (other   *)
(*   printable, non-ASCII).                                                  *)
(* Rules:                                                                   *)
(*   ground: ESC -> esc; C0/BEL execute; CAN ignored... everything else prints*)
(*   esc:    LB -> csi; RB/US/DP -> str(osc/apc/dcs); BSL -> lone ST;         *)
(*           INT -> scs; ESC -> esc; CAN -> ground; C0/BEL execute;           *)
(*           FIN -> esc-dispatch; PAR/PR -> bad sequence, ground              *)
(*   csi:    PAR/INT collect; FIN/LB/RB/US/DP/BSL (all 0x40-0x7E) dispatch;   *)
(*           C0/BEL execute and stay; ESC aborts -> esc; CAN aborts -> ground;*)
(*           PR -> bad, ground                                                *)
(*   str:    ESC -> stresc; BEL terminates an OSC (only); all else collected  *)
(*   stresc: BSL terminates (ST); ESC stays; anything else -> back to str     *)
(* The lexer is replayed on every class string TLC enumerates (MC_VT) and    *)
(* its event sequence and end state must equal the spec's.                   *)
(***************************************************************************)
EXTENDS Naturals, Sequences, TLC, Json

Classes == {"ESC", "C0", "CAN", "BEL", "LB", "RB", "US", "DP", "BSL", "PAR", "INT", "FIN", "PR"}
Final7 == {"FIN", "LB", "RB", "US", "DP", "BSL"}      \* bytes 0x40-0x7E

\* Step(<<state, strkind>>, class) = <<state', strkind', events>>
Step(st, k, c) ==
  CASE st = "ground" ->
         CASE c = "ESC" -> <<"esc", "", <<>>>>
           [] c \in {"C0", "BEL"} -> <<"ground", "", <<"exec">>>>
           [] c = "CAN" -> <<"ground", "", <<"exec">>>>
           [] OTHER -> <<"ground", "", <<"print">>>>
    [] st = "esc" ->
         CASE c = "LB" -> <<"csi", "", <<>>>>
           [] c = "RB" -> <<"str", "osc", <<>>>>
           [] c = "US" -> <<"str", "apc", <<>>>>
           [] c = "DP" -> <<"str", "dcs", <<>>>>
           [] c = "BSL" -> <<"ground", "", <<"st">>>>
           [] c = "INT" -> <<"scs", "", <<>>>>
           [] c = "ESC" -> <<"esc", "", <<>>>>
           [] c = "CAN" -> <<"ground", "", <<>>>>
           [] c \in {"C0", "BEL"} -> <<"esc", "", <<"exec">>>>
           [] c = "FIN" -> <<"ground", "", <<"escd">>>>
           [] OTHER -> <<"ground", "", <<"bad">>>>
    [] st = "scs" -> <<"ground", "", <<"scs">>>>
    [] st = "csi" ->
         CASE c \in {"PAR", "INT"} -> <<"csi", "", <<>>>>
           [] c \in Final7 -> <<"ground", "", <<"csid">>>>
           [] c \in {"C0", "BEL"} -> <<"csi", "", <<"exec">>>>
           [] c = "ESC" -> <<"esc", "", <<"abort">>>>
           [] c = "CAN" -> <<"ground", "", <<"abort">>>>
           [] OTHER -> <<"ground", "", <<"bad">>>>
    [] st = "str" ->
         CASE c = "ESC" -> <<"stresc", k, <<>>>>
           [] c = "BEL" /\ k = "osc" -> <<"ground", "", <<"strend">>>>
           [] OTHER -> <<"str", k, <<>>>>
    [] st = "stresc" ->
         CASE c = "BSL" -> <<"ground", "", <<"strend">>>>
           [] c = "ESC" -> <<"stresc", k, <<>>>>
           [] OTHER -> <<"str", k, <<>>>>

\* A string can only be ended by ST / BEL(osc): whatever else follows is swallowed
StringOnlyEndsAtST(st, k, c) ==
  st \in {"str", "stresc"} =>
    LET r == Step(st, k, c) IN
      (r[1] = "ground") => (st = "stresc" /\ c = "BSL") \/ (st = "str" /\ c = "BEL" /\ k = "osc")
=============================================================================
