--------------------------- MODULE ImageIterCore ---------------------------
(***************************************************************************)
(* C11 (and the image-iterator clause of C09): functional core.             *)
(*                                                                          *)
(* One image object (source kind path / PIL / URL, animated or not), the    *)
(* open file handles the LIBRARY owns, one ImageIterator, the terminal size *)
(* (only its effect on a dynamic image size matters) and the operations of  *)
(* the old image API: format / str / draw / iteration / seek / close /      *)
(* construction from a URL, each optionally with ONE injected failure at an *)
(* image-processing step.                                                   *)
(*                                                                          *)
(*   Enabled(s, a)   is operation a part of the modelled histories in s     *)
(*   Apply(s, a)     [st |-> state after, out |-> what the caller observes] *)
(*                                                                          *)
(* A rendered frame is abstracted to Frame(i, spec, rs): frame number,      *)
(* format specifier, rendered size.  `format(image, spec)` at frame i is BY *)
(* DEFINITION Frame(i, spec, RSize(s)); the iterator is modelled the way    *)
(* ImageIterator._animate works (frame counter n, repeat countdown, the     *)
(* two-phase cache keyed by rendered size) and the properties compare what  *)
(* it yields with that definition.                                          *)
(*                                                                          *)
(* Handles: every file the library opens gets the lowest free id (like a    *)
(* descriptor) and an owner: "iter" (kept by a live iterator) or "call"     *)
(* (opened by the running call).  States are quiescent (between calls), so  *)
(* "call" handles must never appear in a state.                             *)
(***************************************************************************)
EXTENDS Integers, Sequences, FiniteSets, TLC

CONSTANT N                  \* frame count of the animated fixture

Specs == {"s1", "s2"}       \* two format specifiers (s1 is what str()/draw() use)
DefaultSpec == "s1"
Sizes == {"A", "B", "dyn"}  \* image size setting: two fixed sizes, one dynamic
Terms == {1, 2}             \* two terminal sizes (change the dynamic rendered size)
Steps == {"open", "seek", "convert", "resize", "composite", "encode"}
AnyStep == "step"           \* "some processing step other than open" (replay instances)
Kinds == {"path", "pil", "url"}
Live == {"fresh", "p1", "p2"}   \* iterator phases in which it holds the image

FileBacked(s) == s.kind \in {"path", "url"}
RSize(s) == IF s.size = "dyn" THEN (IF s.term = 1 THEN "d1" ELSE "d2") ELSE s.size
Frame(i, sp, rs) == [i |-> i, spec |-> sp, rs |-> rs]
NoFrame == [i |-> -1, spec |-> "", rs |-> ""]
Tell(s) == IF s.anim THEN s.tell ELSE 0

NoIter ==
  [ph |-> "none", n |-> 0, rep |-> 0, rep0 |-> 0, cached |-> FALSE,
   cache |-> [k \in 1..N |-> ""], spec |-> "", lastY |-> -1, seekTo |-> -1, passes |-> 0]

NoImage(term) ==
  [kind |-> "none", anim |-> FALSE, closed |-> FALSE, tell |-> 0, size |-> "dyn",
   term |-> term, temp |-> FALSE, callerOpen |-> FALSE, handles |-> {}, it |-> NoIter,
   faulted |-> FALSE, peer |-> "none", peerVar |-> ""]

Opened(term, kind, anim, size) ==
  [NoImage(term) EXCEPT !.kind = kind, !.anim = anim, !.size = size,
                        !.temp = (kind = "url"), !.callerOpen = (kind = "pil")]

(* ---- handles ---- *)
FreeId(H) == CHOOSE i \in 0..Cardinality(H) : \A h \in H : h.id # i
OpenH(H, owner) == H \cup {[id |-> FreeId(H), owner |-> owner]}
CloseOwner(H, owner) == {h \in H : h.owner # owner}
CountOwner(H, owner) == Cardinality({h \in H : h.owner = owner})

(* ---- actions are records with a fixed set of fields ---- *)
Act(op) ==
  [op |-> op, kind |-> "", anim |-> FALSE, outcome |-> "", spec |-> "", rep |-> 0,
   cached |-> FALSE, pos |-> 0, size |-> "", term |-> 0, animated |-> FALSE,
   fault |-> "none", during |-> "", pvar |-> ""]

Out(s, a, res, frame, rendered, gcMax, exhausted, nframes) ==
  [a |-> a, res |-> res, frame |-> frame, rendered |-> rendered, gcMax |-> gcMax,
   exhausted |-> exhausted, nframes |-> nframes,
   preTell |-> s.tell, preLastY |-> s.it.lastY, preSeekTo |-> s.it.seekTo]

R(s, a, st, res, frame, rendered, gcMax, exhausted, nframes) ==
  [st |-> st, out |-> Out(s, a, res, frame, rendered, gcMax, exhausted, nframes)]

Rejected(s, a, res) == R(s, a, s, res, NoFrame, FALSE, 0, FALSE, 0)

(* A failure may be injected once per history, into an open, unfinalized     *)
(* image; "open" needs a file to open, "seek" an animated image.             *)
FaultOK(s, a) ==
  \/ a.fault = "none"
  \/ /\ a.fault \in Steps \cup {AnyStep}
     /\ ~s.faulted /\ ~s.closed
     /\ (a.fault = "open" => FileBacked(s))
     /\ (a.fault = "seek" => s.anim)

GcIfFile(s) == IF FileBacked(s) THEN 1 ELSE 0

(* ------------------------------ construction ----------------------------- *)
Outcomes(kind) ==
  IF kind = "url" THEN {"ok", "404", "notImage", "ctorFails"} ELSE {"ok", "ctorFails"}

EnOpen(s, a) ==
  /\ s.kind = "none"
  /\ a.kind \in Kinds /\ a.size \in {"A", "dyn"} /\ a.outcome \in Outcomes(a.kind)
  /\ \/ a.fault = "none"
     \/ a.fault = "open" /\ a.kind = "path" /\ a.outcome = "ok" /\ ~s.faulted

(* A caller-supplied PIL image that was left over from a failed construction  *)
(* is the caller's: it is disposed of (by the caller) before the next attempt. *)
ApOpen(s, a) ==
  LET s0 == [s EXCEPT !.callerOpen = FALSE] IN
  IF a.fault # "none" THEN
    R(s, a, [s0 EXCEPT !.faulted = TRUE], "fault", NoFrame, FALSE, 0, FALSE, 0)
  ELSE IF a.outcome = "404" THEN R(s, a, s0, "URLNotFoundError", NoFrame, FALSE, 0, FALSE, 0)
  ELSE IF a.outcome = "notImage" THEN
    R(s, a, s0, "UnidentifiedImageError", NoFrame, FALSE, 0, FALSE, 0)
  ELSE IF a.outcome = "ctorFails" THEN
    \* a caller-supplied PIL image stays open (and the caller keeps it)
    R(s, a, [s0 EXCEPT !.callerOpen = (a.kind = "pil")], "ValueError", NoFrame, FALSE, 0,
      FALSE, 0)
  ELSE
    R(s, a,
      [Opened(s.term, a.kind, a.anim, a.size) EXCEPT !.faulted = s.faulted, !.peer = s.peer,
                                                     !.peerVar = s.peerVar],
      "ok", NoFrame, FALSE, 0, FALSE, 0)

(* ------------------------------ format / str ----------------------------- *)
EnFormat(s, a) ==
  /\ s.kind # "none"
  /\ (IF a.op = "format" THEN a.spec \in Specs ELSE a.spec = "")
  /\ FaultOK(s, a)
  /\ (~s.closed => s.tell # -1)

ApFormat(s, a) ==
  LET sp == IF a.op = "format" THEN a.spec ELSE DefaultSpec IN
  IF s.closed THEN Rejected(s, a, "TermImageError")
  ELSE IF a.fault = "none" THEN
    R(s, a, s, "ok", Frame(Tell(s), sp, RSize(s)), TRUE, 0, FALSE, 0)
  ELSE
    \* the failing call may leave its file to the garbage collector (quiescence reading)
    R(s, a, [s EXCEPT !.faulted = TRUE], "fault", NoFrame, FALSE,
      IF a.fault = "open" THEN 0 ELSE GcIfFile(s), FALSE, 0)

(* ---------------------------------- draw --------------------------------- *)
(* `during`: while the animation is running (between two frames) the USER sets  *)
(* another size.  Modelled for a FIXED size on entry: a dynamic size is pinned   *)
(* by the library for the duration of a render and put back at its end.         *)
DuringOK(s, a) ==
  \/ a.during = ""
  \/ /\ a.during \in Sizes \ {s.size}
     /\ a.animated /\ s.anim /\ ~s.closed /\ s.size # "dyn" /\ a.fault = "none"

EnDraw(s, a) ==
  /\ s.kind # "none"
  /\ FaultOK(s, a)
  /\ DuringOK(s, a)
  /\ (IF a.animated THEN a.rep \in {1, 2} ELSE a.rep = 0 /\ ~a.cached)
  /\ (~s.closed /\ ~(a.animated /\ s.anim) => s.tell # -1)

ApDraw(s, a) ==
  LET animation == a.animated /\ s.anim IN
  IF s.closed THEN Rejected(s, a, "TermImageError")
  ELSE IF a.fault # "none" THEN
    R(s, a, [s EXCEPT !.faulted = TRUE], "fault", NoFrame, FALSE,
      IF a.fault = "open" /\ ~animation THEN 0 ELSE GcIfFile(s), FALSE, 0)
  ELSE IF animation THEN
    \* the image's frame is put back; the draw's own files are closed.  One file may be
    \* left to the collector: the iterator's constructor opens a second copy that is
    \* replaced before use (tolerated, see notes/C11.md W1)
    \* afterwards the size setting is what the user set last, not what it was on entry
    R(s, a, IF a.during = "" THEN s ELSE [s EXCEPT !.size = a.during],
      "ok", NoFrame, TRUE, GcIfFile(s), FALSE, a.rep * N)
  ELSE
    R(s, a, s, "ok", Frame(Tell(s), DefaultSpec, RSize(s)), TRUE, 0, FALSE, 1)

(* ------------------------------ new iterator ----------------------------- *)
EnIter(s, a, repeats) ==
  /\ s.kind # "none"
  /\ s.it.ph \in {"none", "closed"}
  /\ a.rep \in repeats /\ a.spec \in Specs
  /\ \/ a.fault = "none"
     \/ a.fault = "open" /\ ~s.faulted /\ ~s.closed /\ FileBacked(s) /\ s.anim

ApIter(s, a) ==
  IF ~s.anim THEN Rejected(s, a, "ValueError")
  ELSE IF s.closed THEN Rejected(s, a, "TermImageError")
  ELSE IF a.fault # "none" THEN
    R(s, a, [s EXCEPT !.faulted = TRUE], "fault", NoFrame, FALSE, 0, FALSE, 0)
  ELSE
    LET it == [NoIter EXCEPT !.ph = "fresh", !.rep = a.rep, !.rep0 = a.rep,
                              !.cached = (a.rep # 1 /\ a.cached), !.spec = a.spec] IN
    R(s, a,
      [s EXCEPT !.it = it,
                !.handles = IF FileBacked(s) THEN OpenH(@, "iter") ELSE @],
      "ok", NoFrame, FALSE, 0, FALSE, 0)

(* ---------------------------------- next --------------------------------- *)
(* ImageIterator._animate: n is the frame to render next; reaching n = N is  *)
(* the end of a pass (the EOFError probe): the image goes back to frame 0,   *)
(* a finite countdown decreases, a cached iterator enters phase 2.           *)
AtEnd(it) == it.n = N
Rep1(it) == IF AtEnd(it) /\ it.rep > 0 THEN it.rep - 1 ELSE it.rep
Exhausts(it) == AtEnd(it) /\ Rep1(it) = 0
Ph1(it) == IF it.ph = "fresh" THEN "p1"
           ELSE IF AtEnd(it) /\ it.cached THEN "p2" ELSE it.ph
N1(it) == IF AtEnd(it) THEN 0 ELSE it.n
Hit(s) == Ph1(s.it) = "p2" /\ s.it.cache[N1(s.it) + 1] = RSize(s)
WillRender(s) == s.it.ph \in Live /\ ~Exhausts(s.it) /\ ~Hit(s)

EnNext(s, a) ==
  /\ s.it.ph # "none"
  /\ (s.it.ph \in Live => ~s.closed)
  /\ \/ a.fault = "none"
     \/ a.fault \in ((Steps \cup {AnyStep}) \ {"open"}) /\ ~s.faulted /\ WillRender(s)
     \* on exhaustion the caller's own PIL image is sought back to frame 0: that seek can fail
     \/ a.fault = "seek" /\ ~s.faulted /\ s.it.ph \in Live /\ Exhausts(s.it) /\ s.kind = "pil"

ApNext(s, a) ==
  LET it == s.it IN
  IF it.ph = "closed" THEN R(s, a, s, "stop", NoFrame, FALSE, 0, FALSE, 0)
  ELSE IF Exhausts(it) /\ a.fault # "none" THEN
    R(s, a,
      [s EXCEPT !.tell = -1, !.handles = CloseOwner(@, "iter"), !.faulted = TRUE,
                !.it = [it EXCEPT !.ph = "closed", !.rep = 0, !.n = 0,
                                  !.passes = @ + 1, !.seekTo = -1]],
      "fault", NoFrame, FALSE, 0, FALSE, 0)
  ELSE IF Exhausts(it) THEN
    R(s, a,
      [s EXCEPT !.tell = 0, !.handles = CloseOwner(@, "iter"),
                !.it = [it EXCEPT !.ph = "closed", !.rep = 0, !.n = 0,
                                  !.passes = @ + 1, !.seekTo = -1]],
      "stop", NoFrame, FALSE, 0, TRUE, 0)
  ELSE IF a.fault # "none" THEN
    \* the iterator closes itself; the frame the image is left at is unspecified
    R(s, a,
      [s EXCEPT !.tell = -1, !.handles = CloseOwner(@, "iter"), !.faulted = TRUE,
                !.it = [it EXCEPT !.ph = "closed"]],
      "fault", NoFrame, FALSE, 0, FALSE, 0)
  ELSE
    LET n1 == N1(it)
        rs == RSize(s)
        hit == Hit(s)
        frame == IF hit THEN Frame(n1, it.spec, it.cache[n1 + 1])   \* the stored render
                 ELSE Frame(n1, it.spec, rs)
        cache1 == IF it.cached /\ ~hit THEN [it.cache EXCEPT ![n1 + 1] = rs] ELSE it.cache
    IN
    R(s, a,
      [s EXCEPT !.tell = n1,
                !.it = [it EXCEPT !.ph = Ph1(it), !.n = n1 + 1, !.rep = Rep1(it),
                                  !.cache = cache1, !.lastY = n1, !.seekTo = -1,
                                  !.passes = IF AtEnd(it) THEN @ + 1 ELSE @]],
      "frame", frame, ~hit, 0, FALSE, 0)

(* ------------------------------ iterator seek ---------------------------- *)
EnIterSeek(s, a) == s.it.ph # "none" /\ ~s.closed /\ a.pos \in 0..N /\ a.fault = "none"

ApIterSeek(s, a) ==
  IF a.pos = N THEN Rejected(s, a, "ValueError")
  ELSE IF s.it.ph \in {"fresh", "closed"} THEN Rejected(s, a, "TermImageError")
  ELSE R(s, a, [s EXCEPT !.it.n = a.pos, !.it.seekTo = a.pos], "ok", NoFrame, FALSE, 0,
         FALSE, 0)

(* ------------------------------- image seek ------------------------------ *)
EnImageSeek(s, a) == s.kind # "none" /\ ~s.closed /\ a.pos \in 0..N /\ a.fault = "none"

ApImageSeek(s, a) ==
  IF a.pos >= (IF s.anim THEN N ELSE 1) THEN Rejected(s, a, "ValueError")
  ELSE R(s, a, [s EXCEPT !.tell = IF s.anim THEN a.pos ELSE 0], "ok", NoFrame, FALSE, 0,
         FALSE, 0)

EnNFrames(s, a) == s.kind # "none" /\ ~s.closed /\ a.fault = "none"
ApNFrames(s, a) == R(s, a, s, "ok", NoFrame, FALSE, 0, FALSE, IF s.anim THEN N ELSE 1)

(* ------------------------------ size / terminal -------------------------- *)
EnSetSize(s, a) == s.kind # "none" /\ ~s.closed /\ a.size \in Sizes /\ a.fault = "none"
ApSetSize(s, a) == R(s, a, [s EXCEPT !.size = a.size], "ok", NoFrame, FALSE, 0, FALSE, 0)

EnResize(s, a) == a.term \in Terms /\ a.term # s.term /\ a.fault = "none"
ApResize(s, a) == R(s, a, [s EXCEPT !.term = a.term], "ok", NoFrame, FALSE, 0, FALSE, 0)

(* --------------------------------- closing ------------------------------- *)
EnCloseIter(s, a) == s.it.ph # "none" /\ a.fault = "none"

ApCloseIter(s, a) ==
  LET st == [s EXCEPT !.handles = CloseOwner(@, "iter"),
                      !.it = IF a.op = "dropiter" THEN NoIter ELSE [@ EXCEPT !.ph = "closed"]]
  IN
  \* an iterator that never started only holds its file through the suspended
  \* generator: nothing to close explicitly (tolerated, notes/C11.md W2)
  R(s, a, st, "ok", NoFrame, FALSE, IF s.it.ph = "fresh" THEN GcIfFile(s) ELSE 0, FALSE, 0)

EnCloseImage(s, a) == s.kind # "none" /\ a.fault = "none"
ApCloseImage(s, a) ==
  R(s, a, [s EXCEPT !.closed = TRUE, !.temp = FALSE], "ok", NoFrame, FALSE, 0, FALSE, 0)

\* an iterator object (even a closed one) keeps the image alive
EnDropImage(s, a) == s.kind # "none" /\ s.it.ph = "none" /\ a.fault = "none"
ApDropImage(s, a) ==
  R(s, a, [NoImage(s.term) EXCEPT !.faulted = s.faulted, !.peer = s.peer, !.peerVar = s.peerVar],
    "ok", NoFrame, FALSE, 0, FALSE, 0)

(* ----------------------- a second URL image (the peer) ------------------- *)
(* Alive at the same time as a URL-sourced image, from a URL with the SAME   *)
(* last path component: the very same URL ("same") or another path with       *)
(* other content ("other").  Each image has its own private temporary copy:   *)
(* the peer is a fixed-size image whose format() shows ITS content, whatever  *)
(* happens to the first image, and vice versa.                                *)
PeerVariants == {"same", "other"}
PeerOps == {"peeropen", "peerformat", "peerclose", "peerdrop"}
PeerSize == "A"
EnPeer(s, a) ==
  /\ a.fault = "none"
  /\ IF a.op = "peeropen" THEN s.kind = "url" /\ s.peer = "none" /\ a.pvar \in PeerVariants
     ELSE s.peer # "none"
ApPeer(s, a) ==
  CASE a.op = "peeropen" ->
         R(s, a, [s EXCEPT !.peer = "open", !.peerVar = a.pvar], "ok", NoFrame, FALSE, 0, FALSE, 0)
    [] a.op = "peerformat" ->
         IF s.peer = "closed" THEN Rejected(s, a, "TermImageError")
         ELSE R(s, a, s, "ok", Frame(0, DefaultSpec, PeerSize), TRUE, 0, FALSE, 0)
    [] a.op = "peerclose" ->
         R(s, a, [s EXCEPT !.peer = "closed"], "ok", NoFrame, FALSE, 0, FALSE, 0)
    [] a.op = "peerdrop" ->
         R(s, a, [s EXCEPT !.peer = "none", !.peerVar = ""], "ok", NoFrame, FALSE, 0, FALSE, 0)
(* number of temporary files: one per OPEN URL image *)
TempCount(s) == (IF s.temp THEN 1 ELSE 0) + (IF s.peer = "open" THEN 1 ELSE 0)

(* --------------------------------- dispatch ------------------------------ *)
Ops == {"open", "format", "str", "draw", "iter", "next", "iterseek", "imageseek",
        "nframes", "setsize", "resize", "closeiter", "dropiter", "closeimage", "dropimage",
        "peeropen", "peerformat", "peerclose", "peerdrop"}

Enabled(s, a, repeats) ==
  CASE a.op = "open" -> EnOpen(s, a)
    [] a.op \in {"format", "str"} -> EnFormat(s, a)
    [] a.op = "draw" -> EnDraw(s, a)
    [] a.op = "iter" -> EnIter(s, a, repeats)
    [] a.op = "next" -> EnNext(s, a)
    [] a.op = "iterseek" -> EnIterSeek(s, a)
    [] a.op = "imageseek" -> EnImageSeek(s, a)
    [] a.op = "nframes" -> EnNFrames(s, a)
    [] a.op = "setsize" -> EnSetSize(s, a)
    [] a.op = "resize" -> EnResize(s, a)
    [] a.op \in {"closeiter", "dropiter"} -> EnCloseIter(s, a)
    [] a.op = "closeimage" -> EnCloseImage(s, a)
    [] a.op = "dropimage" -> EnDropImage(s, a)
    [] a.op \in PeerOps -> EnPeer(s, a)
    [] OTHER -> FALSE

Apply(s, a) ==
  CASE a.op = "open" -> ApOpen(s, a)
    [] a.op \in {"format", "str"} -> ApFormat(s, a)
    [] a.op = "draw" -> ApDraw(s, a)
    [] a.op = "iter" -> ApIter(s, a)
    [] a.op = "next" -> ApNext(s, a)
    [] a.op = "iterseek" -> ApIterSeek(s, a)
    [] a.op = "imageseek" -> ApImageSeek(s, a)
    [] a.op = "nframes" -> ApNFrames(s, a)
    [] a.op = "setsize" -> ApSetSize(s, a)
    [] a.op = "resize" -> ApResize(s, a)
    [] a.op \in {"closeiter", "dropiter"} -> ApCloseIter(s, a)
    [] a.op = "closeimage" -> ApCloseImage(s, a)
    [] a.op = "dropimage" -> ApDropImage(s, a)
    [] a.op \in PeerOps -> ApPeer(s, a)

(* ------------------------- properties (state / step) --------------------- *)
(* P1  no library-owned file is open between calls unless a live iterator    *)
(*     owns it (and then exactly one).                                       *)
HandlesOK(s) ==
  /\ CountOwner(s.handles, "call") = 0
  /\ CountOwner(s.handles, "iter") =
       IF s.it.ph \in Live /\ FileBacked(s) THEN 1 ELSE 0
(* P2  the caller's PIL image is never closed.                               *)
CallerOK(s) == s.kind = "pil" => s.callerOpen
(* P3  the temporary copy exists exactly while a URL image is open.          *)
TempOK(s) == s.temp <=> (s.kind = "url" /\ ~s.closed)
(* P4  a yielded frame IS format(image, spec) of that frame at the current   *)
(*     rendered size, cached or not (CacheInvisible).                        *)
FrameOK(s, o) ==
  o.a.op = "next" /\ o.res = "frame" => o.frame = Frame(o.frame.i, s.it.spec, RSize(s))
(* P5  frames come in order 0..N-1 within a pass, or are the seek target.    *)
OrderOK(s, o) ==
  o.a.op = "next" /\ o.res = "frame" =>
    o.frame.i = IF o.preSeekTo # -1 THEN o.preSeekTo ELSE (o.preLastY + 1) % N
(* P6  tell = last yielded frame; 0 after exhaustion.                        *)
TellOK(s, o) ==
  /\ (o.a.op = "next" /\ o.res = "frame" => s.tell = o.frame.i)
  /\ (o.a.op = "next" /\ o.exhausted => s.tell = 0)
(* P7  exactly `repeat` passes.                                              *)
RepeatOK(s, o) ==
  /\ (o.a.op = "next" /\ o.exhausted => s.it.passes = s.it.rep0)
  /\ (o.a.op = "next" /\ o.res = "frame" /\ s.it.rep0 > 0 => s.it.passes < s.it.rep0)
=============================================================================
