------------------------- MODULE Trace_AttrDispatch -------------------------
(***************************************************************************)
(* X07: code -> spec.  Each trace is one history of operations executed on   *)
(* REAL probe classes built with term_image.utils' descriptors (a fresh tree *)
(* of classes and instances per trace), recorded with the result of every    *)
(* operation (exception class, message, returned value, the log of the       *)
(* probe functions that ran and what they were bound to) and, after EVERY     *)
(* operation, what is stored at every class / instance and what every class / *)
(* instance shows for every property.                                        *)
(*                                                                         *)
(*   trace = [w, mro, init, ev]     w: world (AttrDispatchCore), mro: the     *)
(*           real `__mro__` of every class, init: stored values at the start  *)
(*   event = [op, r, obs, h]        op = [k, p, n, a];                        *)
(*           r = [res, msg, val, log, cls]; obs = [own, eff, lv];             *)
(*           h = [arg, tname, vrepr, extra] (direct helper calls, else "")    *)
(*                                                                         *)
(* Steps are total: S' = Apply(S, op) whatever was observed; the verdict      *)
(* names the first failing clause and the event index.                        *)
(***************************************************************************)
EXTENDS AttrDispatchCore, TLC, Json, IOUtils

Traces == JsonDeserialize(IOEnv.TRACE_FILE)

VARIABLES tid, l, S, mt, verdict, at
vars == <<tid, l, S, mt, verdict, at>>

Tr == Traces[tid]
W == Tr.w
NE == Len(Tr.ev)

WFTrace(tr) ==
  /\ WellFormedWorld(tr.w)
  /\ \A k \in StoredKinds : /\ Len(tr.init[k]) = Len(tr.w.cls)
                            /\ \A n \in 1..Len(tr.w.cls) : tr.init[k][n] \in {Unset} \cup Vals
  /\ \A n \in (tr.w.nc + 1)..Len(tr.w.cls) : tr.init["cp"][n] = Unset

WFEvent(e) ==
  /\ e.op.k \in {"get", "set", "del", "call", "look", "static", "err"}
  /\ e.op.n \in Nodes(W)
  /\ e.op.k \in {"get", "set", "del"} => e.op.p \in {"cip", "cp", "ro"}
  /\ e.op.k = "get" => e.op.a = 0
  /\ e.op.k \in {"call", "look"} => e.op.p = "m"
  /\ e.op.k = "err" => e.op.p \in Helpers /\ (e.op.a = 1) = (e.h.extra # "")
  /\ \A k \in StoredKinds : Len(e.obs.own[k]) = N(W)
  /\ \A k \in Kinds : Len(e.obs.eff[k]) = N(W)
  /\ Len(e.obs.lv) = N(W)

\* a falsy instance treated as "no instance": the class variant, bound to its class
FalsyLv(n) == "cls@" \o ToString(W.cls[n])
FalsyExplainsObs(e, S2) ==
  LET bad == {n \in Nodes(W) : e.obs.lv[n] # Level(W, n) \/ e.obs.eff["m"][n] # Eff(W, mt, S2, "m", n)} IN
  /\ bad # {}
  /\ \A n \in bad : /\ ~IsClass(W, n) /\ W.falsy[n]
                    /\ e.obs.lv[n] = FalsyLv(n)
                    /\ e.obs.eff["m"][n] = Eff(W, mt, S2, "m", W.cls[n])
  /\ \A k \in Kinds \ {"m"}, n \in Nodes(W) : e.obs.eff[k][n] = Eff(W, mt, S2, k, n)

ExpLog(op) == IF op.k = "call" THEN CallLog(W, mt, op.n) ELSE IF op.k = "look" THEN LookLog(W, op.n) ELSE <<>>

LogClause(e) ==
  LET op == e.op
      lg == e.r.log
      exp == ExpLog(op) IN
  IF ~IsClass(W, op.n) /\ W.falsy[op.n]
     /\ lg = (IF op.k = "call" THEN AsClassLog(W, mt, op.n) ELSE LookLog(W, W.cls[op.n]))
  THEN "falsy-instance-dispatched-as-class"
  ELSE IF lg = <<>> THEN "no-registered-variant-ran"
  ELSE IF \E i \in 1..Len(lg) : lg[i].lvl # Level(W, op.n) THEN
         (IF IsClass(W, op.n) THEN "instance-variant-ran-for-class-invocation"
          ELSE "class-variant-ran-for-instance-invocation")
  ELSE IF \E i \in 1..Len(lg) : lg[i].r # op.n THEN "bound-to-wrong-receiver"
  ELSE IF lg[1].d # exp[1].d THEN "registered-variant-not-the-one-dispatched"
  ELSE "super-chain-does-not-follow-mro"

Clause(e, S1, S2) ==
  LET op == e.op
      exp == Res(W, op)
      kd == IF op.k \in {"call", "look"} THEN "m" ELSE op.p
      stored == kd \in StoredKinds /\ op.k \in {"set", "del", "call"}
      ownBad == {<<k, n>> \in StoredKinds \X Nodes(W) : e.obs.own[k][n] # S2[k][n]}
      effBad == {<<k, n>> \in Kinds \X Nodes(W) : e.obs.eff[k][n] # Eff(W, mt, S2, k, n)}
      lvBad == {n \in Nodes(W) : e.obs.lv[n] # Level(W, n)}
  IN
  IF ~WFEvent(e) THEN "trace-malformed"
  ELSE IF op.k = "err" /\ e.r.cls # ErrClass(op.p) THEN "wrong-exception-class"
  ELSE IF op.k = "err" /\ e.r.msg # ErrMsg(op.p, e.h.arg, e.h.tname, e.h.vrepr, e.h.extra) THEN "wrong-message"
  ELSE IF op.k = "static" /\ e.r.val # 1 THEN "descriptor-fact-fails"
  ELSE IF e.r.res # exp THEN
    (IF exp = "AttributeError" /\ e.r.res = "ok" THEN
        (IF op.p = "ro" THEN "read-only-" ELSE "shadow-") \o op.k \o "-accepted"
     ELSE IF exp # "ok" /\ e.r.res = "ok" THEN "invalid-value-accepted"
     ELSE IF exp = "ok" THEN op.k \o "-valid-operation-rejected"
     ELSE "wrong-exception-class")
  ELSE IF exp \in {"TypeError", "ValueError"} /\ e.r.msg # Msg(W, op) THEN "wrong-error-message"
  ELSE IF e.r.log # ExpLog(op) THEN LogClause(e)
  ELSE IF op.k \in {"get", "look"} /\ e.r.val # Eff(W, mt, S1, kd, op.n) THEN "get-wrong-value"
  ELSE IF ownBad # {} THEN
    (IF exp # "ok" THEN "rejected-operation-changed-state"
     ELSE IF ~stored THEN "read-changed-state"
     ELSE IF <<kd, op.n>> \in ownBad THEN
        (IF op.k = "del" \/ op.a = Unset THEN "unset-not-applied-at-invoker-level"
         ELSE "set-not-stored-at-invoker-level")
     ELSE IF \E x \in ownBad : x[1] = kd THEN "changed-storage-of-another-node"
     ELSE "changed-storage-of-another-property")
  ELSE IF effBad = {} /\ lvBad = {} THEN "ok"
  ELSE IF FalsyExplainsObs(e, S2) THEN "falsy-instance-dispatched-as-class"
  ELSE IF lvBad # {} THEN "observer-dispatched-to-wrong-variant"
  ELSE IF ~stored \/ exp # "ok" THEN "effective-value-wrong"
  ELSE IF <<kd, op.n>> \in effBad THEN
     (IF op.k = "del" \/ op.a = Unset THEN "unset-does-not-reexpose-next-level" ELSE "set-not-effective")
  ELSE IF \E n \in InheritsThrough(W, mt, S1, kd, op.n) : <<kd, n>> \in effBad THEN
     "change-not-seen-by-inheriting-node"
  ELSE IF \E x \in effBad : x[1] = kd THEN "change-seen-by-unrelated-node"
  ELSE "change-seen-by-another-property"

Init ==
  /\ tid \in 1..Len(Traces)
  /\ l = 0
  /\ mt = IF WFTrace(Traces[tid]) THEN MroTable(Traces[tid].w) ELSE <<>>
  /\ S = IF WFTrace(Traces[tid])
         THEN [k \in StoredKinds |-> [n \in 1..Len(Traces[tid].w.cls) |-> Traces[tid].init[k][n]]]
         ELSE <<>>
  /\ verdict = IF ~WFTrace(Traces[tid]) THEN "trace-malformed"
               ELSE IF MroTable(Traces[tid].w) # Traces[tid].mro THEN "mro-differs-from-python"
               ELSE IF ~WellFormedMro(Traces[tid].w, MroTable(Traces[tid].w)) THEN "mro-not-well-formed"
               ELSE "ok"
  /\ at = 0

Step ==
  /\ l < NE
  /\ l' = l + 1
  /\ LET e == Tr.ev[l + 1]
         usable == verdict \notin {"trace-malformed", "mro-differs-from-python", "mro-not-well-formed"} /\ WFEvent(e)
         S2 == IF usable THEN Apply(W, S, e.op) ELSE S
         v == IF verdict # "ok" THEN verdict ELSE Clause(e, S, S2)
     IN /\ S' = S2
        /\ verdict' = v
        /\ at' = IF verdict = "ok" /\ v # "ok" THEN l + 1 ELSE at
  /\ UNCHANGED <<tid, mt>>

Finish == l = NE /\ l' = NE + 1 /\ UNCHANGED <<tid, S, mt, verdict, at>>

Next == Step \/ Finish
Spec == Init /\ [][Next]_vars

Done == l = NE + 1
Report == Done => PrintT(<<"VERDICT", ToJson([tid |-> tid, verdict |-> verdict, at |-> at, events |-> NE])>>)
=============================================================================
