SPECIFICATION Spec
CONSTANTS
  MaxLen = 3
  Prune = FALSE
  Alphabet = {"<", "|", ">", "^", "-", "_", ".", "#", "+", "0", "1", "5", "a", "f", "L", "W", "A", "z", "m", "c", "4"}
INVARIANT TypeOK
INVARIANT Unambiguous
INVARIANT ParseIsTheGrammar
INVARIANT MachineAgrees
INVARIANT DeadIsDead
INVARIANT LaxOnlyAddsBareDots
INVARIANT StyleSpecific
CHECK_DEADLOCK FALSE
