"""X02 (extension) - life cycle and attribute state machine of the old image API object
(``term_image.image.BaseImage``; ``BlockImage`` / ``KittyImage`` / ``ITerm2Image``) and the factory
functions of ``term_image.image``.

model:      specs/ImageLife.tla over specs/ImageLifeCore.tla (which hands every sizing request to
            specs/Sizing.tla of check C04): one image object (animated or not, from a PIL image or
            from a file) with state {phase unborn/open/closed, seek position, size setting, frame
            duration, frame-count-computed flag} + the caller's PIL image; one named action per API
            operation and per way of being rejected; laws as named invariants / action properties.
spec->code: TLC dumps every edge of the model, once per render style (Edges_ImageLife_<cls>_*.cfg);
            harness/graph.py turns them into covering walks; every walk is executed on a fresh REAL
            object (harness/x02_world.py) and after EACH operation result, return value, number of
            source-file opens and every plain attribute are compared with the model's projection.
code->spec: seeded random histories (random sources, terminals, cell sizes, arguments) are executed
            on the real code, recorded, and validated by TLC against specs/Trace_ImageLife.tla, as
            are a sample of the replayed walks and every walk prefix the replay disagreed with (the
            failing clause = signature always comes from that TLA+ module).
"""

from __future__ import annotations

import copy
import json
import multiprocessing as mp
import os
import random
import time
from concurrent.futures import ThreadPoolExecutor

from .. import graph, tlc
from .. import x02_world as W
from ..core import Report

CLASSES = ("BlockImage", "KittyImage", "ITerm2Image", "SubKittyImage")
MEMBERS = ("FIT", "AUTO", "ORIGINAL", "FIT_TO_WIDTH")
POOL = int(os.environ.get("VERIF_X02_POOL", "4"))

ASSUMPTIONS = [
    "where several documented error conditions hold at once (e.g. an ill-typed seek position on a "
    "finalized image) any of the documented error classes is accepted: the documentation does not "
    "order the checks",
    "computed sizes are judged by the relation of check C04 (Sizing!SizeClause); the edge replay "
    "compares numbers for equality only because the model's environment (source 6x4 px, terminal "
    "12x10, cell 2x4 px, cell ratio 1/2) makes every request exact (ASSUME ExactEnv, checked by TLC)",
    "'the PIL image is never finalized' is observed as: Image.load() of the caller's image still "
    "works after every operation, also after close() and after the image object was dropped",
    "'n_frames is computed once' is observed through the number of times the library opens the "
    "source file during n_frames / seek (file sources) and through n_frames / seek still answering "
    "on a finalized image exactly when the count had been computed before",
    "garbage collection of the image object (del + refcount / gc.collect()) stands for __del__",
    "the library default frame duration 0.1 s (metadata without duration) is taken from the code; the "
    "documentation only says the duration is derived from the metadata if available",
    "bool is never offered where an int is documented (Python's bool is an int; the docs are silent)",
    "from_url: no network - requests.get is replaced by a seam that reports 'validation passed'",
    "DEVIATIONS modelled as actions of their own, not raised as violations: seek()/n_frames on a "
    "finalized image answer when the frame count is already known (SeekFinalizedCounted), size = "
    "(w, None) style tuples get set_size() semantics (SizeSetTupleLax), set_size(int, int, "
    "frame_size=<ill-typed>) is accepted (SetSizeManualFrameUnchecked), a URL without path is "
    "called invalid (FromUrlNoPath), setters of size / frame_duration keep working after close()",
]


# ------------------------------------------------------------------ spec -> code
def _diff(ev: dict, edge: dict) -> str:
    """'' if what the real object did equals the model's projection, else what differs."""
    op = edge["op"]
    if ev["res"] not in op["res"]:
        return f"result {ev['res']!r}, model admits {op['res']}"
    if ev["unr"]:
        return f"{ev['unr']} exception(s) escaped a finalizer"
    if ev["ret"] != op["ret"]:
        return f"returned {ev['ret']!r}, model {op['ret']!r}"
    if op["opens"] != -1 and ev["opens"] != op["opens"]:
        return f"source file opened {ev['opens']} time(s), model {op['opens']}"
    obs, exp = ev["obs"], edge["exp"]
    if obs["anom"]:
        return f"attribute anomaly {obs['anom']}"
    if exp["ph"] == "unborn" or obs["ph"] == "unborn":
        keys = ("ph", "pilok", "pt")
    else:
        keys = exp.keys()
    for k in keys:
        if obs[k] != exp[k]:
            return f"{k} reads {obs[k]!r}, model {exp[k]!r}"
    return ""


def replay_chunk(task: dict) -> dict:
    """Execute covering walks on fresh real objects (pool worker)."""
    out = {"steps": 0, "mismatches": [], "traces": [], "lost_edges": 0}
    for wk in task["walks"]:
        w = W.World(task["configs"][wk["cfg"]], wk["wseed"])
        events = []
        try:
            for i, edge in enumerate(wk["edges"]):
                ev = w.step(edge["op"]["o"])
                events.append(ev)
                out["steps"] += 1
                d = _diff(ev, edge)
                if d:
                    out["mismatches"].append(
                        {"c": task["configs"][wk["cfg"]], "pt0": 0, "ev": events, "wseed": wk["wseed"], "walk": wk["idx"],
                         "step": i, "diff": d, "act": edge["op"]["act"]})
                    out["lost_edges"] += len(wk["edges"]) - i - 1
                    break
            else:
                if wk["keep"]:
                    out["traces"].append({"c": task["configs"][wk["cfg"]], "pt0": 0, "ev": events, "wseed": wk["wseed"],
                                          "walk": wk["idx"]})
        finally:
            w.close()
    return out


# ------------------------------------------------------------------ code -> spec: random histories
def _dim(rng: random.Random) -> dict:
    r = rng.random()
    if r < 0.18:
        return W.NONE
    if r < 0.62:
        return W.V("int", rng.choice([1, 1, 2, 3, 5, 8, 13, rng.randint(1, 60)]))
    if r < 0.82:
        return W.V("size", s=rng.choice(MEMBERS))
    if r < 0.90:
        return W.V("int", rng.choice([0, -1, -7]))
    return rng.choice([W.fl(2.5), W.fl(3.0), W.V("str", s="3"), W.V("obj"), W.V("tuple", e=[W.E("int", 3)]),
                       W.V("str", s="FIT")])


def _elem(rng: random.Random) -> dict:
    r = rng.random()
    if r < 0.7:
        return W.E("int", rng.randint(1, 40))
    if r < 0.8:
        return W.E("none")
    if r < 0.88:
        return W.E("size", s=rng.choice(MEMBERS))
    return rng.choice([W.E("int", 0), W.E("int", -3), W.E("float", 1, "2.0"), W.E("str", s="4")])


def _sizeval(rng: random.Random) -> dict:
    r = rng.random()
    if r < 0.35:
        return W.V("size", s=rng.choice(MEMBERS))
    if r < 0.80:
        return W.V("tuple", e=[_elem(rng), _elem(rng)])
    return rng.choice([W.V("tuple", e=[W.E("int", 3)]), W.V("tuple", e=[W.E("int", 1), W.E("int", 2), W.E("int", 3)]),
                       W.V("tuple"), W.V("list", e=[W.E("int", 3), W.E("int", 4)]), W.V("int", 7), W.NONE,
                       W.V("str", s="FIT"), W.V("obj")])


def _frame(rng: random.Random) -> dict:
    r = rng.random()
    if r < 0.55:
        return W.ABSENT
    if r < 0.85:
        return W.V("tuple", e=[W.E("int", rng.randint(-6, 24)), W.E("int", rng.randint(-6, 16))])
    return rng.choice([W.V("str", s="x"), W.V("tuple", e=[W.E("int", 1), W.E("int", 2), W.E("int", 3)]),
                       W.V("tuple", e=[W.E("float", 1, "1.0"), W.E("int", 2)]), W.V("list", e=[W.E("int", 5), W.E("int", 5)]),
                       W.NONE, W.V("int", 5), W.V("tuple", e=[W.E("int", 4)])])


def _seekval(rng: random.Random, n: int) -> dict:
    r = rng.random()
    if r < 0.85:
        return W.V("int", rng.randint(-2, n + 2))
    return rng.choice([W.V("str", s="1"), W.fl(1.0), W.NONE, W.V("obj")])


def _fdval(rng: random.Random) -> dict:
    r = rng.random()
    if r < 0.6:
        return W.fl(rng.choice([0.01, 0.04, 0.5, 1.0, 2.5, 0.001, 10.0, round(rng.random() + 0.001, 3)]))
    if r < 0.8:
        return rng.choice([W.fl(0.0), W.fl(-0.5), W.fl(-3.0)])
    return rng.choice([W.V("int", 1), W.V("int", 0), W.NONE, W.V("str", s="0.5"), W.V("obj")])


def _newop(rng: random.Random, c: dict) -> dict:
    r = rng.random()
    variants = W_VARIANTS[c["src"]]
    x = "good" if r < 0.75 else rng.choice(variants)
    if x == "good" and c["src"] == "file" and rng.random() < 0.2:
        x = "pathlike"
    a, b = W.NONE, W.NONE
    r = rng.random()
    if r < 0.35:
        pass
    elif r < 0.6:
        a = _dim(rng)
    elif r < 0.8:
        b = _dim(rng)
    else:
        a, b = _dim(rng), _dim(rng)
    y = rng.choice(["class", "class", "factory"]) if not c["cls"].startswith("Sub") else "class"
    z = "native" if y == "factory" or rng.random() < 0.85 else "foreign"
    return W.mkop("new", a, b, x=x, y=y, z=z)


W_VARIANTS = {"pil": ["notimage", "null"], "file": ["nonstr", "missing", "dir", "junk"]}
ATTRS_RO = ["closed", "is_animated", "original_size", "n_frames", "rendered_size", "rendered_width",
            "rendered_height", "source", "source_type"]
ATTRS_ALL = ATTRS_RO + ["size", "width", "height", "frame_duration", "forced_support"]


def _liveop(rng: random.Random, c: dict) -> dict:
    kind = rng.choices(
        ["seek", "n_frames", "source", "set_fd", "size=", "width=", "height=", "set_size", "str", "format", "draw",
         "iter", "set_ro", "del_attr", "set_fs", "close", "with", "drop", "pilseek"],
        [14, 6, 4, 8, 8, 6, 6, 9, 4, 5, 2, 3, 2, 2, 1, 4, 3, 2, 5])[0]
    if kind == "pilseek" and not (c["src"] == "pil" and c["anim"]):
        kind = "seek"
    if kind == "seek":
        return W.mkop("seek", _seekval(rng, c["n"]))
    if kind == "set_fd":
        return W.mkop("set_fd", _fdval(rng))
    if kind == "size=":
        return W.mkop("size=", _sizeval(rng))
    if kind in ("width=", "height="):
        return W.mkop(kind, _dim(rng))
    if kind == "set_size":
        r = rng.random()
        a = _dim(rng) if r < 0.6 else W.NONE
        b = _dim(rng) if 0.4 < r < 0.9 else W.NONE
        return W.mkop("set_size", a, b, _frame(rng))
    if kind == "format":
        return W.mkop("format", x=rng.choice(["", "", "#", "<8.^5", "x", "5."]))
    if kind == "with":
        return W.mkop("with", x=rng.choice(["pass", "raise"]))
    if kind == "set_ro":
        return W.mkop("set_ro", x=rng.choice(ATTRS_RO))
    if kind == "del_attr":
        return W.mkop("del_attr", x=rng.choice(ATTRS_ALL))
    if kind == "pilseek":
        return W.mkop("pilseek", W.V("int", rng.randrange(c["n"])))
    return W.mkop(kind)


def _unbornop(rng: random.Random, c: dict) -> dict:
    r = rng.random()
    if r < 0.72:
        return _newop(rng, c)
    if r < 0.82:
        return W.mkop("new_url", x=rng.choice(list(W.URLS)), y=rng.choice(["class", "factory"]))  # any config
    if r < 0.90 or not (c["src"] == "pil" and c["anim"]):
        return W.mkop("auto", z=rng.choice(list(W.TERMKIND)))
    return W.mkop("pilseek", W.V("int", rng.randrange(c["n"])))


def gen_config(rng: random.Random) -> dict:
    anim = rng.random() < 0.7
    return {"cls": rng.choice(CLASSES), "src": rng.choice(["pil", "file"]), "anim": anim,
            "n": rng.randint(2, 5) if anim else 1,
            "dur0": rng.choice(["0.02", "0.04", "0.07", "0.1", "0.25"]) if anim else "none",
            "ow": rng.randint(1, 30), "oh": rng.randint(1, 30), "tc": rng.randint(4, 40), "tl": rng.randint(4, 24),
            "cw": rng.randint(1, 6), "ch": rng.randint(1, 12)}


def record_random(task: dict) -> dict:
    """Generate a history online (the generator only looks at whether an object exists) and run it
    on the real code (pool worker)."""
    rng = random.Random(task["hseed"])
    c = gen_config(rng)
    pt0 = rng.randrange(c["n"]) if (c["src"] == "pil" and c["anim"]) else 0
    w = W.World(c, task["hseed"] ^ 0x5A5A, pt0)
    ev = []
    try:
        for _ in range(task["length"]):
            o = _unbornop(rng, c) if w.img is None else _liveop(rng, c)
            ev.append(w.step(o))
    finally:
        w.close()
    return {"c": c, "pt0": pt0, "ev": ev, "wseed": task["hseed"] ^ 0x5A5A}


# ------------------------------------------------------------------ verdicts
def _trace_json(t: dict) -> dict:
    return {"c": t["c"], "pt0": t["pt0"], "ev": t["ev"]}


def _scenario(t: dict) -> dict:
    return {"kind": "history", "c": t["c"], "pt0": t["pt0"], "wseed": t.get("wseed", 0),
            "ops": [e["o"] for e in t["ev"]]}


def _show_val(v: dict) -> str:
    t = v["t"]
    if t in ("none", "absent"):
        return "None" if t == "none" else "<not passed>"
    if t == "int":
        return str(v["i"])
    if t in ("float", "str"):
        return v["s"] if t == "float" else repr(v["s"])
    if t == "size":
        return "Size." + v["s"]
    if t in ("tuple", "list"):
        inner = ", ".join(_show_val(dict(e, e=[])) for e in v["e"])
        return f"({inner}{',' if len(v['e']) == 1 else ''})" if t == "tuple" else f"[{inner}]"
    return "<object>"


def _show_op(o: dict) -> str:
    op = o["op"]
    if op == "new":
        return (f"new(width={_show_val(o['a'])}, height={_show_val(o['b'])}, source={o['x']}, via={o['y']}, "
                f"terminal={o['z']})")
    if op in ("new_url", "auto", "with", "format", "set_ro", "del_attr"):
        return f"{op}({o['x'] or o['z']!r})"
    if op == "set_size":
        return f"set_size({_show_val(o['a'])}, {_show_val(o['b'])}, frame_size={_show_val(o['c'])})"
    if op in ("seek", "set_fd", "size=", "width=", "height=", "pilseek"):
        return f"{op} {_show_val(o['a'])}"
    return op


def _describe(t: dict, v: dict) -> str:
    at = v["at"]
    c = t["c"]
    lines = [f"clause {v['verdict']!r} at operation {at} of {len(t['ev'])} ({v['op']}, object {v['ph']}); "
             f"{c['cls']} from {c['src']}, {'animated n=' + str(c['n']) if c['anim'] else 'not animated'}, "
             f"source {c['ow']}x{c['oh']} px, terminal {c['tc']}x{c['tl']}, cell {c['cw']}x{c['ch']}"]
    lo = max(0, at - 8)
    for i, e in enumerate(t["ev"][lo:at], lo + 1):
        lines.append(f"  {i}. {_show_op(e['o'])} -> {e['res']}" + (f" = {e['ret']}" if e["ret"] != "-" else ""))
    if 0 < at <= len(t["ev"]):
        o = t["ev"][at - 1]["obs"]
        lines.append("  observed after it: " + json.dumps({k: o[k] for k in o if k not in ("ow", "oh", "anim")}))
    return "\n".join(lines)


def validate(traces: list[dict], name: str):
    if not traces:
        return [], 0, 0
    return tlc.validate_traces("Trace_ImageLife", "Trace_ImageLife.cfg", [_trace_json(t) for t in traces],
                               batch=250, parallel=3, workers=2, timeout=900, name=name)


def report(rep: Report, traces: list[dict], validated, origin: str, expect_fail: bool = False):
    verdicts, st, tr = validated
    rep.states += st
    rep.transitions += tr
    rep.traces_validated += len(traces)
    for t, v in zip(traces, verdicts):
        if v["verdict"] in ("unsupported-trace", "unsupported-event", "unsupported-operation-in-this-phase"):
            raise tlc.MachineryError(f"x02: {v['verdict']} at event {v['at']} ({origin}): "
                                     f"{_show_op(t['ev'][max(v['at'] - 1, 0)]['o']) if t['ev'] else ''}")
        if expect_fail and (v["verdict"] == "ok" or v["at"] != len(t["ev"])):
            raise tlc.MachineryError(
                f"x02: the replay saw a difference ({t.get('diff')}) at walk {t.get('walk')} step {t.get('step')} "
                f"that Trace_ImageLife does not confirm: {v}")
        if v["verdict"] != "ok":
            detail = f"[{origin}] " + _describe(t, v)
            if t.get("diff"):
                detail += f"\n  replay difference: {t['diff']} (model action {t.get('act')})"
            rep.violation(f"{v['op']}:{v['verdict']}:{v['ph']}", detail, _scenario(t))
    return verdicts


# ------------------------------------------------------------------ main
def _replay(rep: Report, replay: dict) -> None:
    sc = replay["scenario"]
    if sc.get("kind") == "design":
        res = tlc.run("ImageLife", "MC_ImageLife_quick.cfg", workers=4, timeout=900)
        rep.add_tlc(res)
        if res.violated:
            rep.violation(f"design:ImageLife:{res.violated}", res.error_text[:1500], sc)
        return
    t = W.run_history({"c": sc["c"], "pt0": sc.get("pt0", 0), "wseed": sc.get("wseed", 0), "ops": sc["ops"]})
    t["wseed"] = sc.get("wseed", 0)
    rep.evaluations += len(t["ev"])
    report(rep, [t], validate([t], "x02-replay"), "replay")


ACTIONS = (
    "New", "NewViaFactory", "NewInvalidSize", "NewBadSource", "NewUnsupportedStyle", "NewTextAnyTerminal",
    "FromUrlValidated", "FromUrlInvalid", "FromUrlNoPath", "AutoClass", "Close", "CloseAgain", "With", "Drop",
    "Seek", "SeekInvalid", "SeekFinalizedUncounted", "SeekFinalizedCounted", "NFramesGet", "NFramesFinalized",
    "Source", "SourceFinalized", "SetFrameDuration", "SetFrameDurationIgnored", "SetFrameDurationInvalid",
    "PilSeek", "SizeSetMember", "SizeSetTuple", "SizeSetTupleLax", "SizeSetInvalid", "WidthSet",
    "WidthSetInvalid", "HeightSet", "HeightSetInvalid", "SetSize", "SetSizeInvalid",
    "SetSizeManualFrameUnchecked", "Render", "RenderFinalized", "DrawTooLarge", "FormatInvalid", "Iter",
    "IterNonAnimated", "IterFinalized", "SetReadOnly", "DelAttr", "SetForcedSupportOnInstance")


def main(rep: Report, replay: dict | None) -> None:
    rep.assumptions += ASSUMPTIONS
    rep.rule = (
        "spec->code: every edge of the model (per render style: every reachable state of one image object x "
        "every operation of the alphabet) replayed on real objects, all attributes read after each step; "
        "code->spec: seeded random histories on random sources/terminals; distinct_nontrivial = distinct "
        "(state, operation) edges + distinct recorded histories")
    if replay:
        _replay(rep, replay)
        return
    quick = rep.tier == "quick"
    timing = rep.extra.setdefault("timing_s", {})
    t0 = time.time()

    def lap(name):
        nonlocal t0
        timing[name] = round(time.time() - t0, 1)
        t0 = time.time()

    W.install()
    pool = mp.get_context("fork").Pool(POOL)  # forked before any thread exists
    tier = "quick" if quick else "thorough"
    try:
        with ThreadPoolExecutor(max_workers=6) as ex:
            f_mc = ex.submit(tlc.run, "ImageLife", "MC_ImageLife.cfg", workers=4, timeout=600 if quick else 1800,
                             coverage=not quick)
            f_edges = {cls: ex.submit(tlc.run, "ImageLife", f"Edges_ImageLife_{cls}_{tier}.cfg", workers=1,
                                      timeout=600 if quick else 2400) for cls in CLASSES}

            # ---- code -> spec: record random histories while TLC runs
            rng = random.Random(rep.seed * 7919 + 2)
            nh = 240 if quick else 3000
            htasks = [{"hseed": rng.randrange(1 << 30), "length": rng.randint(12, 30) if quick else rng.randint(20, 60)}
                      for _ in range(nh)]
            recorded = pool.map(record_random, htasks, chunksize=8)
            lap("record_histories")
            # canary: a corrupted copy of a recorded history (one observed attribute altered) rides along
            src = next(t for t in recorded if any(e["obs"]["ph"] == "live" for e in t["ev"]))
            k = next(i for i, e in enumerate(src["ev"]) if e["obs"]["ph"] == "live")
            canary = copy.deepcopy(_trace_json(src))
            canary["ev"] = canary["ev"][: k + 1]
            canary["ev"][k]["obs"]["closed"] = not canary["ev"][k]["obs"]["closed"]
            f_hist = ex.submit(validate, recorded + [canary], "x02-c2s")

            # ---- spec -> code: replay every edge, class by class as the dumps arrive
            results, all_walks, nedges, nstates = [], 0, 0, 0
            cov: dict[str, int] = {}
            keep_every = 30 if quick else 40
            tamper_task = None
            for cls in CLASSES:
                res_e = f_edges[cls].result()
                if res_e.violated:
                    raise tlc.MachineryError(f"x02: edge dump of {cls} failed: {res_e.violated}\n{res_e.error_text[:1500]}")
                rep.add_tlc(res_e)
                g = graph.from_result(res_e)
                for e in g.edges:  # per-action counts from the dump itself: these transitions ARE replayed
                    cov[e["op"]["act"]] = cov.get(e["op"]["act"], 0) + 1
                states = {graph.key(s["key"]): s["obs"] for s in res_e.tagged("STATE")}
                configs = {x["id"]: x["c"] for x in res_e.tagged("CONFIG")}
                if not g.edges or not configs or len(states) != g.nodes:
                    raise tlc.MachineryError(f"x02: edge dump of {cls} is incomplete: {len(g.edges)} edges, "
                                             f"{len(states)} STATE lines for {g.nodes} nodes")
                for e in g.edges:
                    e["exp"] = states[graph.key(e["to"])]
                    rep.distinct.add((cls, graph.key(e["from"]), graph.key(e["op"]["o"])))
                walks = g.walks(max_len=50)
                if g.unreachable_edges:
                    raise tlc.MachineryError(f"x02: {g.unreachable_edges} dumped edges of {cls} are unreachable")
                nedges += len(g.edges)
                nstates += g.nodes
                wl = [{"idx": all_walks + i, "cfg": w[0]["from"]["cfg"], "edges": w,
                       "wseed": rep.seed * 1000003 + all_walks + i, "keep": (all_walks + i + rep.seed) % keep_every == 0}
                      for i, w in enumerate(walks)]
                all_walks += len(wl)
                wl.sort(key=lambda x: -len(x["edges"]))
                nchunk = POOL * 6
                chunks = [{"configs": configs, "walks": wl[i::nchunk]} for i in range(nchunk) if wl[i::nchunk]]
                results.append(pool.map_async(replay_chunk, chunks, chunksize=1))
                if tamper_task is None:
                    tw = next(w for w in wl if any(e["exp"]["ph"] == "live" for e in w["edges"]))
                    tw = copy.deepcopy(dict(tw, edges=tw["edges"][:60]))
                    j = next(i for i, e in enumerate(tw["edges"]) if e["exp"]["ph"] == "live")
                    tw["edges"][j]["exp"]["tell"] += 1
                    tamper_task = {"configs": configs, "walks": [tw]}
                del res_e, g, states, walks
            lap("dump_and_dispatch")
            results = [r for ar in results for r in ar.get()]
            lap("replay_walks")

            # ---- canary: a tampered edge must be noticed by the replay
            if not pool.apply(replay_chunk, (tamper_task,))["mismatches"]:
                raise tlc.MachineryError("x02: the replay did not notice a tampered edge")

            mism = [m for r in results for m in r["mismatches"]]
            sampled = [t for r in results for t in r["traces"]]
            f_walks = ex.submit(validate, mism + sampled, "x02-s2c")

            res_mc = f_mc.result()
            lap("wait_model_check")
            hv, hst, htr = f_hist.result()
            cv = hv.pop()
            if cv["verdict"] == "ok" or cv["at"] != k + 1 or "closed" not in cv["verdict"]:
                raise tlc.MachineryError(f"x02: Trace_ImageLife accepted a corrupted trace (or named another clause): {cv}")
            wv, wst, wtr = f_walks.result()
            lap("wait_trace_validation")
    finally:
        pool.terminate()
        pool.join()

    # ---- the model itself
    rep.add_tlc(res_mc)
    if res_mc.violated:
        rep.violation(f"design:ImageLife:{res_mc.violated}",
                      "the model in ImageLife.tla violates " + res_mc.violated + "\n" + res_mc.error_text[:1500],
                      {"kind": "design"})
    if not quick:  # -coverage 1 of the model-checking run: no action may be vacuous there either
        mcov = {a: g_ for a, (_d, g_) in res_mc.coverage.items() if a in ACTIONS}
        if set(mcov) != set(ACTIONS) or not all(mcov.values()):
            raise tlc.MachineryError(f"x02: -coverage of the model-checking run shows vacuous / missing actions: "
                                     f"{sorted(set(ACTIONS) - {a for a, n in mcov.items() if n})}")
        rep.extra["model_coverage"] = mcov
    actions = [a for a in cov if a != "Init"]
    vac = sorted(set(ACTIONS) - {a for a in actions if cov[a] > 0})
    if vac or set(actions) - set(ACTIONS):
        raise tlc.MachineryError(f"x02: actions without a replayed transition / unknown actions: {vac} "
                                 f"{sorted(set(actions) - set(ACTIONS))}")
    rep.extra["model"] = {"states": res_mc.distinct, "transitions": res_mc.generated, "depth": res_mc.depth,
                          "wall_s": round(res_mc.wall_s, 1), "actions_generated": {a: cov[a] for a in sorted(actions)}}
    rep.exhaustive = True
    rep.extra["exhaustive_space"] = (
        "one image object per (render style x PIL/file source x animated(3 frames)/still x metadata duration): "
        "every reachable state {unborn/open/closed, seek position, size setting, frame duration, count-computed, "
        "caller's PIL frame} x every operation of the (rich) alphabet model-checked; every edge of the "
        + ("quick" if quick else "rich") + " alphabet replayed on real objects of all three styles")

    # ---- replay results
    steps = sum(r["steps"] for r in results)
    rep.evaluations += steps + sum(len(t["ev"]) for t in recorded)
    rep.traces_validated += all_walks - len(sampled) - len(mism)  # replayed (validated ones are added in report())
    rep.extra["replay"] = {"edges": nedges, "model_states": nstates, "walks": all_walks, "steps": steps,
                           "disagreeing_walks": len(mism), "edges_not_reached_behind_a_disagreement":
                               sum(r["lost_edges"] for r in results), "walks_also_validated_by_tlc": len(sampled)}
    rep.extra["canary"] = {"corrupted_trace_verdict": cv["verdict"], "tampered_edge": "noticed"}
    nm = len(mism)
    report(rep, mism, (wv[:nm], wst, wtr), "spec->code replay", expect_fail=True)
    sv = report(rep, sampled, (wv[nm:], 0, 0), "spec->code replay (walk judged by TLC)")
    if any(v["verdict"] != "ok" for v in sv):
        raise tlc.MachineryError("x02: Trace_ImageLife rejects a walk the replay found in agreement with the model: "
                                 + str(next(v for v in sv if v["verdict"] != "ok")))

    # ---- recorded histories
    verdicts = report(rep, recorded, (hv, hst, htr), "code->spec history")
    for t in recorded:
        rep.distinct.add(("hist", json.dumps(t["c"], sort_keys=True), json.dumps([e["o"] for e in t["ev"]], sort_keys=True)))
    ops_seen: dict[str, int] = {}
    rejected_seen = 0
    for t in recorded:
        for e in t["ev"]:
            ops_seen[e["o"]["op"]] = ops_seen.get(e["o"]["op"], 0) + 1
            rejected_seen += e["res"] not in W.OK
    rep.extra["histories"] = {"recorded": len(recorded), "events": sum(v["events"] for v in verdicts),
                              "events_judged": sum(v["judged"] for v in verdicts), "rejected_operations": rejected_seen,
                              "operations": dict(sorted(ops_seen.items())),
                              "rejected_by_spec": sum(1 for v in verdicts if v["verdict"] != "ok")}
    missing_ops = {"new", "new_url", "auto", "close", "with", "drop", "seek", "n_frames", "source", "set_fd", "size=",
                   "width=", "height=", "set_size", "str", "format", "draw", "iter", "set_ro", "del_attr", "set_fs",
                   "pilseek"} - set(ops_seen)
    if missing_ops:
        raise tlc.MachineryError(f"x02: the random histories never used {sorted(missing_ops)}")

    w0 = next((t for t in sampled if len(t["ev"]) >= 6), None)
    if w0:
        rep.sample({"walk": [f"{_show_op(e['o'])} -> {e['res']}" for e in w0["ev"][:8]], "class": w0["c"]["cls"],
                    "source": w0["c"]["src"]})
    rep.sample({"history": [f"{_show_op(e['o'])} -> {e['res']}" for e in recorded[0]["ev"][:8]],
                "class": recorded[0]["c"]["cls"], "source": recorded[0]["c"]["src"]})
    lap("report")
