"""Driver side of the C14 real runs: start ``harness.c14_worker``, collect its event files and
turn them into one trace for ``specs/Trace_TtyLock.tla``."""

from __future__ import annotations

import json
import os
import re
import shutil
import signal
import subprocess
import sys
import uuid
from pathlib import Path

from .tlc import MachineryError

VERIF = Path(__file__).resolve().parent.parent
_LAUNCHED: list = []  # (Popen, outdir) of every worker started by this process
_LLOCK = __import__("threading").Lock()


def cleanup() -> None:
    """Kill every worker (process group) that is still around and remove its directory; drivers
    call this in a ``finally`` so that a machinery failure never leaves processes behind."""
    while _LAUNCHED:
        p, outdir = _LAUNCHED.pop()
        try:
            os.killpg(p.pid, signal.SIGKILL)
        except (ProcessLookupError, PermissionError):
            pass
        try:
            p.wait(timeout=10)
        except Exception:
            pass
        shutil.rmtree(outdir, ignore_errors=True)
LOCK_FRAMES = ("lock_tty_wrapper", "_process_start_wrapper", "get_cell_size", "get_fg_bg_colors",
               "get_terminal_name_version")


def available_methods() -> list[str]:
    import multiprocessing

    return [m for m in ("fork", "spawn", "forkserver") if m in multiprocessing.get_all_start_methods()]


def launch(job: dict):
    outdir = VERIF / "out" / "c14" / uuid.uuid4().hex[:10]
    outdir.mkdir(parents=True, exist_ok=True)
    job = dict(job, outdir=str(outdir))
    (outdir / "job.json").write_text(json.dumps(job))
    env = dict(os.environ, PYTHONPATH=f"{job['src']}:{VERIF}", PYTHONHASHSEED="0")
    err = open(outdir / "stderr.txt", "w")
    p = subprocess.Popen(
        [sys.executable, "-m", "harness.c14_worker", str(outdir / "job.json")],
        cwd=VERIF, env=env, stdin=subprocess.DEVNULL, stdout=subprocess.DEVNULL, stderr=err,
        start_new_session=True,
    )
    with _LLOCK:
        _LAUNCHED.append((p, outdir))
    return p, outdir, job


def collect(p: subprocess.Popen, outdir: Path, job: dict) -> dict:
    """Wait for the worker; returns the trace record (plus diagnostics under ``_diag``)."""
    timed_out = False
    try:
        p.wait(timeout=job["stall_s"] + 40)
    except subprocess.TimeoutExpired:
        timed_out = True
    finally:
        try:
            os.killpg(p.pid, signal.SIGKILL)
        except (ProcessLookupError, PermissionError):
            pass
        p.wait()
        with _LLOCK:
            _LAUNCHED[:] = [x for x in _LAUNCHED if x[0] is not p]
    try:
        stderr = (outdir / "stderr.txt").read_text()[-3000:]
        events = []
        for f in sorted(outdir.glob("events-*.jsonl")):
            for line in f.read_text().splitlines():
                try:
                    events.append(json.loads(line))
                except json.JSONDecodeError:
                    pass  # a process killed in the middle of a line
        result = None
        if (outdir / "result.json").exists():
            result = json.loads((outdir / "result.json").read_text())
        stacks = {f.name: f.read_text() for f in sorted(outdir.glob("stacks-*.json"))}
    finally:
        shutil.rmtree(outdir, ignore_errors=True)
    procs = [e for e in events if e["k"] == "proc"]
    if not procs:
        raise MachineryError(f"C14 worker ({job['method']}) produced nothing (rc={p.returncode}):\n{stderr}")
    for e in procs:
        if not e["tty_fd"] or not e["wrapped"]:
            raise MachineryError(
                f"C14 worker ({job['method']}): process {e['p']} did not adopt the pty "
                f"(tty_fd={e['tty_fd']}, Process.start/run wrapped={e['wrapped']})\n{stderr}"
            )
    finished = result is not None and result.get("ok") and not timed_out
    ev = sorted((e for e in events if e["k"] in ("enter", "exit")), key=lambda e: e["seq"])
    q = [dict(p=e["p"], t=e["t"], req=e["req"], got=e["got"]) for e in events if e["k"] == "query"]
    calls = sum(1 for e in events if e["k"] == "call")
    rets = sum(1 for e in events if e["k"] == "ret")
    stalled = False
    evidence = ""
    if not finished:
        # a stall counts as a deadlock on the terminal lock only if faulthandler shows every
        # probe thread inside a lock acquisition of the library; anything else is machinery
        tops = []
        for name, text in stacks.items():
            try:
                threads = json.loads(text)
            except json.JSONDecodeError:
                continue
            for th in threads:
                lib = [fr for fr in th["frames"] if fr[0].endswith("term_image/utils.py")]
                top = th["frames"][0] if th["frames"] else ["?", 0, "?"]
                fn = lib[0][2] if lib and th["frames"].index(lib[0]) <= 1 else top[2]
                tops.append((name, fn, (lib[0][1] if lib else top[1]), th["thread"].startswith("probe-")))
        probe_tops = [t for t in tops if t[3]]
        if probe_tops and all(t[1] in LOCK_FRAMES for t in probe_tops):
            stalled = True
            evidence = "; ".join(f"{n}:{fn}:{ln}" for n, fn, ln, _ in probe_tops[:8])
        else:
            raise MachineryError(
                f"C14 worker ({job['method']}) did not finish (rc={p.returncode}, timeout={timed_out}) "
                f"and the stall is not a lock wait: tops={tops[:6]}\nstderr: {stderr}"
            )
    return {
        "ev": [dict(k=e["k"], p=e["p"], t=e["t"], d=e["d"], seq=e["seq"]) for e in ev],
        "q": q,
        "calls": calls,
        "returned": rets,
        "stalled": stalled,
        "_diag": {
            "method": job["method"], "processes": len(procs), "evidence": evidence,
            "requests_seen": (result or {}).get("requests_seen"),
            "locks": sorted({e["lock"] for e in procs}),
            "raw_bad": [e for e in events if e["k"] == "query" and e["got"] != e["req"]][:5],
            "stderr": stderr[-600:],
        },
    }


def launch_sync(src: str, only: list[str] | None = None, module: str = "harness.c14_sync_worker", extra: dict | None = None):
    """Start ``harness.c14_sync_worker`` (the Synchronized-set probe) or another worker with the same protocol."""
    outdir = VERIF / "out" / "c14" / ("sync-" + uuid.uuid4().hex[:10])
    outdir.mkdir(parents=True, exist_ok=True)
    job = dict(src=src, only=only, result_file=str(outdir / "result.json"))
    job.update(extra or {})
    (outdir / "job.json").write_text(json.dumps(job))
    env = dict(os.environ, PYTHONPATH=f"{src}:{VERIF}", PYTHONHASHSEED="0")
    err = open(outdir / "stderr.txt", "w")
    p = subprocess.Popen(
        [sys.executable, "-m", module, str(outdir / "job.json")],
        cwd=VERIF, env=env, stdin=subprocess.DEVNULL, stdout=subprocess.DEVNULL, stderr=err,
        start_new_session=True,
    )
    with _LLOCK:
        _LAUNCHED.append((p, outdir))
    return p, outdir


def collect_sync(p: subprocess.Popen, outdir: Path, timeout: float = 180) -> dict:
    try:
        try:
            p.wait(timeout=timeout)
        except subprocess.TimeoutExpired:
            raise MachineryError(f"C14 sync worker timed out after {timeout}s")
        finally:
            try:
                os.killpg(p.pid, signal.SIGKILL)
            except (ProcessLookupError, PermissionError):
                pass
            p.wait()
            with _LLOCK:
                _LAUNCHED[:] = [x for x in _LAUNCHED if x[0] is not p]
        stderr = (outdir / "stderr.txt").read_text()[-3000:]
        rf = outdir / "result.json"
        if p.returncode != 0 or not rf.exists():
            raise MachineryError(f"C14 sync worker failed (rc={p.returncode}):\n{stderr}")
        return json.loads(rf.read_text())
    finally:
        shutil.rmtree(outdir, ignore_errors=True)


def run_init_envs(src: str, timeout: float = 120) -> list[dict]:
    """Import term_image in each of the 16 initialisation environments of specs/TtyInit.tla
    (fresh process, new session, a pty of ours as the only terminal around)."""
    import itertools

    outdir = VERIF / "out" / "c14" / ("init-" + uuid.uuid4().hex[:10])
    outdir.mkdir(parents=True, exist_ok=True)
    ptys = []
    procs = []
    try:
        env = dict(os.environ, PYTHONPATH=f"{src}:{VERIF}", PYTHONHASHSEED="0")
        for i, (o, n, e, c) in enumerate(itertools.product([False, True], repeat=4)):
            master, slave = os.openpty()  # a pty can be the controlling terminal of one session only
            ptys += [master, slave]
            job = dict(src=src, slave=os.ttyname(slave), out=o, inp=n, err=e, ctty=c, result_file=str(outdir / f"r{i}.json"))
            (outdir / f"j{i}.json").write_text(json.dumps(job))
            p = subprocess.Popen(
                [sys.executable, "-m", "harness.c14_init_worker", str(outdir / f"j{i}.json")],
                cwd=VERIF, env=env, stdin=subprocess.DEVNULL, stdout=subprocess.DEVNULL,
                stderr=open(outdir / f"e{i}.txt", "w"), start_new_session=True,
            )
            with _LLOCK:
                _LAUNCHED.append((p, outdir))
            procs.append((i, p, job))
        out = []
        for i, p, job in procs:
            try:
                p.wait(timeout=timeout)
            except subprocess.TimeoutExpired:
                raise MachineryError(f"TtyInit probe {job} timed out")
            rf = outdir / f"r{i}.json"
            if p.returncode != 0 or not rf.exists():
                raise MachineryError(f"TtyInit probe {job} failed (rc={p.returncode}): {(outdir / f'e{i}.txt').read_text()[-1500:]}")
            r = json.loads(rf.read_text())
            if r["has_ctty"] != r["ctty"]:
                raise MachineryError(f"TtyInit probe could not arrange the environment {job}: has_ctty={r['has_ctty']}")
            out.append(r)
        return out
    finally:
        for _, p, _ in procs:
            try:
                os.killpg(p.pid, signal.SIGKILL)
            except (ProcessLookupError, PermissionError):
                pass
            try:
                p.wait(timeout=5)
            except Exception:
                pass
        with _LLOCK:
            _LAUNCHED[:] = [x for x in _LAUNCHED if x[1] != outdir]
        for fd in ptys:
            os.close(fd)
        shutil.rmtree(outdir, ignore_errors=True)
