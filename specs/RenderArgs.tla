----------------------------- MODULE RenderArgs -----------------------------
(***************************************************************************)
(* C16 - the algebra of render-argument sets (term_image.renderable:        *)
(* RenderArgs / ArgsNamespace), stated from the DOCUMENTATION:              *)
(*                                                                          *)
(*  * a class tree  t = [par, has]: classes 1..N below the root 0           *)
(*    (`Renderable`, which owns no argument namespace); t.par[c] < c is the *)
(*    parent, t.has the classes owning an Args namespace class.  Class c    *)
(*    has NF(c) fields over {0,1}; the default of field f is Dflt(c, f).    *)
(*    The two-value domain is ABSTRACT: the binding instantiates it per     *)
(*    field with real values that include None and the other falsy values   *)
(*    (None|0.5, 0|"", False|None), all legitimate field values; the law    *)
(*    "update returns a namespace holding exactly the given assignment"     *)
(*    (ApplyKw) does not depend on what the values are.  A third abstract   *)
(*    value, UVal = 2, is an UNHASHABLE real value (list / dict): a value   *)
(*    like any other for every operator here; only Hashable() tells it      *)
(*    apart (the hash laws range over hashable objects).                    *)
(*  * a set HOLDS namespace objects: a request carries identity tokens of   *)
(*    what was given, Hold(t, r) names per class the object the result must *)
(*    hold (see ReqI / Hold).                                               *)
(*  * objects are immutable records                                         *)
(*       [k |-> "ns", c |-> class, v |-> <<field values>>]                  *)
(*       [k |-> "ra", c |-> class, v |-> <<per class 1..N: values | <<>> >>]*)
(*    (entry <<>> = "class not in the argument-MRO of c").                  *)
(*  * Value / Accepts are DIRECTIONAL (what the docs promise), never a      *)
(*    transcription of the constructor:                                     *)
(*      Value[k]  = the last namespace given for k, else the initial set's, *)
(*                  else the default                 (k in the MRO of cls)  *)
(*      Accepts   = every constituent's class is cls or an ancestor of cls  *)
(*    `Fold` is the operational reading (defaults, overlaid by the initial  *)
(*    set, overlaid by the namespaces left to right); MC checks that both   *)
(*    readings agree on every request it generates.                         *)
(*  * Expected(t, h, op) gives, for one API operation on heap h, either the *)
(*    record the result must equal or the SET of exception classes the      *)
(*    documentation allows (two members only when two documented            *)
(*    preconditions are broken at once and the docs do not order them).     *)
(*                                                                          *)
(* The heap layer (identity, shared default sets) is in the second half.    *)
(***************************************************************************)
EXTENDS Naturals, Sequences, FiniteSets

Nil == [k |-> "nil", c |-> 0, v |-> <<>>, s |-> 0]

NCls(t) == Len(t.par)
NF(c) == IF c % 2 = 1 THEN 2 ELSE 1
Dflt(c, f) == (c + f) % 2
DefVals(c) == [f \in 1..NF(c) |-> Dflt(c, f)]

RECURSIVE Anc(_, _)
Anc(t, c) == IF c = 0 THEN {0} ELSE {c} \cup Anc(t, t.par[c])
IsSub(t, c, d) == d \in Anc(t, c)              \* c is d or a descendant of d
Related(t, c, d) == IsSub(t, c, d) \/ IsSub(t, d, c)
AMRO(t, c) == Anc(t, c) \cap t.has              \* classes with arguments in c's MRO

\* (NsNew with b = 2, recorded histories only: the binding builds the namespace from real values
\* of ANOTHER TYPE that are == to the usual ones - 0 / False, 0.5 / Fraction(1, 2) -: one more
\* way of being equal but distinct; like s it is no part of the value.)
\* s = 1: the namespace is an instance of a SUBCLASS of the class's namespace class (the
\* docs' "Inheriting Fields": same fields, same associated render class).  s is an
\* instruction to the binding (which class to instantiate), never part of the VALUE: Eq,
\* the hash laws and every comparison with the implementation use Proj (k, c, v).
NsRecS(c, vals, s) == [k |-> "ns", c |-> c, v |-> vals, s |-> s]
NsRec(c, vals) == NsRecS(c, vals, 0)
RaRec(c, m) == [k |-> "ra", c |-> c, v |-> m, s |-> 0]
Proj(x) == [k |-> x.k, c |-> x.c, v |-> x.v]
DefMap(t, c) == [k \in 1..NCls(t) |-> IF k \in AMRO(t, c) THEN DefVals(k) ELSE <<>>]
DefaultSet(t, c) == RaRec(c, DefMap(t, c))

Max(S) == CHOOSE x \in S : \A y \in S : y <= x

(* ------------------------------------------------------------------------ *)
(* keyword arguments: kw is a sequence of <<field, value>> pairs             *)
(* ------------------------------------------------------------------------ *)
KwUnknown(c, kw) == \E i \in 1..Len(kw) : kw[i][1] > NF(c)
ApplyKw(vals, kw) ==
  [f \in 1..Len(vals) |->
     IF \E i \in 1..Len(kw) : kw[i][1] = f
     THEN kw[CHOOSE i \in 1..Len(kw) : kw[i][1] = f][2]
     ELSE vals[f]]

(* ------------------------------------------------------------------------ *)
(* A construction request, in the documentation's terms:                     *)
(*   [cls, init (a "ra" record or Nil), nss (sequence of "ns" records)]      *)
(* ------------------------------------------------------------------------ *)
(* IDENTITY (round 7).  "holds the last namespace GIVEN for it, else the initial set's":   *)
(* a set holds namespace OBJECTS.  A request therefore also carries the identity token of  *)
(* every namespace given (ids[i]: heap id > 0, or extraction reference < 0, or 0 = an      *)
(* object created inside the operation, identity not constrained) and of the initial set   *)
(* (iid, 0 = none).  Hold(t, r)[k] is the token of the object the result must hold for     *)
(* class k: the operand given last for k, else Ref(iid, k) = the very object the initial   *)
(* set holds for k, else 0 (a default: which default-valued object is not constrained).    *)
ReqI(cls, init, nss, iid, ids) == [cls |-> cls, init |-> init, nss |-> nss, iid |-> iid, ids |-> ids]
Req(cls, init, nss) == ReqI(cls, init, nss, 0, [i \in 1..Len(nss) |-> 0])

InitOK(t, r) == r.init = Nil \/ IsSub(t, r.cls, r.init.c)
NssOK(t, r) == \A i \in 1..Len(r.nss) : IsSub(t, r.cls, r.nss[i].c)
Accepts(t, r) == InitOK(t, r) /\ NssOK(t, r)
RejectSet(t, r) ==
  (IF InitOK(t, r) THEN {} ELSE {"IncompatibleRenderArgsError"})
  \cup (IF NssOK(t, r) THEN {} ELSE {"IncompatibleArgsNamespaceError"})

LastFor(r, k) ==
  LET I == {i \in 1..Len(r.nss) : r.nss[i].c = k} IN IF I = {} THEN 0 ELSE Max(I)

Value(t, r) ==
  [k \in 1..NCls(t) |->
     IF k \notin AMRO(t, r.cls) THEN <<>>
     ELSE IF LastFor(r, k) # 0 THEN r.nss[LastFor(r, k)].v
     ELSE IF r.init # Nil /\ k \in AMRO(t, r.init.c) THEN r.init.v[k]
     ELSE DefVals(k)]

Hold(t, r) ==
  [k \in 1..NCls(t) |->
     IF k \notin AMRO(t, r.cls) THEN 0
     ELSE IF LastFor(r, k) # 0 THEN r.ids[LastFor(r, k)]
     ELSE IF r.init # Nil /\ r.iid # 0 /\ k \in AMRO(t, r.init.c) THEN 0 - (16 * r.iid + k)
     ELSE 0]

\* operational reading, used only by the FoldAgrees invariant
RECURSIVE FoldNs(_, _)
FoldNs(m, nss) ==
  IF nss = <<>> THEN m ELSE FoldNs([m EXCEPT ![Head(nss).c] = Head(nss).v], Tail(nss))
Fold(t, r) ==
  LET base == DefMap(t, r.cls)
      over == IF r.init = Nil THEN base
              ELSE [k \in 1..NCls(t) |->
                      IF base[k] # <<>> /\ r.init.v[k] # <<>> THEN r.init.v[k] ELSE base[k]]
  IN FoldNs(over, r.nss)

(* ------------------------------------------------------------------------ *)
(* Expected outcome of one operation                                          *)
(* ------------------------------------------------------------------------ *)
NoReq == Req(0, Nil, <<>>)
AccH(rec, req, hold) == [rej |-> {}, rec |-> rec, req |-> req, hold |-> hold]
Acc(rec, req) == AccH(rec, req, <<>>)          \* a namespace result: holds nothing
Rej(S) == [rej |-> S, rec |-> Nil, req |-> NoReq, hold |-> <<>>]

Construct(t, r) ==
  IF Accepts(t, r) THEN AccH(RaRec(r.cls, Value(t, r)), r, Hold(t, r)) ELSE Rej(RejectSet(t, r))

\* render_args[cls]
GetItem(t, ra, c) ==
  IF ~IsSub(t, ra.c, c) THEN "ValueError"
  ELSE IF c \notin t.has THEN "NoArgsNamespaceError"
  ELSE "ok"

MostDerived(t, c, d) == IF IsSub(t, c, d) THEN c ELSE d

(* A namespace operand is either a heap id (> 0) or an EXTRACTION reference (< 0):     *)
(* -(16 * set + cls) stands for the namespace object obtained from a live set by        *)
(* set[cls] / iteration - e.g. the default namespace instance held by a class's shared *)
(* default set.  Its record is the set's constituent; which object it is never matters *)
(* to the required value.                                                               *)
Ref(ra, k) == 0 - (16 * ra + k)
RefRa(i) == (0 - i) \div 16
RefK(i) == (0 - i) % 16
At(h, i) == IF i > 0 THEN h[i] ELSE NsRec(RefK(i), h[RefRa(i)].v[RefK(i)])
RecsOf(h, ids) == [i \in 1..Len(ids) |-> At(h, ids[i])]

\* constituent namespaces of ra compatible with cls, as records (ascending class)
RECURSIVE CompatFrom(_, _, _, _)
CompatFrom(t, ra, cls, k) ==
  IF k > NCls(t) THEN <<>>
  ELSE (IF k \in AMRO(t, ra.c) /\ k \in AMRO(t, cls) THEN <<NsRec(k, ra.v[k])>> ELSE <<>>)
       \o CompatFrom(t, ra, cls, k + 1)

\* ... and their identity tokens: the objects the set holds
RECURSIVE CompatIds(_, _, _, _, _)
CompatIds(t, ra, a, cls, k) ==
  IF k > NCls(t) THEN <<>>
  ELSE (IF k \in AMRO(t, ra.c) /\ k \in AMRO(t, cls) THEN <<0 - (16 * a + k)>> ELSE <<>>)
       \o CompatIds(t, ra, a, cls, k + 1)

OrReq(t, self, other, selfWinsTie, a, b) ==
  \* self is a namespace; other a namespace or a set; a, b their identity tokens
  IF other.k = "ns"
  THEN IF ~Related(t, self.c, other.c) THEN Rej({"IncompatibleArgsNamespaceError"})
       ELSE IF self.c = other.c /\ selfWinsTie
            THEN Construct(t, ReqI(self.c, Nil, <<other, self>>, 0, <<b, a>>))
            ELSE Construct(t, ReqI(MostDerived(t, self.c, other.c), Nil, <<self, other>>, 0, <<a, b>>))
  ELSE IF ~Related(t, self.c, other.c) THEN Rej({"IncompatibleRenderArgsError"})
       ELSE Construct(t, ReqI(MostDerived(t, self.c, other.c), other, <<self>>, b, <<a>>))

Expected(t, h, op) ==
  CASE op.op = "NsNew" ->
         IF KwUnknown(op.cls, op.kw) THEN Rej({"UnknownArgsFieldError"})
         ELSE Acc(NsRecS(op.cls, ApplyKw(DefVals(op.cls), op.kw), IF op.b = 1 THEN 1 ELSE 0), NoReq)
    [] op.op = "NsUpdate" ->
         IF KwUnknown(At(h, op.a).c, op.kw) THEN Rej({"UnknownArgsFieldError"})
         ELSE Acc(NsRecS(At(h, op.a).c, ApplyKw(At(h, op.a).v, op.kw), At(h, op.a).s), NoReq)
    [] op.op = "New" ->
         Construct(t, ReqI(op.cls, IF op.a = 0 THEN Nil ELSE h[op.a], RecsOf(h, op.nss), op.a, op.nss))
    [] op.op = "UpdateNs" ->
         Construct(t, ReqI(h[op.a].c, h[op.a], RecsOf(h, op.nss), op.a, op.nss))
    [] op.op = "Update" ->
         LET ra == h[op.a]
             g == GetItem(t, ra, op.cls)
             unk == op.cls \in t.has /\ KwUnknown(op.cls, op.kw)
         IN IF g # "ok" THEN Rej({g} \cup (IF unk THEN {"UnknownArgsFieldError"} ELSE {}))
            ELSE IF unk THEN Rej({"UnknownArgsFieldError"})
            ELSE Construct(t, ReqI(ra.c, ra, <<NsRec(op.cls, ApplyKw(ra.v[op.cls], op.kw))>>, op.a, <<0>>))
    [] op.op = "Convert" ->
         LET ra == h[op.a] IN
         IF op.cls = ra.c THEN AccH(ra, NoReq, Hold(t, ReqI(ra.c, ra, <<>>, op.a, <<>>)))
         ELSE IF IsSub(t, op.cls, ra.c) THEN Construct(t, ReqI(op.cls, ra, <<>>, op.a, <<>>))
         ELSE IF IsSub(t, ra.c, op.cls)
              THEN Construct(t, ReqI(op.cls, Nil, CompatFrom(t, ra, op.cls, 1), 0,
                                     CompatIds(t, ra, op.a, op.cls, 1)))
         ELSE Rej({"ValueError"})
    [] op.op = "Or" -> OrReq(t, At(h, op.a), At(h, op.b), FALSE, op.a, op.b)
    [] op.op = "Ror" -> OrReq(t, At(h, op.a), At(h, op.b), TRUE, op.a, op.b)
    [] op.op = "Pos" -> Construct(t, ReqI(At(h, op.a).c, Nil, <<At(h, op.a)>>, 0, <<op.a>>))
    [] op.op = "ToRenderArgs" ->
         Construct(t, ReqI(IF op.cls < 0 THEN At(h, op.a).c ELSE op.cls, Nil, <<At(h, op.a)>>,
                           0, <<op.a>>))

(* ------------------------------------------------------------------------ *)
(* Observable relations over a heap                                           *)
(* ------------------------------------------------------------------------ *)
Eq(x, y) == x.k = y.k /\ x.c = y.c /\ x.v = y.v
\* pairs whose hashes MUST be equal (the law) and pairs that differ ONLY in the
\* associated class, whose hashes are required to differ (both __hash__ docstrings key
\* the hash on the render class)
Pairs(h) == {p \in (1..Len(h)) \X (1..Len(h)) : p[1] < p[2]}
EqPairs(h) == {p \in Pairs(h) : Eq(h[p[1]], h[p[2]])}
(* UNHASHABLE field values (round 7).  The abstract value 2 stands for a legal field value  *)
(* that is not hashable (a list, a dict).  It is a value like any other: construction, ==,  *)
(* `in`, [], update, convert, | and + are defined by the very same operators above.  The   *)
(* only difference the documentation makes ("like tuples, an instance is hashable if and   *)
(* only if the field values / constituent namespaces are hashable"): hash() of such an     *)
(* object raises TypeError, so the hash laws range over the hashable objects.              *)
UVal == 2
Vals == {0, 1, UVal}
HashableVals(v) == \A f \in DOMAIN v : v[f] # UVal
Hashable(x) ==
  IF x.k = "ns" THEN HashableVals(x.v) ELSE \A k \in DOMAIN x.v : HashableVals(x.v[k])
Unhashables(h) == {i \in 1..Len(h) : ~Hashable(h[i])}
HashEqPairs(h) == {p \in EqPairs(h) : Hashable(h[p[1]])}
ClassOnlyPairs(h) ==
  {p \in Pairs(h) : /\ h[p[1]].k = h[p[2]].k /\ h[p[1]].c # h[p[2]].c /\ h[p[1]].v = h[p[2]].v
                    /\ Hashable(h[p[1]])}
\* namespace in set
Contains(ra, ns) == ra.v[ns.c] = ns.v
\* per set: outcome of set[c] for c = 0..N ("ok" = the namespace in v[c])
GetItems(t, x) == IF x.k = "ra" THEN [c \in 1..(NCls(t) + 1) |-> GetItem(t, x, c - 1)] ELSE <<>>

WellFormed(t, x) ==
  \/ /\ x.k = "ns" /\ x.c \in t.has /\ x.v \in [1..NF(x.c) -> Vals] /\ x.s \in {0, 1}
  \/ /\ x.k = "ra" /\ x.c \in 0..NCls(t) /\ Len(x.v) = NCls(t)
     /\ \A k \in 1..NCls(t) :
          IF k \in AMRO(t, x.c) THEN x.v[k] \in [1..NF(k) -> Vals] ELSE x.v[k] = <<>>

(* ------------------------------------------------------------------------ *)
(* Namespace-CLASS rules (docs: "Defining Fields", "Associating With a       *)
(* Render Class", "Inheriting Fields", "Other Notes").  A class CREATION is  *)
(* described by                                                              *)
(*   kind      "args" | "data"                                               *)
(*   nbases    number of base classes                                        *)
(*   depth     0: the (first) base is the API base class or a field-less     *)
(*             helper; n > 0: the base is n - 1 plain subclass levels below  *)
(*             a namespace class that is associated with render class R0     *)
(*             (so the new class is at depth n below it: it INHERITS the     *)
(*             fields and, for good, the association)                        *)
(*   defines   the body annotates fields                                     *)
(*   defaults  every annotated field is assigned a default                   *)
(*   assoc     a render class R (another one) is named in the class header   *)
(*   taken     R already has a namespace class of this kind                  *)
(* ClassRuleBroken gives the exception class of every documented rule the    *)
(* creation breaks; it is accepted iff the set is empty, and must otherwise  *)
(* be rejected with (a subclass of) one of them.  ClassAfter is what the two *)
(* render classes own afterwards: a rejected creation - in particular a      *)
(* re-association at any depth - leaves R's and R0's Args / _Data_ untouched.*)
(* ------------------------------------------------------------------------ *)
ClassDefs ==
  {d \in [kind : {"args", "data"}, nbases : {1, 2}, depth : 0..3, defines : BOOLEAN,
          defaults : BOOLEAN, assoc : BOOLEAN, taken : BOOLEAN] :
     /\ (~d.defines => d.defaults)          \* nothing to leave without a default
     /\ (~d.assoc => ~d.taken)}
Inherits(d) == d.depth > 0

ClassRuleBroken(d) ==
  (IF d.nbases > 1 THEN {"RenderArgsDataError"} ELSE {})
  \cup (IF d.kind = "args" /\ d.defines /\ ~d.defaults THEN {"RenderArgsError"} ELSE {})
  \cup (IF Inherits(d) /\ d.defines THEN {"RenderArgsDataError"} ELSE {})
  \cup (IF Inherits(d) /\ d.assoc THEN {"RenderArgsDataError"} ELSE {})
  \cup (IF d.assoc /\ ~d.defines /\ ~Inherits(d) THEN {"RenderArgsDataError"} ELSE {})
  \cup (IF ~d.assoc /\ d.defines /\ ~Inherits(d) THEN {"RenderArgsDataError"} ELSE {})
  \cup (IF d.assoc /\ d.taken
        THEN {IF d.kind = "args" THEN "RenderArgsError" ELSE "RenderDataError"} ELSE {})

\* after an accepted creation: is the new class associated (instantiable), and with what
ClassAssociated(d) == ClassRuleBroken(d) = {} /\ (d.assoc \/ Inherits(d))
\* namespace class owned afterwards by R ("new" | "prev" | "none") and by R0 ("base" | "none")
ClassAfter(d) ==
  [r |-> IF ClassRuleBroken(d) = {} /\ d.assoc THEN "new" ELSE IF d.taken THEN "prev" ELSE "none",
   r0 |-> IF Inherits(d) THEN "base" ELSE "none"]

(* instance-level rules on an associated namespace with fields f1..fn *)
InstanceRules ==
  {[kind |-> "args", what |-> "ctor-unknown-field", exc |-> "UnknownArgsFieldError"],
   [kind |-> "args", what |-> "update-unknown-field", exc |-> "UnknownArgsFieldError"],
   [kind |-> "args", what |-> "get-unknown-field", exc |-> "UnknownArgsFieldError"],
   [kind |-> "args", what |-> "set-field", exc |-> "AttributeError"],
   [kind |-> "args", what |-> "del-field", exc |-> "AttributeError"],
   [kind |-> "args", what |-> "ctor-too-many-values", exc |-> "TypeError"],
   [kind |-> "args", what |-> "ctor-duplicate-value", exc |-> "TypeError"],
   [kind |-> "args", what |-> "instantiate-unassociated", exc |-> "UnassociatedNamespaceError"],
   [kind |-> "args", what |-> "get-render-cls-unassociated", exc |-> "UnassociatedNamespaceError"],
   [kind |-> "data", what |-> "update-unknown-field", exc |-> "UnknownDataFieldError"],
   [kind |-> "data", what |-> "get-unknown-field", exc |-> "UnknownDataFieldError"],
   [kind |-> "data", what |-> "set-unknown-field", exc |-> "UnknownDataFieldError"],
   [kind |-> "data", what |-> "get-uninitialized-field", exc |-> "UninitializedDataFieldError"],
   [kind |-> "data", what |-> "del-field", exc |-> "AttributeError"],
   [kind |-> "data", what |-> "instantiate-unassociated", exc |-> "UnassociatedNamespaceError"],
   [kind |-> "data", what |-> "set-known-field", exc |-> ""],
   [kind |-> "data", what |-> "update-known-field", exc |-> ""],
   [kind |-> "args", what |-> "ctor-known-fields", exc |-> ""],
   [kind |-> "args", what |-> "update-known-field", exc |-> ""]}
=============================================================================
