"""X11 - timing and termination of the animation loops (extension check).

subject:    Renderable._animate_ (new API, reached through Renderable.draw() of an animated renderable) and
            BaseImage._display_animated (old API, through BaseImage.draw() of an animated image), on a VIRTUAL
            clock: perf_counter_ns / sleep of term_image.renderable._renderable and the `time` module seen by
            term_image.image.common are substituted; renders, frame flushes and sleeps consume scripted time.
model:      specs/AnimTiming.tla over specs/AnimTimingCore.tla: clock, frame on screen since when, ordinal of
            the frame in work, static / DYNAMIC durations, render costs, loops / repeat (1, 2, infinite, 0),
            cache, definite / INDEFINITE frame count, Ctrl-C in a render / write / sleep, a duration change
            by the user during the animation; actions Reject, Start, RenderFirst, ShowFirst, RenderNext,
            CacheHit, Sleep, SleepLast, SleepCut, UserSetsDuration, ShowNext, EndOfFrames, NoLastDwell,
            Interrupt, Finish; the laws as invariants on the event history.
spec->code  every run of every scenario family (the state graph is a forest of linear chains; TLC prints
            the complete behaviour of every chain) is replayed into the REAL draw() with the scripted clock and
            compared event by event (kind, frame, begin, end, sleep amount).
code->spec  seeded random scenarios (more frames, longer durations/costs, more loops) are recorded on the real
            code of both APIs and validated by TLC against specs/Trace_AnimTiming.tla; the signature of every
            disagreement - also of those found by the replay - comes from that module.
"""

from __future__ import annotations

import copy
import json
import random
import time
from collections import Counter
from concurrent.futures import ThreadPoolExecutor

from .. import tlc
from .. import x11_world as W
from ..core import Report

ASSUMPTIONS = [
    "the documented behaviour is that of the docstrings: Frame.duration ('duration of the rendered frame (ms)'; "
    "'a zero value indicates that the next frame should be displayed immediately after (without any delay)'), "
    "Renderable.frame_duration ('a static duration i.e the same duration applies to every frame' / DYNAMIC: "
    "'determined at render-time'), BaseImage.frame_duration ('duration of a single frame (in seconds)'), draw() of "
    "both APIs ('infinitely looped ... terminated with SIGINT without raising KeyboardInterrupt'), "
    "RenderIterator / ImageIterator (loops / repeat, cache / cached, INDEFINITE: loops and cache ignored; "
    "'changes to the underlying renderable's frame_duration does not affect the value yielded by an iterator') "
    "and the comments of the two loops ('render next frame during previous frame's duration', 'left-over of "
    "previous frame's duration')",
    "virtual time: only a render (its scripted cost), the flush of a frame (w) and a sleep (the amount asked "
    "for) take time; cursor movements and the clean-up writes take none; a frame is 'shown' when it is flushed",
    "new API: 1 tick = 1 ms (perf_counter_ns = ticks * 10^6); old API: 1 tick = 2^-6 s (time.time = 1024 + "
    "ticks * 2^-6, exact in binary floating point); durations of the old API are set through the frame_duration "
    "setter; the unit of the duration taken from the file (ms -> s) is checked once per trace (Units)",
    "Ctrl-C is delivered as a render / the write of a frame / a sleep BEGINS (no time passes in the interrupted "
    "operation)",
    "NoLastDwell (named deviation, harmless): the old API returns right after flushing the last frame, the new "
    "API sleeps the last frame's duration before the clean-up; the documentation of neither says which - the "
    "last frame stays on screen after draw() anyway",
    "the duration read by the old API's loop is the one at the start of draw() (documentation silent; modelled "
    "like the documented behaviour of the new API: a change during the animation does not reach it)",
    "stdout is a stream that is not a terminal (cursor hiding / termios are C06/C07's)",
]

LAWS = ["TypeOK", "Bounded", "FrameDwell", "NoOverSleep", "NoDrift", "RenderDuringDwell", "OneSleepBetweenFrames",
        "NoSleepBeforeFirstFrame", "Termination", "ZeroFrames", "SleepCount", "InterruptEnds", "NoTraceback",
        "DurationFrozen"]
ACTIONS = ["Reject", "Start", "RenderFirst", "ShowFirst", "RenderNext", "CacheHit", "Sleep", "SleepLast",
           "SleepCut", "UserSetsDuration", "ShowNext", "EndOfFrames", "NoLastDwell", "Interrupt", "Finish"]
# seeded regressions of the MODEL: (variant, cfg, laws one of which must be violated)
VARIANTS = [
    ("nextdur", "MC_AnimTiming_var2.cfg", {"FrameDwell", "NoDrift"}),
    ("firstdur", "MC_AnimTiming_var2.cfg", {"FrameDwell", "NoDrift"}),
    ("livedur", "MC_AnimTiming_var2.cfg", {"FrameDwell", "NoDrift"}),
    ("nomax", "MC_AnimTiming_var.cfg", {"NoOverSleep"}),
    ("oversleep", "MC_AnimTiming_var2.cfg", {"FrameDwell", "NoDrift"}),
    ("startbeforewrite", "MC_AnimTiming_var2.cfg", {"FrameDwell", "NoDrift"}),
    ("cumulative", "MC_AnimTiming_var2.cfg", {"FrameDwell", "NoDrift"}),
    ("nolastsleep", "MC_AnimTiming_var.cfg", {"FrameDwell", "SleepCount"}),
]
MAX_EVENTS = W.MAX_EVENTS


def record(sc: dict) -> dict:
    tr = W.run(sc)
    return tr


def trace_json(tr: dict) -> dict:
    return {"sc": tr["sc"], "ev": tr["ev"][:MAX_EVENTS], "nat": tr["nat"], "rep": tr["rep"],
            "inexact": tr["inexact"], "exc": tr["exc"]}


def validate(traces: list[dict], name: str, rep: Report, workers: int = 2):
    verdicts, st, trn = tlc.validate_traces("Trace_AnimTiming", "Trace_AnimTiming.cfg", traces, batch=250,
                                            parallel=4, workers=workers, timeout=900, name=name)
    rep.states += st
    rep.transitions += trn
    rep.traces_validated += len(traces)
    return verdicts


def ok(v: dict) -> bool:
    return v["verdict"].endswith(":ok")


def sc_class(sc: dict) -> tuple:
    return (sc["api"], sc["indef"], sc["n"], sc["dyn"], sc["loops"], sc["cache"], sc["ik"], sc["chg"] > 0,
            sc["w"] > 0, tuple(min(c, 1) + (c > (sc["durs"][i] if sc["dyn"] else sc["d"]))
                               for i, c in enumerate(sc["costs"])))


def rand_scenario(rng: random.Random) -> dict:
    api = "new" if rng.random() < 0.6 else "old"
    indef = api == "new" and rng.random() < 0.25
    n = rng.choice([0, 1, 2, 3, 4]) if indef else rng.randint(2, 5 if api == "new" else 4)
    dyn = api == "new" and rng.random() < 0.5
    d = rng.choice([1, 2, 3, 4, 6, 8, 12])
    durs = [rng.choice([0, 0, 1, 2, 3, 5, 8, 12]) for _ in range(n)] if dyn else [d] * n
    costs = [rng.choice([0, 0, 1, 2, 3, 5, 8, 13, 20]) for _ in range(n)]
    loops = rng.choice([1, 1, 2, 2, 3, -1])
    cache = rng.random() < 0.5
    ik, ia = "none", 0
    if loops == -1 or rng.random() < 0.3:
        ik = rng.choice(["render", "write", "sleep"])
        ia = rng.randint(1, 2 * max(n, 1) + 2)
        if ik == "render" and (cache or indef) and loops != 1:
            ia = rng.randint(1, max(n, 1))
    if loops == -1 and indef and n == 0:
        pass  # INDEFINITE: loops ignored, ends by itself
    chg, chgv = 0, 0
    if not dyn and ik == "none" and n > 0 and rng.random() < 0.2:
        chg, chgv = rng.randint(1, n), d + rng.choice([1, 2, 5])
    return dict(api=api, indef=indef, n=n, dyn=dyn, d=d, durs=durs, costs=costs, ec=rng.choice([0, 0, 1, 4]),
                loops=loops, cache=cache, w=rng.choice([0, 0, 1, 2, 3]), ik=ik, ia=ia, chg=chg, chgv=chgv)


def first_diff(exp: list[dict], got: list[dict]) -> int | None:
    for i in range(max(len(exp), len(got))):
        if i >= len(exp) or i >= len(got) or exp[i] != got[i]:
            return i
    return None


def report_violations(rep: Report, traces: list[dict], verdicts: list[dict], origin: str, seen: Counter):
    for tr, v in zip(traces, verdicts):
        if ok(v):
            continue
        sig = v["verdict"]
        seen[sig] += 1
        if seen[sig] > 3:
            continue
        at = v["at"]
        evs = tr["ev"]
        lines = [f"{origin}: scenario {json.dumps(tr['sc'], separators=(',', ':'))}",
                 f"clause {sig} fails at event #{at} of {len(evs)}"
                 + (f" (draw() raised {tr['exc']})" if tr.get("exc") else "")]
        for j in range(max(0, at - 4), min(len(evs), at + 1)):
            e = evs[j]
            lines.append(f"  #{j + 1} {e['k']} f={e['f']} t0={e['t0']} t1={e['t1']} a={e['a']}")
        rep.violation(sig, "\n".join(lines), {"sc": tr["sc"]})


def _replay(rep: Report, replay: dict) -> None:
    sc = replay["scenario"]["sc"]
    tr = trace_json(record(sc))
    v = validate([tr], "x11-replay", rep)
    rep.evaluations += 1
    report_violations(rep, [tr], v, "replay", Counter())
    rep.sample({"sc": sc, "events": tr["ev"], "verdict": v[0]["verdict"]})


def main(rep: Report, replay: dict | None) -> None:
    rep.assumptions += ASSUMPTIONS
    rep.rule = (
        "spec->code: every run of every scenario of the AnimTiming families replayed into the real draw() on the "
        "scripted virtual clock, compared event by event; code->spec: one trace per seeded random scenario, judged "
        "by Trace_AnimTiming.tla; distinct_nontrivial = classes (api, frame count, duration kind, loops, cache, "
        "interrupt kind, cost-vs-duration pattern) of scenarios executed on the real code"
    )
    rep.extra["laws"] = LAWS

    if replay:
        _replay(rep, replay)
        return
    quick = rep.tier == "quick"
    timing = rep.extra.setdefault("timing_s", {})
    t0 = time.time()

    def lap(name):
        nonlocal t0
        timing[name] = round(time.time() - t0, 1)
        t0 = time.time()

    spec, cfg = ("MC_AnimTiming", "MC_AnimTiming.cfg") if quick else ("MC_AnimTimingT", "MC_AnimTimingT.cfg")
    seen: Counter = Counter()
    with ThreadPoolExecutor(max_workers=4) as ex:
        f_mc = ex.submit(tlc.run, spec, cfg, workers=3 if quick else 4, timeout=300 if quick else 2400,
                         coverage=True, deadlock=False, check=False)
        f_var = [(v, laws, ex.submit(tlc.run, "MC_AnimTiming", c, workers=1, timeout=300, deadlock=False,
                                     check=False, env={"VARIANT": v})) for v, c, laws in VARIANTS]

        # ---- code -> spec: seeded random scenarios on the real code (while TLC runs)
        rng = random.Random(rep.seed * 7919 + 11)
        nrand = 700 if quick else 12000
        scns = [rand_scenario(rng) for _ in range(nrand)]
        recorded = [trace_json(record(sc)) for sc in scns]
        rep.evaluations += len(recorded)
        for sc in scns:
            rep.distinct.add(sc_class(sc))
        lap("record_random")

        # guards: corrupted copies of recorded traces must be rejected, with the matching clause
        canaries, expect = [], []

        srcs = []
        guards_missing: list[int] = []

        def pick(pred):
            for ti, t in enumerate(recorded):
                for k, e in enumerate(t["ev"]):
                    if pred(t, k, e):
                        srcs.append(ti)
                        return copy.deepcopy(t), k
            guards_missing.append(len(srcs) + len(guards_missing) + 1)
            return None, None

        c, k = pick(lambda t, k, e: e["k"] == "sleep" and e["a"] >= 2 and e["t1"] == e["t0"] + e["a"]
                    and t["sc"]["ik"] == "none")
        if c:
            c["ev"][k]["a"] -= 1  # slept one tick less than the frame had left
            canaries.append(c)
            expect.append("FrameDwell:amount")
        c, k = pick(lambda t, k, e: e["k"] == "sleep" and e["t1"] == e["t0"] + e["a"] and t["sc"]["ik"] == "none")
        if c:
            c["ev"][k]["a"] += 1  # overslept
            canaries.append(c)
            expect.append("NoOverSleep:amount")
        c, k = pick(lambda t, k, e: e["k"] == "show" and k > 3 and t["sc"]["ik"] == "none"
                    and any(x["k"] == "sleep" and x["a"] > 0 for x in t["ev"][k - 2:k]))
        if c:
            for e in c["ev"][k:]:
                e["t0"] += 1
                e["t1"] += 1  # the next frame (and everything after it) one tick late
            canaries.append(c)
            expect.append(None)
        c, k = pick(lambda t, k, e: e["k"] == "intr" and t["sc"]["loops"] == -1)
        if c:
            c["ev"].insert(k + 1, W.ev("sleep", c["ev"][k - 1]["f"] if c["ev"][k - 1]["k"] == "sleep" else 0,
                                       c["ev"][k]["t1"], c["ev"][k]["t1"], 0))  # something happens after Ctrl-C
            canaries.append(c)
            expect.append("InterruptEnds:sleep")
        c, k = pick(lambda t, k, e: e["k"] == "end" and t["sc"]["ik"] == "none" and t["sc"]["api"] == "new"
                    and t["sc"]["n"] > 0 and t["ev"][k - 1]["k"] == "sleep")
        if c:
            del c["ev"][k - 1]  # the last frame gets no dwell
            canaries.append(c)
            expect.append(None)
        f_rand = ex.submit(validate, recorded + canaries, "x11-c2s", rep)

        # ---- the model
        res = f_mc.result()
        if res.violated:
            raise tlc.MachineryError(f"x11: the model violates its own law {res.violated}:\n{res.error_text[:3000]}")
        if res.rc != 0:
            raise tlc.MachineryError(f"x11: TLC failed on {spec} {cfg}:\n{res.stdout[-3000:]}")
        rep.add_tlc(res)
        rep.extra["model"] = {"states": res.distinct, "depth": res.depth, "wall_s": round(res.wall_s, 1)}
        vac = [a for a in ACTIONS if res.coverage.get(a, (0, 0))[0] == 0]
        if vac:
            raise tlc.MachineryError(f"x11: vacuous actions in {cfg}: {vac}")
        rep.extra["coverage"] = {a: res.coverage[a][0] for a in ACTIONS}
        runs = res.tagged("RUN")
        if not runs:
            raise tlc.MachineryError("x11: TLC printed no run")
        runs.sort(key=lambda r: json.dumps(r, sort_keys=True))
        lap("model")

        # ---- spec -> code: every run replayed into the real code
        faithful, diverging = [], []
        steps = 0
        krng = random.Random(rep.seed * 31 + 5)
        kinds: Counter = Counter()
        for run in runs:
            sc = W.norm_sc(run["sc"])
            tr = trace_json(record(sc))
            steps += len(run["hist"])
            rep.distinct.add(sc_class(sc))
            for e in run["hist"]:
                kinds[e["k"]] += 1
            d = first_diff(run["hist"], tr["ev"])
            if d is None and not tr["inexact"] and tr["exc"] != "Runaway" and tr["rep"] == tr["nat"] * 1000:
                faithful.append(tr)
            else:
                diverging.append((tr, d, run["hist"]))
        rep.evaluations += len(runs)
        rep.extra["replay"] = {"runs": len(runs), "model_events_compared": steps, "diverging": len(diverging),
                               "events": dict(kinds)}
        lap("replay_runs")

        # guard: a tampered run must be noticed by the comparison
        tam = copy.deepcopy(next(r for r in runs if any(e["k"] == "sleep" for e in r["hist"])))
        k = next(i for i, e in enumerate(tam["hist"]) if e["k"] == "sleep")
        tam["hist"][k]["a"] += 1
        td = first_diff(tam["hist"], record(W.norm_sc(tam["sc"]))["ev"])
        if td is None or td > k:
            raise tlc.MachineryError("x11: a tampered run (sleep amount + 1) was not noticed by the replay")

        if diverging:
            dt = [t for t, _, _ in diverging]
            dv = validate(dt, "x11-div", rep)
            unconfirmed = [(t, d, h) for (t, d, h), v in zip(diverging, dv) if ok(v)]
            if unconfirmed:
                t, d, h = unconfirmed[0]
                raise tlc.MachineryError(
                    "x11: the replay diverges from the model but Trace_AnimTiming accepts the trace: "
                    f"{json.dumps(t['sc'])} at event {d}: expected {h[d] if d is not None and d < len(h) else None}, "
                    f"got {t['ev'][d] if d is not None and d < len(t['ev']) else None}")
            report_violations(rep, dt, dv, "replay of a model run", seen)
        sample = faithful if not quick else [t for t in faithful if krng.random() < 0.15]
        if sample:
            sv = validate(sample, "x11-faithful", rep)
            bad = [(t, v) for t, v in zip(sample, sv) if not ok(v)]
            if bad:
                raise tlc.MachineryError(
                    f"x11: a run equal to the model's is rejected by Trace_AnimTiming: {bad[0][1]} "
                    f"{json.dumps(bad[0][0]['sc'])}")
        lap("judge_replay")

        # ---- seeded regressions of the model
        vres = {}
        for v, laws, f in f_var:
            r = f.result()
            rep.add_tlc(r)
            if r.violated not in laws:
                raise tlc.MachineryError(f"x11: model regression {v} should violate {sorted(laws)}, "
                                         f"TLC says {r.violated!r} (rc={r.rc})\n{r.stdout[-1500:]}")
            vres[v] = r.violated
        rep.extra["model_regressions"] = vres
        lap("model_regressions")

        # ---- verdicts of the random scenarios
        rv = f_rand.result()
        nr = len(recorded)
        for want, src, v in zip(expect, srcs, rv[nr:]):
            got = v["verdict"].split(":", 1)[1]
            if not ok(rv[src]):
                want = None  # the source trace is itself rejected (a violation): any clause will do
            if got == "ok" or (want and got != want):
                raise tlc.MachineryError(f"x11: corrupted trace not rejected as expected: want {want}, got {got}")
        report_violations(rep, recorded, rv[:nr], "random scenario", seen)
        feats = Counter()
        for t, v in zip(recorded, rv[:nr]):
            sc = t["sc"]
            if not ok(v):
                continue
            feats[sc["api"]] += 1
            feats["intr-" + sc["ik"]] += any(e["k"] == "intr" for e in t["ev"])
            feats["indef"] += sc["indef"]
            feats["zero-frames"] += sc["indef"] and sc["n"] == 0
            feats["dyn"] += sc["dyn"]
            feats["cached-loop"] += sc["cache"] and sc["loops"] != 1 and not sc["indef"]
            feats["infinite"] += sc["loops"] == -1
            feats["chg"] += any(e["k"] == "chg" for e in t["ev"])
            feats["sleep0"] += any(e["k"] == "sleep" and e["a"] == 0 for e in t["ev"])
            feats["sleep+"] += any(e["k"] == "sleep" and e["a"] > 0 for e in t["ev"])
        need = ["new", "old", "intr-render", "intr-write", "intr-sleep", "indef", "zero-frames", "dyn",
                "cached-loop", "infinite", "chg", "sleep0", "sleep+"]
        if not rep.violations:
            if guards_missing:
                raise tlc.MachineryError(f"x11: no recorded trace fits corruption guard(s) #{guards_missing}")
            missing = [k for k in need if feats[k] == 0]
            if missing:
                raise tlc.MachineryError(f"x11: random scenarios never exercised {missing}")
        rep.extra["random"] = {"scenarios": nr, "accepted_features": dict(feats),
                               "corrupted_traces_rejected": [v["verdict"] for v in rv[nr:]]}
        lap("judge_random")

    rep.exhaustive = True
    if faithful:
        rep.sample({"sc": faithful[len(faithful) // 2]["sc"], "events": faithful[len(faithful) // 2]["ev"]})
    rep.extra["violation_signatures"] = dict(seen)
