"""C16 self-test: seeded code mutations.

usage: /venv/bin/python selftest/c16_mutations.py <name>|all [-v]
Copies /repo/src to /tmp/build-c16, applies the named mutation, runs the quick check with
VERIF_REPO pointing at the copy (expected exit 1, except `reassoc_ok`, an equivalent mutant,
and `none`), removes the copy.  See notes/C16.md for what catches each.
"""
import subprocess, sys, shutil, os
T = "/tmp/build-c16/src/term_image/renderable/_types.py"
R = "/tmp/build-c16/src/term_image/renderable/_renderable.py"
MUTS = {
 "nocopy": [(T, "        namespaces_dict = render_cls._ALL_DEFAULT_ARGS.copy()\n",
                "        namespaces_dict = render_cls._ALL_DEFAULT_ARGS\n"),
            (R, "        new_cls._ALL_DEFAULT_ARGS = MappingProxyType(all_default_args)\n",
                "        new_cls._ALL_DEFAULT_ARGS = all_default_args\n"),
            (T, """                render_cls._ALL_DEFAULT_ARGS = MappingProxyType(
                    {render_cls: args_cls(), **render_cls._ALL_DEFAULT_ARGS}
                )""", """                render_cls._ALL_DEFAULT_ARGS = (
                    {render_cls: args_cls(), **render_cls._ALL_DEFAULT_ARGS}
                )""")],
 "nocopy_plain": [(T, "        namespaces_dict = render_cls._ALL_DEFAULT_ARGS.copy()\n",
                "        namespaces_dict = render_cls._ALL_DEFAULT_ARGS\n")],
 "intern_nondefault": [(T, """        if not namespaces and (
            not init_render_args
            or init_render_args is BASE_RENDER_ARGS
            or (
                type(self)._interned.get(init_render_args.render_cls)
                is init_render_args
            )
        ):
            if render_cls in type(self)._interned:  # has been initialized
                return
            intern = True""", """        if not namespaces and (
            not init_render_args
            or init_render_args is BASE_RENDER_ARGS
            or (
                type(self)._interned.get(init_render_args.render_cls)
                is init_render_args
            )
        ):
            if render_cls in type(self)._interned:  # has been initialized
                return
            intern = True
        elif not namespaces and render_cls not in type(self)._interned and init_render_args is not self:
            intern = True""")],
 "issubclass_reversed": [(T, "        if init_render_args and not issubclass(render_cls, init_render_args.render_cls):",
                             "        if init_render_args and not issubclass(init_render_args.render_cls, render_cls):")],
 "hash_no_cls": [(T, "        return hash((self.render_cls, tuple(self._namespaces.values())))",
                     "        return hash(tuple(self._namespaces.values()))")],
 "precedence_reversed": [(T, "        for index, namespace in enumerate(namespaces):\n            if namespace._RENDER_CLS not in namespaces_dict:",
                             "        for index, namespace in reversed(list(enumerate(namespaces))):\n            if namespace._RENDER_CLS not in namespaces_dict:")],
 "ror_tie": [(T, """        if isinstance(other, ArgsNamespace) and (
            type(self)._RENDER_CLS is type(other)._RENDER_CLS
        ):
            return RenderArgs(type(self)._RENDER_CLS, self)
""", "")],
 "convert_parent_drops": [(T, """                *[
                    namespace
                    for cls, namespace in self._namespaces.items()
                    if cls in render_cls_args_mro
                ],""", """                *[
                    namespace
                    for cls, namespace in self._namespaces.items()
                    if cls in render_cls_args_mro and cls is not render_cls
                ],""")],
 "nsupdate_inplace": [(T, """        new = type(self).__new__(type(self))
        new_fields = self.as_dict()""", """        new = self
        new_fields = self.as_dict()""")],
 "eq_no_cls": [(T, """                or self.render_cls is other.render_cls
                and self._namespaces == other._namespaces""", """                or self._namespaces == other._namespaces""")],
 "no_default_ok": [(T, """            except KeyError as e:
                raise RenderArgsError(
                    f"Field {e.args[0]!r} has no default value"
                ) from None""", """            except KeyError as e:
                defaults = {
                    name: namespace.get(name)
                    for name in namespace.get("__annotations__", ())
                }""")],
 "init_overrides_ns": [(T, """        if init_render_args and BASE_RENDER_ARGS is not init_render_args is not (
            type(self)._interned.get(init_render_args.render_cls)
        ):
            namespaces_dict.update(init_render_args._namespaces)

        for index, namespace in enumerate(namespaces):
            if namespace._RENDER_CLS not in namespaces_dict:
                raise IncompatibleArgsNamespaceError(
                    f"'namespaces[{index}]' (associated with "
                    f"{namespace._RENDER_CLS.__name__!r}) is incompatible with "
                    f"{render_cls.__name__!r} "
                )
            namespaces_dict[namespace._RENDER_CLS] = namespace
""", """        for index, namespace in enumerate(namespaces):
            if namespace._RENDER_CLS not in namespaces_dict:
                raise IncompatibleArgsNamespaceError(
                    f"'namespaces[{index}]' (associated with "
                    f"{namespace._RENDER_CLS.__name__!r}) is incompatible with "
                    f"{render_cls.__name__!r} "
                )
            namespaces_dict[namespace._RENDER_CLS] = namespace

        if init_render_args and BASE_RENDER_ARGS is not init_render_args is not (
            type(self)._interned.get(init_render_args.render_cls)
        ):
            namespaces_dict.update(init_render_args._namespaces)
""")],
 "return_init_any_cls": [(T, """                and type(init_render_args) is cls
                and init_render_args.render_cls is render_cls
            ):""", """                and type(init_render_args) is cls
            ):""")],
 "or_incompat_accept": [(T, """            if issubclass(other_render_cls, self_render_cls):
                return RenderArgs(other_render_cls, self, other)
            raise IncompatibleArgsNamespaceError(""", """            if issubclass(other_render_cls, self_render_cls):
                return RenderArgs(other_render_cls, self, other)
            return RenderArgs(other_render_cls, other)
            raise IncompatibleArgsNamespaceError(""")],
 "reassoc_ok": [(T, """                if base._associated:
                    raise RenderArgsDataError(""", """                if False:
                    raise RenderArgsDataError(""")],
 "data_second_ns_ok": [(T, """            if render_cls._Data_:
                raise RenderDataError(""", """            if False:
                raise RenderDataError(""")],
 "data_unknown_field_ok": [(T, """        if name in type(self)._FIELDS:
            raise UninitializedDataFieldError(""", """        if True:
            raise UninitializedDataFieldError(""")],
 "multiple_bases_ok": [(T, """            if len(bases) > 1:
                raise RenderArgsDataError("Multiple base classes")
""", "")],
 # the coordinator's seeded regression /verif/seeded/C16-s2: a namespace argument that IS the
 # shared default instance (extracted from a set) is skipped as "already in place"
 "skip_shared_default": [(T, "            namespaces_dict[namespace._RENDER_CLS] = namespace\n",
     "            if namespace is not render_cls._ALL_DEFAULT_ARGS[namespace._RENDER_CLS]:\n"
     "                namespaces_dict[namespace._RENDER_CLS] = namespace\n")],
 # the coordinator's seeded regression /verif/seeded/C16-u2: single-pass DataNamespace.update
 "data_update_single_pass": [(T, """        if fields:
            unknown = fields.keys() - type(self)._FIELDS.keys()
            if unknown:
                raise UnknownDataFieldError(
                    f"Unknown render data field(s) {tuple(unknown)} for "
                    f"{type(self)._RENDER_CLS.__name__!r}"
                )

            setattr_ = super().__setattr__
            for field in fields.items():
                setattr_(*field)
""", """        setattr_ = super().__setattr__
        unknown = []
        for name, value in fields.items():
            try:
                setattr_(name, value)
            except AttributeError:
                unknown.append(name)
        if unknown:
            raise UnknownDataFieldError(
                f"Unknown render data field(s) {tuple(unknown)} for "
                f"{type(self)._RENDER_CLS.__name__!r}"
            )
""")],
 "data_set_wrong_field": [(T, """            setattr_ = super().__setattr__
            for field in fields.items():
                setattr_(*field)
""", """            setattr_ = super().__setattr__
            for field in reversed(fields.items()):
                setattr_(*field)
                break
""")],
 # the coordinator's seeded regression /verif/seeded/C16-v2: ArgsNamespace.__hash__ keyed on
 # type(self) instead of the associated render class (subclass instances hash differently)
 "nshash_by_type": [(T, """        return hash(
            (
                type(self)._RENDER_CLS,
                tuple([getattr(self, field) for field in type(self)._FIELDS]),
            )
        )""", """        cls = type(self)
        return hash((cls, tuple([getattr(self, field) for field in cls._FIELDS])))""")],
 # seeded /verif/seeded/C16-y2: ArgsNamespace.update() treats a given None as "not given"
 "nsupdate_none_keeps_old": [(T, """        new_fields = self.as_dict()
        new_fields.update(fields)
""", """        get = fields.get
        new_fields = {
            name: getattr(self, name) if (value := get(name)) is None else value
            for name in type(self)._FIELDS
        }
""")],
 # own variant: falsy values treated as "not given"
 "nsupdate_falsy_keeps_old": [(T, """        new_fields = self.as_dict()
        new_fields.update(fields)
""", """        new_fields = {
            name: fields.get(name) or getattr(self, name) for name in type(self)._FIELDS
        }
""")],
 # seeded /verif/seeded/C16-y1: re-association guard only looks at the direct base
 "reassoc_deep_ok": [(T, """                if base._associated:
                    raise RenderArgsDataError(""", """                if "_FIELDS" in base.__dict__:  # defines fields => associated
                    raise RenderArgsDataError("""),
                     (T, '''                if not fields:
                    raise RenderArgsDataError(''', '''                if not (fields or base._FIELDS):
                    raise RenderArgsDataError(''')],
 "nshash_no_cls": [(T, """        return hash(
            (
                type(self)._RENDER_CLS,
                tuple([getattr(self, field) for field in type(self)._FIELDS]),
            )
        )""", """        return hash(
            (
                tuple([getattr(self, field) for field in type(self)._FIELDS]),
            )
        )""")],
 # ---- round 7: identity of the constituents, unhashable field values ----
 # seeded /verif/seeded/C16-z2: unary + memoised BY VALUE (lru_cache keyed by __hash__/__eq__)
 "pos_value_cache": [(T, "    def __pos__(self) -> RenderArgs:\n",
                         "    @__import__('functools').lru_cache(maxsize=256)\n    def __pos__(self) -> RenderArgs:\n")],
 # own: the constructor stores an equal COPY of every namespace given
 "ctor_copies_namespaces": [(T, "            namespaces_dict[namespace._RENDER_CLS] = namespace\n",
                                "            namespaces_dict[namespace._RENDER_CLS] = namespace.update(**namespace.as_dict())\n")],
 # own: to_render_args memoised by value in a dict
 "to_render_args_value_cache": [(T, "        return RenderArgs(render_cls or type(self)._RENDER_CLS, self)\n",
                                    "        try:\n            return _TRA_CACHE.setdefault((render_cls, self), RenderArgs(render_cls or type(self)._RENDER_CLS, self))\n        except TypeError:\n            return RenderArgs(render_cls or type(self)._RENDER_CLS, self)\n"),
                                (T, "BASE_RENDER_ARGS = RenderArgs.__new__(RenderArgs, None)",
                                    "_TRA_CACHE = {}\nBASE_RENDER_ARGS = RenderArgs.__new__(RenderArgs, None)")],
 # seeded /verif/seeded/C09-z1 (core of it): RenderArgs.__eq__ rejects early on a hash mismatch
 "raeq_hash_shortcut": [(T, "                or self.render_cls is other.render_cls\n                and self._namespaces == other._namespaces\n",
                            "                or self.render_cls is other.render_cls\n                and hash(self) == hash(other)\n                and self._namespaces == other._namespaces\n")],
 # own: ArgsNamespace.__eq__ compares the value tuples through their hashes first
 "nseq_hash_shortcut": [(T, "                type(self)._RENDER_CLS is type(other)._RENDER_CLS\n                and all(\n",
                            "                type(self)._RENDER_CLS is type(other)._RENDER_CLS\n                and hash(self) == hash(other)\n                and all(\n")],
 # own: `ns in set` through a set of the constituents
 "contains_via_set": [(T, "        return None is not self._namespaces.get(namespace._RENDER_CLS) == namespace\n",
                          "        return namespace in set(self._namespaces.values())\n")],
}
if sys.argv[1] == "all":
    for n in MUTS:
        subprocess.run([sys.executable, __file__, n])
    sys.exit(0)
name = sys.argv[1]
shutil.rmtree("/tmp/build-c16", ignore_errors=True)
os.makedirs("/tmp/build-c16")
subprocess.run(["rsync", "-a", "/repo/src", "/tmp/build-c16/"], check=True)
if name != "none":
    for path, old, new in MUTS[name]:
        s = open(path).read()
        assert s.count(old) == 1, (name, path, s.count(old))
        open(path, "w").write(s.replace(old, new))
env = dict(os.environ, VERIF_REPO="/tmp/build-c16")
p = subprocess.run(["./check", "C16"] + [a for a in sys.argv[2:] if a != "-v"], cwd="/verif", env=env, capture_output=True, text=True, timeout=1500)
lines = p.stdout.splitlines()
print(f"== {name}: exit {p.returncode}")
sigs = sorted({l.strip() for l in lines if l.strip().startswith("signature:")})
for s_ in sigs[:12]: print("   ", s_)
if p.returncode == 2 or "-v" in sys.argv: print("\n".join(lines[:40]))
print("   ", lines[-1] if lines else "")
shutil.rmtree("/tmp/build-c16", ignore_errors=True)
