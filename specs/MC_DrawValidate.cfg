SPECIFICATION Spec
INVARIANT Sane
INVARIANT StillDrawOfAnimatedSource
INVARIANT RelaxingNeverRejects
CHECK_DEADLOCK FALSE
