"""C14 code -> spec: threads that come into existence while a synchronized call is in progress, and threads the
``threading`` module does not know (real threads, real ``lock_tty``, no stand-in of any kind).

Run as ``python -m harness.c14_newcomer_worker <job.json>`` (protocol of ``c14_real.launch_sync``).  The process
adopts a pty, imports ``term_image`` and has exactly ONE thread (no watchdog, no responder: nothing here is created
through ``threading`` before the scenarios ask for it; the driver's time limit is the watchdog).  No process is
started.  Each scenario is TtyLock's ``Create`` action on the real code:

* the main thread enters a ``lock_tty``-decorated probe (stamp ``enter``);
* a second thread - ``kind`` = ``threading`` (``threading.Thread``) or ``raw`` (``_thread.start_new_thread``) - is
  created ``when`` = ``inside`` the call (by the call itself) or ``before`` it (then it is released from inside);
* the second thread makes a synchronized call (stamps ``enter`` / ``exit``);
* the main thread stays inside until the second thread has either entered (then the stamps overlap) or is found
  WAITING in the library (its innermost Python frame is in ``term_image/utils.py``, unchanged over 20 polls 5 ms
  apart - no timing assumption can produce a false alarm: a wrong "it waits" only lets the main thread leave early);
* the main thread leaves (stamp ``exit``); the second thread must finish.

The stamps (sequence numbers from a counter under its own raw lock) are judged by ``specs/Trace_TtyLock.tla``.
"""

from __future__ import annotations

import _thread
import json
import sys
import threading
import time

SCENARIOS = [("threading", "inside"), ("raw", "inside"), ("raw", "before"), ("threading", "before")]


def run_scenario(utils, kind, when):
    ev, seq, sl = [], [0], _thread.allocate_lock()
    state = dict(entered2=False, ident2=None, done2=False, calls=0, returned=0, decided="", error="")
    go = _thread.allocate_lock()
    go.acquire()

    def stamp(k, t, d=1):
        with sl:
            seq[0] += 1
            ev.append(dict(k=k, p=0, t=t, d=d, seq=seq[0]))

    def count(what):
        with sl:
            state[what] += 1

    @utils.lock_tty
    def inner():
        stamp("enter", 2)
        state["entered2"] = True
        stamp("exit", 2)

    def second():
        state["ident2"] = _thread.get_ident()
        try:
            if when == "before":
                go.acquire()
            count("calls")
            inner()
            count("returned")
        except BaseException as e:  # reported as machinery by the driver
            state["error"] = repr(e)
        finally:
            state["done2"] = True

    def start_second():
        if kind == "threading":
            threading.Thread(target=second, daemon=True).start()
        else:
            _thread.start_new_thread(second, ())

    def wait_until_decided():
        deadline = time.monotonic() + 10
        same, last = 0, None
        while time.monotonic() < deadline:
            if state["entered2"]:
                return "entered"
            fr = sys._current_frames().get(state["ident2"]) if state["ident2"] else None
            here = (fr.f_code.co_filename, fr.f_code.co_name, fr.f_lineno) if fr is not None else None
            if here and here[0].replace("\\", "/").endswith("term_image/utils.py"):
                same = same + 1 if here == last else 1
                last = here
                if same >= 20:
                    return f"waiting in {here[1]}:{here[2]}"
            else:
                same, last = 0, None
            time.sleep(0.005)
        return ""

    @utils.lock_tty
    def outer():
        stamp("enter", 1)
        try:
            if when == "inside":
                start_second()
            else:
                go.release()
            state["decided"] = wait_until_decided()
        finally:
            stamp("exit", 1)

    visible_before = threading.active_count()
    if when == "before":
        start_second()
        t0 = time.monotonic()
        while state["ident2"] is None and time.monotonic() - t0 < 10:
            time.sleep(0.001)
    count("calls")
    outer()
    count("returned")
    t0 = time.monotonic()
    while not state["done2"] and time.monotonic() - t0 < 10:
        time.sleep(0.002)
    t0 = time.monotonic()
    while threading.active_count() > 1 and time.monotonic() - t0 < 5:  # the next scenario starts single-threaded again
        time.sleep(0.002)
    return dict(kind=kind, when=when, ev=ev, q=[], calls=state["calls"], returned=state["returned"], stalled=False,
                decided=state["decided"], finished=state["done2"], error=state["error"],
                visible_before=visible_before, lock=type(utils._tty_lock).__module__)


def main():
    job = json.load(open(sys.argv[1]))
    sys.path.insert(0, job["src"])
    import warnings

    from harness.env import c15_pty

    c15_pty.become_pty_process(80, 24, 640, 384)
    warnings.simplefilter("ignore")
    from term_image import utils

    out = dict(tty_fd=utils._tty_fd != -1, threads_at_start=threading.active_count(), scenarios=[])
    for kind, when in SCENARIOS:
        if job.get("only") and f"{kind}-{when}" not in job["only"]:
            continue
        out["scenarios"].append(run_scenario(utils, kind, when))
    with open(job["result_file"], "w") as f:
        json.dump(out, f)


if __name__ == "__main__":
    main()
