-------------------------- MODULE Trace_RenderArgs --------------------------
(***************************************************************************)
(* C16: code -> spec.  Each trace is one history of REAL RenderArgs /       *)
(* ArgsNamespace operations on a dynamically created class tree (up to 8    *)
(* classes), recorded at the return of every public call:                   *)
(*   ev.op    [op, a, b, cls, nss, kw]  (object ids = order of first sight;   *)
(*            a negative namespace operand -(16*set+cls) = set[cls] extracted) *)
(*   ev.exc   class names along the MRO of the raised exception (<<>> none)  *)
(*   ev.rid   id of the returned object (Len+1 = never seen before)          *)
(*   ev.heap  observed [k, c, v] of EVERY live object after the call         *)
(*   ev.dmiss pairs (i, j), i == j observed, where j is not found in a dict   *)
(*            / set keyed by i                                                *)
(*   ev.held  for a resulting SET: per class the identity tokens of the live *)
(*            objects its constituent IS (i = namespace #i, -(16*s+k) = the   *)
(*            object set #s holds for k); <<>> for a namespace result         *)
(*   ev.uh    ids whose hash() raises TypeError;  ev.err = "" or which of     *)
(*            "eq" / "contains" / "hash" raised an exception on live objects  *)
(*   ev.eq / ev.heq / ev.ct / ev.gi   observed ==, hash-equality, `in`,      *)
(*            set[cls] outcomes over all live objects;  ev.bad = pairs where *)
(*            == is not symmetric / reflexive / the negation of !=           *)
(* The model heap is rebuilt from RenderArgs!Expected alone; a step is       *)
(* total and the verdict names the first failing clause and event.          *)
(* Identity is permitted nondeterminism: the call may return a fresh object  *)
(* or any existing object whose record equals the required one.              *)
(***************************************************************************)
EXTENDS RenderArgs, TLC, Json, IOUtils

Traces == JsonDeserialize(IOEnv.TRACE_FILE)

VARIABLES tid, l, obj, verdict, at, nacc, nrej
vars == <<tid, l, obj, verdict, at, nacc, nrej>>

Tr == Traces[tid]
NEv == Len(Tr.ev)
Range(s) == {s[i] : i \in DOMAIN s}
T == [par |-> Tr.par, has |-> Range(Tr.has)]

OpNames == {"NsNew", "NsUpdate", "New", "UpdateNs", "Update", "Convert", "Or", "Ror", "Pos",
            "ToRenderArgs"}

WellTyped(h, op) ==
  LET ids == 1..Len(h)
      ra(i) == i \in ids /\ h[i].k = "ra"
      \* a heap namespace, or one extracted from a live set (see RenderArgs!At)
      ns(i) == \/ i \in ids /\ h[i].k = "ns"
               \/ i < 0 /\ ra(RefRa(i)) /\ RefK(i) \in AMRO(T, h[RefRa(i)].c)
      cl(c) == c \in 0..NCls(T)
  IN /\ op.op \in OpNames
     /\ \A i \in DOMAIN op.kw : Len(op.kw[i]) = 2 /\ op.kw[i][1] \in 1..3 /\ op.kw[i][2] \in Vals
     /\ \A i \in DOMAIN op.nss : ns(op.nss[i])
     /\ CASE op.op = "NsNew" -> op.cls \in T.has /\ op.b \in {0, 1, 2}
          [] op.op \in {"NsUpdate", "Pos"} -> ns(op.a)
          [] op.op = "New" -> cl(op.cls) /\ (op.a = 0 \/ ra(op.a))
          [] op.op = "UpdateNs" -> ra(op.a) /\ Len(op.nss) >= 1
          [] op.op \in {"Update", "Convert"} -> ra(op.a) /\ cl(op.cls)
          [] op.op \in {"Or", "Ror"} -> ns(op.a) /\ (op.b \in ids \/ ns(op.b))
          [] op.op = "ToRenderArgs" -> ns(op.a) /\ (op.cls < 0 \/ cl(op.cls))

Clause(h, ev) ==
  IF ~WellTyped(h, ev.op) THEN "trace-malformed: operation does not fit the heap"
  ELSE
  LET e == Expected(T, h, ev.op)
      name == ev.op.op
      fresh == ev.rid = Len(h) + 1
      h2 == IF e.rej = {} /\ fresh THEN Append(h, e.rec) ELSE h
      eqs == Range(ev.eq)
      heqs == Range(ev.heq)
  IN
  IF e.rej # {} /\ ev.exc = <<>>
    THEN "accepts:" \o name \o ": accepted although the documentation requires a rejection"
  ELSE IF e.rej = {} /\ ev.exc # <<>>
    THEN "rejects:" \o name \o ": raised although every constituent is compatible"
  ELSE IF e.rej # {} /\ e.rej \cap Range(ev.exc) = {}
    THEN "exception-class:" \o name \o ": not (a subclass of) the documented exception"
  ELSE IF e.rej = {} /\ ev.rid \notin 1..(Len(h) + 1)
    THEN "trace-malformed: result id"
  ELSE IF e.rej = {} /\ ~fresh /\ Proj(h[ev.rid]) # Proj(e.rec)
    THEN "alias:" \o name \o ": returned an existing object that does not have the required value"
  ELSE IF e.rej = {} /\ e.hold # <<>> /\ Len(ev.held) # Len(e.hold)
    THEN "trace-malformed: held"
  ELSE IF e.rej = {} /\ e.hold # <<>>
          /\ \E k \in DOMAIN e.hold : e.hold[k] # 0 /\ e.hold[k] \notin Range(ev.held[k])
    THEN "holds:" \o name \o ": the set does not hold the namespace OBJECT given for a class (last one given, else the initial set's) but another one"
  ELSE IF Len(ev.heap) # Len(h2)
    THEN "trace-malformed: heap length"
  ELSE IF e.rej = {} /\ fresh /\ ev.heap[ev.rid] # Proj(e.rec)
    THEN "value:" \o name \o ": result differs from (last namespace given, else initial set's, else default)"
  ELSE IF \E i \in 1..Len(h) : ev.heap[i] # Proj(h[i])
    THEN "mutated:" \o name \o ": an existing object changed"
  ELSE IF ev.err # ""
    THEN ev.err \o "-raises: comparing / looking up objects with legal field values raised"
  ELSE IF eqs # EqPairs(h2)
    THEN "eq: == disagrees with (same class and equal values)"
  ELSE IF Range(ev.uh) # Unhashables(h2)
    THEN "hashability: hash() must raise TypeError iff a field value is unhashable"
  ELSE IF ~(HashEqPairs(h2) \subseteq heqs)
    THEN "hash-law: equal objects hash differently"
  ELSE IF ev.dmiss # <<>>
    THEN "dict-lookup: an equal object is not found as dict key / set member"
  ELSE IF ClassOnlyPairs(h2) \cap heqs # {}
    THEN "hash-ignores-class: objects differing only in the render class hash equal"
  ELSE IF \E i \in 1..Len(h2) : ev.gi[i] # GetItems(T, h2[i])
    THEN "getitem: set[cls] outcome"
  ELSE IF Range(ev.ct) # {p \in (1..Len(h2)) \X (1..Len(h2)) :
                           h2[p[1]].k = "ra" /\ h2[p[2]].k = "ns" /\ Contains(h2[p[1]], h2[p[2]])}
    THEN "contains: namespace in set"
  ELSE IF ev.bad # <<>>
    THEN "eq-not-an-equivalence: == is not reflexive / symmetric / the negation of !="
  ELSE "ok"

Init ==
  /\ tid \in 1..Len(Traces)
  /\ l = 0
  /\ obj = <<>>
  /\ verdict = "ok"
  /\ at = 0
  /\ nacc = 0
  /\ nrej = 0

Step ==
  /\ l < NEv
  /\ l' = l + 1
  /\ UNCHANGED tid
  /\ IF verdict # "ok"
     THEN UNCHANGED <<obj, verdict, at, nacc, nrej>>
     ELSE LET ev == Tr.ev[l + 1]
              v == Clause(obj, ev)
          IN /\ verdict' = v
             /\ at' = IF v # "ok" THEN l + 1 ELSE at
             /\ IF v # "ok" THEN UNCHANGED <<obj, nacc, nrej>>
                ELSE LET e == Expected(T, obj, ev.op) IN
                     /\ obj' = IF e.rej = {} /\ ev.rid = Len(obj) + 1 THEN Append(obj, e.rec) ELSE obj
                     /\ nacc' = nacc + (IF e.rej = {} THEN 1 ELSE 0)
                     /\ nrej' = nrej + (IF e.rej = {} THEN 0 ELSE 1)

Finish == l = NEv /\ l' = NEv + 1 /\ UNCHANGED <<tid, obj, verdict, at, nacc, nrej>>

Next == Step \/ Finish
Spec == Init /\ [][Next]_vars

Done == l = NEv + 1
Report ==
  Done => PrintT(<<"VERDICT", ToJson([tid |-> tid, verdict |-> verdict, at |-> at, n |-> NEv,
                                      acc |-> nacc, rej |-> nrej, heap |-> Len(obj)])>>)
\* the model heap stays well formed whatever the trace says
ModelHeapWellFormed == \A i \in 1..Len(obj) : WellFormed(T, obj[i])
=============================================================================
