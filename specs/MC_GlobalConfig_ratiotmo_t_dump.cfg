SPECIFICATION Spec
CONSTANTS
  Profiles <- ProfTmoThorough
  Floats <- F1
  Tmos <- T2
  DefaultTmo <- Default
  NonPos = {"zero", "negative"}
  WrongTypes = {"str", "none"}
  TtyWorlds = {TRUE, FALSE}
  ProgWorlds = {FALSE}
  Ops <- OpsRatioTmoSup
  Variant = "code"
VIEW View
ACTION_CONSTRAINT Dump
INVARIANT InitDump
CHECK_DEADLOCK FALSE
