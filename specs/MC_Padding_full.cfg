SPECIFICATION Spec
CONSTANTS
  MaxRW = 6
  MaxRH = 4
  NegMin = 3
  MaxMin = 8
  TermWLo = 4
  TermWHi = 9
  TermHLo = 3
  TermHHi = 6
  ExactHi = 2
  ChainAll = TRUE
INVARIANT WidthIsMax
INVARIANT HeightIsMax
INVARIANT MarginsNonNegative
INVARIANT AlignmentPlaces
INVARIANT ToExactAgrees
INVARIANT NoEffectWhenNotLarger
INVARIANT ExactIsExact
INVARIANT RelativeRefused
INVARIANT ResolveRule
INVARIANT ResolveIdempotent
INVARIANT NegativeExactRejected
INVARIANT OldApiAgrees
INVARIANT Dump
CHECK_DEADLOCK FALSE
