"""Seeded mutations for C18 (record format of selftest/mutations.py; a file of its own so that
concurrent builders do not edit the shared registry - merge at will).

    /venv/bin/python -m selftest.mutations_c18 [id ...]     # runs ./check C18 on each mutant
    /venv/bin/python -m selftest.mutations_c18 --fixed      # only the repaired tree: must exit 0

The tree as designed against (repo commit 840eec5) violated C18 in three ways (F8, a bare top-level
image canvas never tracked, one disguise change per vanished cview aliasing modulo 3); they were
repaired in /repo by f57fa90, 1f1e502 and 1fd30ed.  Every mutant is applied on top of the repairs
(REPAIRS are applied only where the scratch copy still has the old code) and counts as caught iff
the quick check exits 1.  The repaired tree itself must exit 0.  ``equivalent`` marks a mutant that cannot change behaviour (documented, expected
exit 0).
"""

from __future__ import annotations

import os
import shutil
import subprocess
import sys
from pathlib import Path

VERIF = Path(__file__).resolve().parent.parent
FILE = "widget/_urwid.py"

# minimal repairs of the three defects C18 finds on the unchanged tree
REPAIRS = [
    dict(old='                self._ti_image_cviews.clear()\n            return\n',
         new='                self._ti_image_cviews = frozenset()\n            return\n'),
    dict(old='        if not isinstance(screen_canv, urwid.CompositeCanvas):\n            if self._ti_image_cviews:',
         new='        if isinstance(screen_canv, UrwidImageCanvas):\n            shards = [(screen_canv.rows(), [(0, 0, screen_canv.cols(), screen_canv.rows(), None, screen_canv)])]\n        elif isinstance(screen_canv, urwid.CompositeCanvas):\n            shards = screen_canv.shards\n        else:\n            if self._ti_image_cviews:'),
    dict(old='        for n_rows, cviews in screen_canv.shards:',
         new='        for n_rows, cviews in shards:'),
    dict(old='            if isinstance(widget._ti_image, KittyImage):\n                kitty_widgets.append(widget)\n            else:',
         new='            if isinstance(widget._ti_image, KittyImage):\n                if widget not in kitty_widgets:\n                    kitty_widgets.append(widget)\n            else:'),
]

MUTATIONS = {
    # ---- reverts of the three fix commits: must be caught with the ORIGINAL signatures ----------
    "c18-revert-f57fa90-frozenset-clear": dict(
        file=FILE, props=["C18"],
        expect="draw_screen:non-composite-after-images:AttributeError",
        old="                self._ti_image_cviews = frozenset()\n            return\n",
        new="                self._ti_image_cviews.clear()\n            return\n",
    ),
    "c18-revert-1f1e502-clear-per-cview": dict(
        file=FILE, props=["C18"],
        expect="draw_screen:3-cviews-of-one-widget-gone:missing",
        old="                if widget not in kitty_widgets:\n                    kitty_widgets.append(widget)\n",
        new="                kitty_widgets.append(widget)\n",
    ),
    "c18-revert-1fd30ed-top-level-image": dict(
        file=FILE, props=["C18"],
        expect="draw_screen:top-level-image-canvas:ghost",
        old="        elif isinstance(screen_canv, UrwidImageCanvas):\n",
        new="        elif False:\n",
    ),
    # ---- regressions that need a widget SUBCLASS / a direct clear_images(now=True) call ------------
    "c18-allocator-per-class-counter": dict(
        file=FILE, props=["C18"], expect="UrwidImage:z-index-allocator:z-not-distinct",
        old="""    @staticmethod
    def _ti_get_z_index() -> int:
        if __class__._ti_free_z_indexes:
            return __class__._ti_free_z_indexes.pop()

        z_index = __class__._ti_next_z_index
        if z_index == 2**31:
            raise UrwidImageError("Too many image widgets with the kitty render style")
        __class__._ti_next_z_index = -z_index if z_index > 0 else -z_index + 1
""",
        new="""    @classmethod
    def _ti_get_z_index(cls) -> int:
        if cls._ti_free_z_indexes:
            return cls._ti_free_z_indexes.pop()

        z_index = cls._ti_next_z_index
        if z_index == 2**31:
            raise UrwidImageError("Too many image widgets with the kitty render style")
        cls._ti_next_z_index = -z_index if z_index > 0 else -z_index + 1
""",
    ),
    "c18-clear-now-keeps-disguise": dict(
        file=FILE, props=["C18"], expect="draw_screen:composite:missing",
        old="                self.write(ctlseqs.KITTY_DELETE_ALL)\n            UrwidImageCanvas._ti_change_disguise()",
        new="                self.write(ctlseqs.KITTY_DELETE_ALL)\n                UrwidImageCanvas._ti_change_disguise()",
    ),
    "c18-clear-widget-now-keeps-disguise": dict(
        file=FILE, props=["C18"], expect="draw_screen:composite:missing",
        old="                    kitty_widgets.append(widget)\n                    widget._ti_change_disguise()",
        new="                    kitty_widgets.append(widget)\n                    now or widget._ti_change_disguise()",
    ),
    # ---- need a format spec with a z field / a forced-support terminal other than kitty, Konsole -----
    "c18-spec-z-field-overrides": dict(
        file=FILE, props=["C18"], expect="draw_screen:composite:wrong-z-index",
        old='            style_args["z_index"] = self._ti_z_index = self._ti_get_z_index()\n',
        new='            self._ti_z_index = self._ti_get_z_index()\n'
            '            style_args.setdefault("z_index", self._ti_z_index)\n',
    ),
    "c18-blend-false-only-on-kitty": dict(
        file=FILE, props=["C18"], expect="draw_screen:composite:duplicate",
        old='            if get_terminal_name_version()[0] != "konsole":\n                # To clear directly',
        new='            if get_terminal_name_version()[0] == "kitty":\n                # To clear directly',
    ),
    # ---- needs a pending terminal resize (urwid drops the frame), then the SAME canvas painted --------
    "c18-no-bookkeeping-while-resized": dict(
        file=FILE, props=["C18"], expect="draw_screen:composite:ghost",
        old="                self._ti_screen_canv = canvas\n                self._ti_clear_images()\n",
        new="                self._ti_screen_canv = canvas\n                if not self._resized:\n"
            "                    self._ti_clear_images()\n",
    ),
    # DESIGN.md must-catch
    'c18-cviews-without-row-col': dict(
        file=FILE, props=["C18"],
        old='image_cviews.add((canv, row, col, *trim, cols, rows))',
        new='image_cviews.add((canv, *trim, cols, rows))',
    ),
    # DESIGN.md must-catch
    'c18-shard-tail-off-by-one': dict(
        file=FILE, props=["C18"],
        old='                if rows > n_rows:\n                    shard_tails[col] = (*trim, cols, rows - n_rows, canv)\n                col += cols',
        new='                if rows >= n_rows:\n                    shard_tails[col] = (*trim, cols, rows - n_rows + 1, canv)\n                col += cols',
    ),
    # own
    'c18-shard-tail-kept': dict(
        file=FILE, props=["C18"],
        old='                if rows > n_rows:\n                    shard_tails[col] = (*trim, cols, rows - n_rows, canv)\n                else:\n                    del shard_tails[col]',
        new='                if rows >= n_rows:\n                    shard_tails[col] = (*trim, cols, rows - n_rows, canv)\n                else:\n                    del shard_tails[col]',
    ),
    # DESIGN.md must-catch
    'c18-widget-disguise-dropped': dict(
        file=FILE, props=["C18"],
        old='                    kitty_widgets.append(widget)\n                    widget._ti_change_disguise()',
        new='                    kitty_widgets.append(widget)',
    ),
    # own
    'c18-canvas-disguise-dropped': dict(
        file=FILE, props=["C18"],
        old='                self.write(ctlseqs.KITTY_DELETE_ALL)\n            UrwidImageCanvas._ti_change_disguise()',
        new='                self.write(ctlseqs.KITTY_DELETE_ALL)',
    ),
    # DESIGN.md must-catch
    'c18-end-sync-not-finally': dict(
        file=FILE, props=["C18"],
        old='        try:\n            if canvas is not self._ti_screen_canv:\n                self._ti_screen_canv = canvas\n                self._ti_clear_images()\n            return super().draw_screen(maxres, canvas)\n        finally:\n            self.write(END_SYNCED_UPDATE)\n            self.flush()',
        new='        if canvas is not self._ti_screen_canv:\n            self._ti_screen_canv = canvas\n            self._ti_clear_images()\n        ret = super().draw_screen(maxres, canvas)\n        self.write(END_SYNCED_UPDATE)\n        self.flush()\n        return ret',
    ),
    # DESIGN.md must-catch
    'c18-z-index-not-freed': dict(
        file=FILE, props=["C18"],
        old='            __class__._ti_free_z_indexes.add(self._ti_z_index)',
        new='            pass',
    ),
    # DESIGN.md must-catch
    'c18-z-index-reused-alive': dict(
        file=FILE, props=["C18"],
        old='            return __class__._ti_free_z_indexes.pop()',
        new='            return next(iter(__class__._ti_free_z_indexes))',
    ),
    # own
    'c18-clear-without-delete': dict(
        file=FILE, props=["C18"],
        old='    def clear(self):\n        self.clear_images()\n        return super().clear()',
        new='    def clear(self):\n        return super().clear()',
    ),
    # own
    'c18-delete-after-draw': dict(
        file=FILE, props=["C18"],
        old='            if canvas is not self._ti_screen_canv:\n                self._ti_screen_canv = canvas\n                self._ti_clear_images()\n            return super().draw_screen(maxres, canvas)',
        new='            ret = super().draw_screen(maxres, canvas)\n            if canvas is not self._ti_screen_canv:\n                self._ti_screen_canv = canvas\n                self._ti_clear_images()\n            return ret',
    ),
    # own
    'c18-delete-abs-z': dict(
        file=FILE, props=["C18"],
        old='                            ctlseqs.KITTY_DELETE_Z_INDEX % widget._ti_z_index\n                            for widget in kitty_widgets\n                        )\n                    )',
        new='                            ctlseqs.KITTY_DELETE_Z_INDEX % abs(widget._ti_z_index)\n                            for widget in kitty_widgets\n                        )\n                    )',
    ),
    # own
    'c18-z-progression': dict(
        file=FILE, props=["C18"],
        old='__class__._ti_next_z_index = -z_index if z_index > 0 else -z_index + 1',
        new='__class__._ti_next_z_index = -z_index if z_index > 0 else -z_index',
    ),
    # own
    'c18-exhaustion-early': dict(
        file=FILE, props=["C18"],
        old='if z_index == 2**31:',
        new='if z_index == 2**31 - 1:',
    ),
    # own
    'c18-iterm2-konsole-untracked': dict(
        file=FILE, props=["C18"],
        old='                            or isinstance(widget._ti_image, ITerm2Image)\n                            and get_terminal_name_version()[0] == "konsole"\n                        ):\n                            image_cviews.add',
        new='                        ):\n                            image_cviews.add',
    ),
    # own
    'c18-blend-kept-on-kitty': dict(
        file=FILE, props=["C18"],
        old='style_args["blend"] = False',
        new='pass',
    ),
    # own
    'c18-cviews-without-trim': dict(
        file=FILE, props=["C18"],
        old='image_cviews.add((canv, row, col, *trim, cols, rows))',
        new='image_cviews.add((canv, row, col, cols, rows))',
    ),
    # own (= seeded C18-z1 in one hunk): only the ADDRESS of the last screen canvas is remembered; the canvas
    # of a dropped / failed frame that nobody keeps dies and the next canvas gets its address
    'c18-canvas-identity-by-id': dict(
        file=FILE, props=["C18"], expect="draw_screen:after-released-canvas:bookkeeping:cviews-mismatch",
        old='            if canvas is not self._ti_screen_canv:\n                self._ti_screen_canv = canvas\n                self._ti_clear_images()\n',
        new='            if id(canvas) != getattr(self, "_ti_canv_id", None):\n                self._ti_canv_id = id(canvas)\n                self._ti_screen_canv = canvas\n                self._ti_clear_images()\n                self._ti_screen_canv = None\n',
    ),
    # own
    'c18-stop-without-delete': dict(
        file=FILE, props=["C18"], equivalent=True,
        old='    def _stop(self):\n        self.clear_images()\n        return super()._stop()',
        new='    def _stop(self):\n        return super()._stop()',
    ),
}


def build(mid: str | None) -> Path:
    root = Path(f"/tmp/verif-selftest-c18-{mid or 'fixed'}")
    shutil.rmtree(root, ignore_errors=True)
    root.mkdir(parents=True)
    subprocess.run(["rsync", "-a", "/repo/src", str(root) + "/"], check=True)
    f = root / "src" / "term_image" / FILE
    text = f.read_text()
    for e in REPAIRS:  # skipped where /repo already carries the repair (fix commits f57fa90, 1f1e502, 1fd30ed)
        if text.count(e["old"]) == 1:
            text = text.replace(e["old"], e["new"])
    if mid:
        e = MUTATIONS[mid]
        if text.count(e["old"]) != 1:
            raise SystemExit(f"{mid}: pattern occurs {text.count(e['old'])} times")
        text = text.replace(e["old"], e["new"])
    f.write_text(text)
    return root


def run(mid: str | None, tier: str = "quick") -> int:
    """0 = as expected (repaired tree clean / mutant caught with the expected signature)."""
    root = build(mid)
    try:
        env = dict(os.environ, VERIF_REPO=str(root), VERIF_TIER=tier)
        p = subprocess.run([str(VERIF / "check"), "C18", "--tier", tier], env=env, cwd=VERIF,
                           stdout=subprocess.PIPE, stderr=subprocess.STDOUT, text=True)
        sigs = sorted({l.split("signature:")[1].strip() for l in p.stdout.splitlines() if "signature:" in l})
        if mid is None:
            status = "clean" if p.returncode == 0 else "UNEXPECTED"
        elif MUTATIONS[mid].get("equivalent"):
            status = "equivalent (exit 0 expected)" if p.returncode == 0 else "UNEXPECTED"
        elif MUTATIONS[mid].get("expect") and p.returncode == 1 and MUTATIONS[mid]["expect"] not in sigs:
            status = "WRONG-SIGNATURE (expected " + MUTATIONS[mid]["expect"] + ")"
        else:
            status = "caught" if p.returncode == 1 else ("MACHINERY" if p.returncode == 2 else "MISSED")
        print(f"MUT {mid or 'repaired-tree'} C18 exit={p.returncode} {status} {sigs}", flush=True)
        if p.returncode == 2:
            print("\n".join(p.stdout.splitlines()[-15:]))
        return 0 if status in ("clean", "caught", "equivalent (exit 0 expected)") else 1
    finally:
        shutil.rmtree(root, ignore_errors=True)


def main() -> int:
    args = sys.argv[1:]
    if args == ["--fixed"]:
        return run(None)
    bad = 0
    if not args:
        bad += run(None)
    for mid in args or list(MUTATIONS):
        bad += run(mid)
    return 1 if bad else 0


if __name__ == "__main__":
    sys.exit(main())
