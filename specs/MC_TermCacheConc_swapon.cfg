SPECIFICATION Spec
CONSTANTS
  Prog <- PSwapOn
  Env <- EnvIo
  Swap0 = FALSE
  Queries0 = TRUE
  Cache0 <- CacheOff
  Variant = "code"
INVARIANT QuiescentFresh
INVARIANT LockFree
VIEW View
CHECK_DEADLOCK FALSE
ACTION_CONSTRAINT Dump
