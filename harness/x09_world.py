"""X09 - real-code side: one animated image and the ``ImageIterator`` objects held in numbered
slots over it, driven through the public API; records what every call did and, after EVERY call,
``loop_no`` and the parsed ``repr()`` of every iterator and ``tell()`` / size / ``closed`` of the
image.  No judgement here: results are classified (exception class name, frame number looked up in
a table of reference renders, counters), observations are encoded for TLA+
(specs/IterLifeCore.tla: ``Obs``).

Operations are the records of the specification: ``{op, k, img, a, b, c, via}`` with values
``{t, i, s}``.  A format-spec value carries a TOKEN (``plain`` / ``fmt`` / ``bad`` / ``badstyle``);
the walk configuration maps tokens to concrete strings for the render style in use.

Fixtures (animated GIF / WebP with 2, 3, 4 frames) are built with the builders of the C11 world
(``imgs.make_animation``, ``c11_world._rgba_animation``; same source size, styles, terminal
identities and format specifiers).
"""

from __future__ import annotations

import gc
import os
import random
import re
import shutil
import sys
import weakref
from pathlib import Path

from . import c11_world as C11
from . import imgs
from .env import stubs
from .tlc import MachineryError

SRC_PX = C11.SRC_PX  # 7 x 5
FIXED = (3, 2)
TERM = (12, 9)
FRAME_COUNTS = (2, 3, 4)
FORMATS = {"gif": "GIF", "webp": "WEBP"}
OKTAGS = ("ok", "frame", "stop")

BAD_SPECS = ["x", "5.", "#zz", "+", "1.1#+"]
BADSTYLE_SPECS = {"block": ["+Q", "1.1+L", "+L"], "kitty": ["+Q", "+Lz", "1.1+m3"], "iterm2": ["+Q", "+Lz", "+z5"]}

_ABSENT = object()


# ------------------------------------------------------------------ values / operations
def V(t, i=0, s=""):
    return {"t": t, "i": i, "s": s}


ABSENT, NONE, BYTES, OBJ = V("absent"), V("none"), V("bytes"), V("obj")


def mkop(op, k=0, img="", a=NONE, b=NONE, c=NONE, via=""):
    return {"op": op, "k": k, "img": img, "a": a, "b": b, "c": c, "via": via}


def py(v):
    t = v["t"]
    if t == "absent":
        return _ABSENT
    if t == "none":
        return None
    if t == "int":
        return v["i"]
    if t == "bool":
        return bool(v["i"])
    if t == "float":
        return float(v["s"])
    if t == "str":
        return v["s"]
    if t == "bytes":
        return b"1.1"
    if t == "obj":
        return object()
    raise MachineryError(f"x09: unknown value tag {t!r}")


# ------------------------------------------------------------------ process-wide seams
_STATE = {"installed": False, "real_open": None, "opens": 0, "watch": None, "unr": [], "renders": 0}
_SUB = {}


def install():
    """Terminal stubs, the Image.open counter, the render counter, the unraisable hook (once)."""
    if _STATE["installed"]:
        return
    stubs.install()
    import PIL.Image
    import term_image.image as TI
    import term_image.image.common as C

    for name in ("ImageIterator", "Image"):
        if not hasattr(C, name):
            raise MachineryError(f"x09: term_image.image.common.{name} is missing: seam lost")
    real_open = PIL.Image.open
    if C.Image.open is not real_open:
        raise MachineryError("x09: seam PIL.Image.open is not what term_image.image.common uses")

    def counting_open(fp, *a, **k):
        w = _STATE["watch"]
        if w is not None:
            try:
                if os.fspath(fp) == w:
                    _STATE["opens"] += 1
            except TypeError:
                pass
        return real_open(fp, *a, **k)

    PIL.Image.open = counting_open
    _STATE["real_open"] = real_open

    for cls in (TI.BlockImage, TI.KittyImage, TI.ITerm2Image):
        if "_render_image" not in cls.__dict__:
            raise MachineryError(f"x09: {cls.__name__}._render_image is missing: seam lost")
        orig = cls.__dict__["_render_image"]

        def _render_image(self, *a, _orig=orig, **kw):
            r = _orig(self, *a, **kw)  # the end-of-loop probe raises EOFError in here: not a render
            _STATE["renders"] += 1
            return r

        cls._render_image = _render_image

    sys.unraisablehook = lambda a: _STATE["unr"].append(f"{getattr(a.exc_type, '__name__', a.exc_type)}: {a.exc_value}")
    _SUB["ImageIterator"] = C.ImageIterator
    _SUB["SubIterator"] = type("SubIterator", (C.ImageIterator,), {})  # a user-defined subclass
    _STATE["installed"] = True


# ------------------------------------------------------------------ fixtures
_FIXDIR: Path | None = None


def build_fixtures(seed: int = 0) -> Path:
    """Animated GIF / WebP files with 2, 3, 4 frames (library copy + reference copy) and a still
    PNG.  Call once, in the parent, before worker processes are forked."""
    global _FIXDIR
    from PIL import Image

    d = imgs.tmpdir("x09")
    (d / "lib").mkdir()
    (d / "ref").mkdir()
    rng = random.Random(seed)
    for n in FRAME_COUNTS:
        imgs.make_animation(rng, d / "lib" / f"a{n}.gif", n, *SRC_PX, fmt="GIF")
        C11._rgba_animation(d / "lib" / f"a{n}.webp", "WEBP", n)
        for ext in FORMATS:
            src = Image.open(d / "lib" / f"a{n}.{ext}")
            fr = []
            for i in range(n):
                src.seek(i)
                fr.append(src.convert("RGBA").tobytes())
            ok = getattr(src, "n_frames", 1) == n and len(set(fr)) == n
            src.close()
            if not ok:
                raise MachineryError(f"x09: fixture a{n}.{ext}: frames are not {n} pairwise different ones")
            shutil.copy(d / "lib" / f"a{n}.{ext}", d / "ref" / f"a{n}.{ext}")
    Image.new("RGB", SRC_PX, (10, 200, 90)).save(d / "lib" / "still.png")
    _FIXDIR = d
    return d


def fixture(n: int, fx: str, which: str = "lib") -> str:
    if _FIXDIR is None:
        raise MachineryError("x09: fixtures were not built")
    return str(_FIXDIR / which / f"a{n}.{fx}")


# ------------------------------------------------------------------ walk configuration
def make_wcfg(rng: random.Random) -> dict:
    """What the model does not speak about: render style, terminal, file format, source kind,
    size setting, iterator class, the concrete strings behind the format-spec tokens."""
    style = rng.choice(["block", "kitty", "iterm2"])
    fmt = rng.choice([s for s in C11.STYLE_SPECS[style] if not s.endswith("+A")])
    return {
        "style": style,
        "ident": rng.choice(C11.STYLE_IDENTS[style]),
        "fx": rng.choice(["gif", "webp"]),
        "src": rng.choice(["file", "pil"]),
        "dyn": rng.random() < 0.3,
        "cell": rng.choice([None, [2, 4]]),
        "icls": rng.choice(["ImageIterator", "ImageIterator", "SubIterator"]),
        "specs": {"plain": "", "fmt": fmt, "bad": rng.choice(BAD_SPECS),
                  "badstyle": rng.choice(BADSTYLE_SPECS[style])},
    }


_IDENT = {"cur": None}


def _apply_env(wcfg):
    if _IDENT["cur"] != wcfg["ident"]:
        stubs.set_identity(wcfg["ident"])
        _IDENT["cur"] = wcfg["ident"]
    stubs.set_term(size=TERM, cell=wcfg["cell"], fg_bg=((200, 200, 200), (16, 32, 48)))


def _set_size(image, dyn: bool):
    from term_image.image import Size

    if dyn:
        image.size = Size.FIT
    else:
        image.set_size(*FIXED)


# ------------------------------------------------------------------ reference renders
_TABLES: dict = {}


def table(wcfg: dict, n: int, spec: str | None) -> dict:
    """{rendered frame string: frame number} for format(reference image at frame i, spec)
    (``spec`` None: str(image), what iter(image) is documented to yield)."""
    key = (wcfg["style"], wcfg["ident"], wcfg["fx"], n, spec, wcfg["dyn"], tuple(wcfg["cell"] or ()))
    if key in _TABLES:
        return _TABLES[key]
    _apply_env(wcfg)
    img = C11.image_class(wcfg["style"]).from_file(fixture(n, wcfg["fx"], "ref"))
    tab: dict = {}
    try:
        _set_size(img, wcfg["dyn"])
        for i in range(n):
            img.seek(i)
            s = str(img) if spec is None else format(img, spec)
            if s in tab:
                raise MachineryError(f"x09: reference renders of frames {tab[s]} and {i} are equal ({key})")
            tab[s] = i
    finally:
        img.close()
    _TABLES[key] = tab
    return tab


_REPR = re.compile(
    r"""^(\w+)\(image=(.*), repeat=(-?\d+), format_spec=('(?:[^'\\]|\\.)*'|"(?:[^"\\]|\\.)*"), """
    r"""cached=(True|False), loop_no=(None|-?\d+)\)$""", re.S)
BLANK_RP = {"ok": False, "cls": "", "img": False, "rep": 0, "spec": "", "cached": False, "ln": ""}


# ------------------------------------------------------------------ the world
class World:
    def __init__(self, c: dict, wcfg: dict, seed: int = 0, slots: int = 1):
        install()
        from PIL import Image

        self.c, self.wcfg, self.slots = dict(c), wcfg, slots
        self.rng = random.Random(seed)
        self.cls = C11.image_class(wcfg["style"])
        self.icls = _SUB[wcfg["icls"]]
        self.path = fixture(c["n"], wcfg["fx"])
        _apply_env(wcfg)
        self.pil = None
        if wcfg["src"] == "pil":
            self.pil = _STATE["real_open"](self.path)
            self.image = self.cls(self.pil)
        else:
            self.image = self.cls.from_file(self.path)
        _set_size(self.image, wcfg["dyn"])
        from term_image.image import Size

        self.size0 = Size.FIT if wcfg["dyn"] else FIXED
        # objects offered as `image` by the rejected forms of the constructor
        self.still = self.cls.from_file(str(_FIXDIR / "lib" / "still.png"))
        self.finalized = self.cls.from_file(self.path)
        self.finalized.close()
        self.nonimages = [Image.new("RGB", (3, 3)), self.path, None, 3]
        self.its: list = [None] * (slots + 1)  # 1-based
        self.spec_of: list = [None] * (slots + 1)  # concrete spec of the iterator in the slot
        self.given: list = [None] * (slots + 1)  # "same"-test material for repr
        self.tabs: dict = {}

    def close(self):
        for i, it in enumerate(self.its):
            if it is not None:
                try:
                    it.close()
                except Exception:
                    pass
                self.its[i] = None
        for obj in (self.image, self.still):
            try:
                obj.close()
            except Exception:
                pass
        if self.pil is not None:
            self.pil.close()
        _STATE["unr"].clear()

    # -------------------------------------------------------------- observation
    def _it_obs(self, k: int) -> dict:
        it = self.its[k]
        if it is None:
            return {"live": False, "ln": "None", "rp": dict(BLANK_RP)}
        try:
            ln = it.loop_no
            ln = "None" if ln is None else (str(ln) if type(ln) is int else f"?{type(ln).__name__}")
        except Exception as e:
            ln = "!" + type(e).__name__
        rp = dict(BLANK_RP)
        try:
            m = _REPR.match(repr(it))
        except Exception:
            m = None
        if m:
            try:
                img_repr = repr(self.image)
            except Exception:
                img_repr = None
            rp = {"ok": True,
                  "cls": "same" if m.group(1) == type(it).__name__ else "other",
                  "img": m.group(2) == img_repr,
                  "rep": max(-99, min(99, int(m.group(3)))),
                  "spec": "iter" if self.given[k] is None else ("same" if m.group(4) == repr(self.given[k]) else "other"),
                  "cached": m.group(5) == "True",
                  "ln": m.group(6)}
        return {"live": True, "ln": ln, "rp": rp}

    def observe(self) -> dict:
        try:
            tell = self.image.tell()
            tell = tell if type(tell) is int and 0 <= tell < 99 else -1
        except Exception:
            tell = -9
        try:
            sizeok = self.image.size == self.size0
        except Exception:
            sizeok = False
        try:
            closed = bool(self.image.closed)
        except Exception:
            closed = True
        return {"img": {"tell": tell, "sizeok": sizeok, "closed": closed},
                "its": [self._it_obs(k) for k in range(1, self.slots + 1)]}

    # -------------------------------------------------------------- operations
    def _image_arg(self, kind: str):
        if kind == "good":
            return self.image
        if kind == "still":
            return self.still
        if kind == "finalized":
            return self.finalized
        if kind == "nonimage":
            return self.rng.choice(self.nonimages)
        raise MachineryError(f"x09: unknown image kind {kind!r}")

    def _frame_no(self, k: int, s) -> int:
        if type(s) is not str:
            return -2
        spec = self.spec_of[k]
        key = (self.c["n"], spec)
        if key not in self.tabs:
            self.tabs[key] = table(self.wcfg, self.c["n"], spec)
        return self.tabs[key].get(s, -2)

    def op_new(self, o):
        k = o["k"]
        if o["via"] == "iter":
            it = iter(self._image_arg(o["img"]))
            concrete, given = None, None
        else:
            spec = o["b"]
            concrete = given = ""
            vals = []
            for name, v in (("repeat", o["a"]), ("format_spec", spec), ("cached", o["c"])):
                x = py(v)
                if name == "format_spec" and v["t"] == "str":
                    x = concrete = given = self.wcfg["specs"][v["s"]]
                vals.append((name, x))
            args, kw = [self._image_arg(o["img"])], {}
            positional = self.rng.random() < 0.7
            if self.rng.random() < 0.15:
                args, kw, positional = [], {"image": args[0]}, False
            for name, x in vals:
                if x is _ABSENT:
                    positional = False
                    continue
                if positional and self.rng.random() < 0.75:
                    args.append(x)
                else:
                    positional = False
                    kw[name] = x
            it = self.icls(*args, **kw)
        if self.its[k] is None:
            self.its[k], self.spec_of[k], self.given[k] = it, concrete, given
        else:  # the model offers only rejected forms here: a constructed object is thrown away
            it.close()
        return "ok", "-", -1

    def op_next(self, o):
        try:
            s = next(self.its[o["k"]])
        except StopIteration:
            return "stop", "-", -1
        snap = (_STATE["renders"], _STATE["opens"])  # the reference renders are not the operation's
        try:
            return "frame", "-", self._frame_no(o["k"], s)
        finally:
            _STATE["renders"], _STATE["opens"] = snap

    def op_seek(self, o):
        r = self.its[o["k"]].seek(py(o["a"]))
        return "ok", "-" if r is None else "other", -1

    def op_close(self, o):
        r = self.its[o["k"]].close()
        return "ok", "-" if r is None else "other", -1

    def op_iter(self, o):
        it = self.its[o["k"]]
        return "ok", "self" if iter(it) is it else "other", -1

    def op_setln(self, o):
        self.its[o["k"]].loop_no = self.rng.choice([None, 0, 5, -1])
        return "ok", "-", -1

    def op_imgseek(self, o):
        r = self.image.seek(py(o["a"]))
        return "ok", "-" if r is None else "other", -1

    def op_drop(self, o):
        k = o["k"]
        ref = weakref.ref(self.its[k])
        self.its[k] = None
        if ref() is not None:
            gc.collect()
        return "ok", "-", -1

    def step(self, o: dict) -> dict:
        _STATE["opens"] = 0
        _STATE["renders"] = 0
        _STATE["unr"].clear()
        _STATE["watch"] = self.path
        if o["op"] != "imgseek" and not 1 <= o["k"] <= self.slots:
            raise MachineryError(f"x09: operation on slot {o['k']} of {self.slots}")
        if o["op"] not in ("new", "imgseek") and self.its[o["k"]] is None:
            raise MachineryError(f"x09: operation {o['op']} on the empty slot {o['k']}")
        try:
            res, ret, frame = getattr(self, "op_" + o["op"])(o)
        except MachineryError:
            raise
        except BaseException as e:  # the result of the operation, not a harness failure
            if isinstance(e, (KeyboardInterrupt, SystemExit)):
                raise
            res, ret, frame = type(e).__name__, "-", -1
            del e
        finally:
            _STATE["watch"] = None
        return {"o": o, "res": res, "ret": ret, "frame": frame, "rend": min(_STATE["renders"], 9),
                "opens": min(_STATE["opens"], 9), "unr": len(_STATE["unr"]), "obs": self.observe()}


def run_history(task: dict) -> dict:
    """Execute ``task['ops']`` on a fresh world; returns the trace."""
    w = World(task["c"], task["wcfg"], task.get("wseed", 0), task.get("slots", 1))
    try:
        ev = [w.step(o) for o in task["ops"]]
    finally:
        w.close()
    return {"c": {"n": task["c"]["n"], "src": task["wcfg"]["src"]}, "slots": task.get("slots", 1), "ev": ev,
            "wcfg": task["wcfg"], "wseed": task.get("wseed", 0)}
