----------------------------- MODULE TermSizeEnv -----------------------------
(***************************************************************************)
(* Where the terminal size every sizing / padding / draw() decision works   *)
(* with comes from (term_image.utils.get_terminal_size, "the current size   *)
(* of the active terminal ... even when output is redirected ... is what    *)
(* this library works with"), as a function of the process environment:     *)
(*                                                                         *)
(*   which of stdout / stdin / stderr is the terminal, whether the process  *)
(*   has it as controlling terminal (/dev/tty), the terminal's own window   *)
(*   size, and COLUMNS / LINES in the environment (a stale export).         *)
(*                                                                         *)
(* Law (ActiveWins): whenever the library found an active terminal (search  *)
(* order stdout, stdin, stderr, /dev/tty - TtyInit.tla), the size is the    *)
(* terminal's OWN current size; COLUMNS / LINES and the nature of stdout    *)
(* only matter when there is no active terminal at all (then the standard   *)
(* library's rule applies: COLUMNS / LINES, else 80x24).  draw() accepts a  *)
(* render that exactly fits that size and rejects one that is one column    *)
(* wider (new and old API) - DrawValidate.tla takes the size from here.     *)
(* TLC enumerates the environments and dumps the expected observations;     *)
(* each is arranged for a real process (new session, pty of the given size) *)
(* and compared.                                                           *)
(***************************************************************************)
EXTENDS Integers, TLC, Json

CONSTANTS TtySizes,   \* window sizes <<cols, rows>> of the terminal
          Decoys      \* values of COLUMNS/LINES in the environment; <<0, 0>> = not set

VARIABLES env, seen
vars == <<env, seen>>

Envs == [out : BOOLEAN, inp : BOOLEAN, err : BOOLEAN, ctty : BOOLEAN, tty : TtySizes, decoy : Decoys]

Found(e) == e.out \/ e.inp \/ e.err \/ e.ctty
Std(e) == IF e.decoy # <<0, 0>> THEN e.decoy ELSE <<80, 24>>     \* shutil rule, stdout not a terminal
ActiveSize(e) == IF Found(e) THEN e.tty ELSE Std(e)

\* what a process in environment e must observe
Expect(e) ==
  LET z == ActiveSize(e) IN
  [size |-> z,
   new_fit |-> "ok", new_over |-> "RenderSizeOutofRangeError",
   old_fit |-> "ok", old_over |-> "InvalidSizeError"]

Init == env \in Envs /\ seen = FALSE
Observe == /\ ~seen
           /\ seen' = TRUE
           /\ UNCHANGED env
           /\ PrintT(<<"ENV", ToJson([env |-> env, expect |-> Expect(env)])>>)
Next == Observe
Spec == Init /\ [][Next]_vars

ActiveWins == Found(env) => ActiveSize(env) = env.tty
DecoyOnlyWithoutTerminal == (ActiveSize(env) # env.tty) => ~Found(env)
=============================================================================
