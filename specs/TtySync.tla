------------------------------- MODULE TtySync -------------------------------
(***************************************************************************)
(* C14: WHICH entry points are synchronized on the terminal lock.           *)
(*                                                                         *)
(* TtyLock.tla proves that synchronized calls exclude each other; this      *)
(* module states the set of public / documented entry points of term_image  *)
(* that touch the active terminal and therefore have to BE synchronized     *)
(* calls (docs/source/guide/concepts.rst, "Terminal Queries", About #2 and  *)
(* #3; docstrings marked "Synchronized with lock_tty"; the comment above    *)
(* the UrwidImageScreen overrides).  `touch` names the layer at which the   *)
(* member reaches the terminal:                                             *)
(*   "tty"   termios / read / write / select on the library's own tty       *)
(*           descriptor (utils.termios, utils.os, utils.select)             *)
(*   "urwid" the inherited urwid.raw_display.Screen method of the same name *)
(*           (reads stdin / writes stdout of the UI)                        *)
(* Specification of one member m (two threads, checked on the real code by  *)
(* Trace_TtySync): while a thread is inside a lock_tty-decorated function,  *)
(* a call of m by another thread does not touch the terminal; it does so    *)
(* after the holder has left, and returns.                                  *)
(***************************************************************************)
EXTENDS TtyLockAbs

M(name, touch) == [name |-> name, touch |-> touch]

Synchronized == {
  M("utils.query_terminal", "tty"),
  M("utils.read_tty", "tty"),
  M("utils.read_tty_all", "tty"),
  M("utils.write_tty", "tty"),
  M("utils.get_cell_size", "tty"),              \* its query; the cache has its own lock (TtyLock, cell instance)
  M("utils.get_fg_bg_colors", "tty"),
  M("utils.get_terminal_name_version", "tty"),
  M("KittyImage.clear(now=True)", "tty"),
  M("ITerm2Image.clear(now=True)", "tty"),
  M("UrwidImageScreen.clear_images(now=True)", "tty"),
  M("UrwidImageScreen.draw_screen", "urwid"),
  M("UrwidImageScreen.flush", "urwid"),
  M("UrwidImageScreen.write", "urwid"),
  M("UrwidImageScreen.get_available_raw_input", "urwid")
}

SyncNames == {m.name : m \in Synchronized}
=============================================================================
