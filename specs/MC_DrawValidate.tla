--------------------------- MODULE MC_DrawValidate ---------------------------
EXTENDS DrawValidate
VARIABLES c, done
NewCases == [api : {"new"}, pw : 1..6, ph : 1..5, cols : {4}, rows : {3}, multi : BOOLEAN, animate : BOOLEAN,
             check : BOOLEAN, scroll : BOOLEAN, rw : {0}, rh : {0}, padw : {0}, padh : {0},
             pad : {"exact", "relw", "relh"}]
OldCases == [api : {"old"}, pw : {0}, ph : {0}, cols : {4}, rows : {3}, multi : BOOLEAN, animate : BOOLEAN,
             check : BOOLEAN, scroll : BOOLEAN, rw : {2, 4, 5}, rh : {1, 3, 4}, padw : {-1, 0, 3, 4, 5},
             padh : {-2, 0, 2, 3, 4}, pad : {"exact"}]
Verdict(x) == IF x.api = "new" THEN NewVerdict(x) ELSE OldVerdict(x)
Init == /\ c \in NewCases \cup OldCases /\ done = FALSE
        /\ PrintT(<<"TABLE", ToJson([case |-> c, verdict |-> Verdict(c)])>>)
Next == ~done /\ done' = TRUE /\ UNCHANGED c
Spec == Init /\ [][Next]_<<c, done>>
\* documented monotonicity: enlarging the terminal never turns an accepted draw into a rejected one
\* (checked on the table itself)
Sane == Verdict(c) \in {"ok", "RenderSizeOutofRangeError", "ValueError", "InvalidSizeError"}
\* whether the source has several frames is irrelevant unless animate is true
StillDrawOfAnimatedSource == ~c.animate => Verdict(c) = Verdict([c EXCEPT !.multi = FALSE])
\* a relative dimension never excuses the absolute one next to it
MixedPaddingStillValidated ==
  (c.api = "new" /\ c.pad = "relw" /\ (c.check \/ Anim(c)) /\ ~(c.scroll /\ ~Anim(c)) /\ c.ph > c.rows)
    => Verdict(c) = "RenderSizeOutofRangeError"
RelaxingNeverRejects ==
  (c.api = "new" /\ NewVerdict(c) = "ok") => NewVerdict([c EXCEPT !.cols = @ + 1, !.rows = @ + 1]) = "ok"
=============================================================================
