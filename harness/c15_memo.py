"""C15 spec -> code for the memoizing decorators: replay every interleaving of Memo.tla into
probes wrapped with the REAL ``utils.cached`` / ``utils.terminal_size_cached`` under the
cooperative scheduler (``harness/env/sched.py``).

The decorators create their lock with the module-level name ``RLock`` at decoration time;
``sched.install_locks`` has replaced that name in the loaded copy of ``utils.py`` by the
instrumented factory, so acquire and release of the memo lock are scheduling points, and
the probe body parks once while it "computes".  After every step the set of threads inside
the body, the set of threads that must wait for the lock, the number of body executions and
(at a return) the returned value must equal the specification's.
"""

from __future__ import annotations

import os

from .env import sched
from .tlc import MachineryError

EXPECT = {"Acq": "acquire", "Body": "body", "BodyFail": "body", "Rel": "release"}
RAISED = -1
FALSY = (None, 0, False, "", ())


class ProbeError(Exception):
    """What the probe body raises when the specification says the computation fails."""


class Divergence(Exception):
    def __init__(self, clause, what, detail):
        super().__init__(detail)
        self.clause, self.what, self.detail = clause, what, detail


class World:
    def __init__(self, config: dict, ts0: int, uid: int):
        self.cfg = config
        self.kind = config["kind"]
        self.ts = ts0
        self.nbody = 0
        self.results: dict[int, list] = {}
        self.fail: set = set()
        self.falsy = FALSY[uid % len(FALSY)]
        ctl = self.ctl = sched.Controller(groups=["memo"])
        g = self.g = sched.load_utils_copy(f"utils__c15memo_{uid}", ctl)
        sched.install_locks(g, ctl, "m")
        # model sizes 1, 2, 3: 1 -> 2 changes the rows only, 2 -> 3 the columns only
        g["get_terminal_size"] = lambda: os.terminal_size({1: (80, 24), 2: (80, 30), 3: (100, 30)}[self.ts])
        world = self

        def body(*args, **kwargs):
            me = ctl.cur().tid
            ctl.inbody.add(me)
            try:
                ctl.park("body")
                if me in world.fail:
                    world.fail.discard(me)
                    raise ProbeError("the memoized computation fails")
                world.nbody += 1
                if world.kind == "cached" and world._form(args, kwargs)["ret"] == "falsy":
                    return world.falsy  # a legitimate result whose truth value is False
                return world.nbody
            finally:
                ctl.inbody.discard(me)

        deco = g["cached"] if self.kind == "cached" else g["terminal_size_cached"]
        self.wrapped = deco(body)
        inv_name = "_invalidate_cache" if self.kind == "cached" else "_invalidate_terminal_size_cache"
        self.invalidate = getattr(self.wrapped, inv_name, None)
        if self.invalidate is None:
            raise MachineryError(f"decorated function has no {inv_name}")
        for t in range(1, config["nt"] + 1):
            ctl.spawn(t, self._program(t))
        for t in range(1, config["nt"] + 1):
            at = ctl.resume(t)
            if at[0] not in ("acquire", "done"):
                raise Divergence("BodyOnce", "first-step", f"thread {t} stopped at {at[0]!r} before acquiring the memo lock")

    def _form(self, args, kwargs):
        for f in self.cfg["args"]:
            if list(args) == list(f["pos"]) and kwargs == {k: v for k, v in f["kw"]}:
                return f
        raise MachineryError(f"probe called with unknown arguments {args} {kwargs}")

    def _program(self, t):
        def run():
            for item in self.cfg["prog"][t - 1]:
                if item["k"] == "inv":
                    self.invalidate()
                    r = 0
                else:
                    try:
                        if self.kind == "cached":
                            form = self.cfg["args"][item["a"] - 1]  # positional and keyword arguments
                            r = self.wrapped(*form["pos"], **{k: v for k, v in form["kw"]})
                            if form["ret"] == "falsy":
                                # the value itself carries no ordinal: compare it, keep the spec's number
                                r = ("falsy", r is self.falsy or (r == self.falsy and type(r) is type(self.falsy)))
                        else:
                            r = self.wrapped()
                    except ProbeError:
                        r = RAISED
                self.results.setdefault(t, []).append(r)

        return run

    def blocked(self):
        return {t for t, mt in self.ctl.threads.items()
                if mt.at and mt.at[0] in ("acquire", "blocked") and not mt.at[1].free_for(mt)}

    def step(self, op):
        act, t = op["act"], op["t"]
        ctl = self.ctl
        if act == "Resize":
            self.ts = op["res"]
        else:
            mt = ctl.threads[t]
            have = mt.at[0] if mt.at else None
            if mt.done or have != EXPECT[act]:
                raise Divergence(
                    "BodyOnce", f"{act}:at-{have}",
                    f"specification: thread {t} executes {act}; the real thread is at {have!r}"
                    + (f" after raising {mt.error!r}" if mt.error else "")
                    + " - the wrapper does not run the body under its lock as specified",
                )
            n0 = len(self.results.get(t, []))
            if act == "BodyFail":
                self.fail.add(t)
            at = ctl.resume(t)
            if mt.error is not None:
                raise Divergence("BodyOnce", f"{act}:raised-{type(mt.error).__name__}",
                                 f"{act} by thread {t}: the real code raised {mt.error!r}\n{mt.error_tb[-500:]}")
            if at[0] == "blocked":
                raise Divergence("BodyOnce", f"{act}:blocked", f"{act} by thread {t} blocks on {at[1]!r}")
            if act == "Rel":
                rs = self.results.get(t, [])
                if len(rs) != n0 + 1:
                    raise Divergence("BodyOnce", "Rel:no-return", f"thread {t} released the lock but the call did not return")
                if isinstance(rs[-1], tuple):
                    if not rs[-1][1] or op["res"] <= 0:
                        raise Divergence("ValueFresh", "Rel:falsy-value",
                                         f"thread {t}: the memoized call did not return the body's falsy result "
                                         f"{self.falsy!r} (specified: value of body execution {op['res']})")
                elif rs[-1] != op["res"]:
                    raise Divergence("ValueFresh", "Rel:value",
                                     f"thread {t}: the memoized call returned {rs[-1]}, specified {op['res']} "
                                     f"(values are the ordinals of body executions, -1 = raised): a value computed "
                                     f"for another argument tuple / terminal size, or by a failed computation, was served")
        if set(ctl.inbody) != set(op["inb"]):
            # the body did not run where it must (stale value) / ran where it must not (ran twice)
            # the body did not run where a value has to be computed (a value memoized for something else,
            # or left by a failed computation, is being served) / it ran where it must not
            clause = "MemoFresh" if set(op["inb"]) - set(ctl.inbody) else "BodyOnce"
            raise Divergence(clause, f"{act}:in-body",
                             f"after {act} by thread {t}: threads inside the wrapped function: real {sorted(ctl.inbody)}, specified {sorted(op['inb'])}")
        if self.blocked() != set(op["blk"]):
            raise Divergence("BodyOnce", f"{act}:blocked-set",
                             f"after {act} by thread {t}: threads waiting for the memo lock: real {sorted(self.blocked())}, specified {sorted(op['blk'])}")
        if self.nbody != op["nbody"]:
            raise Divergence("BodyOnce", f"{act}:body-count",
                             f"after {act} by thread {t}: {self.nbody} body executions, specified {op['nbody']}")

    def close(self):
        self.ctl.abort_all()


def replay_walk(config, walk, uid):
    ts0 = walk[0]["from"][3]  # View = <<lock, cache, th, ts, nres, nbody, decided>>
    try:
        w = World(config, ts0, uid)
    except Divergence as d:
        return 0, walk[0], d
    try:
        for i, e in enumerate(walk):
            try:
                w.step(e["op"])
            except Divergence as d:
                return i, e, d
        return None
    finally:
        w.close()


def replay_model(job: dict) -> dict:
    import sys
    import time

    from . import graph, tlc

    if sys.__stdin__ is None or sys.__stdin__.closed:
        sys.__stdin__ = open(os.devnull)
    res = tlc.run("MC_Memo", job["cfg"], workers=1, timeout=300, coverage=True)
    out = {"cfg": job["cfg"], "distinct": res.distinct, "generated": res.generated, "violated": res.violated,
           "error_text": res.error_text[:2000], "divergences": [], "walks": 0, "steps": 0, "edges": 0}
    if res.violated:
        return out
    conf = res.tagged("CONFIG")[0]
    edges = res.tagged("EDGE")
    g = graph.Graph(edges, [e["from"] for e in edges if e["lvl"] == 1])
    walks = g.walks(max_len=200)
    out.update(edges=len(g.edges), walks=len(walks), config=conf,
               acts=sorted({e["op"]["act"] for e in g.edges}))
    t0 = time.time()
    for i, w in enumerate(walks):
        r = replay_walk(conf, w, i)
        out["steps"] += len(w)
        if r:
            idx, e, d = r
            out["divergences"].append({"walk": w[: idx + 1], "idx": idx, "clause": d.clause, "what": d.what,
                                       "detail": d.detail, "path": [[x["op"]["t"], x["op"]["act"]] for x in w[: idx + 1]]})
            if len(out["divergences"]) >= 3:
                break
    if walks:
        out["sample"] = [[x["op"]["t"], x["op"]["act"], x["op"]["res"]] for x in walks[len(walks) // 2]][:40]
    out["replay_s"] = round(time.time() - t0, 1)
    return out
