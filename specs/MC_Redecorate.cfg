SPECIFICATION Spec
CONSTANTS
  MaxLayers = 3
VIEW View
CONSTRAINT Bound
ACTION_CONSTRAINT Dump
INVARIANT InitDump
INVARIANT StateDump
INVARIANT TypeOK
INVARIANT AtMostOnce
INVARIANT AtMostOncePerVisibleStretch
INVARIANT MarksAreVisibleGuardedLayers
PROPERTY BlockedReturnsSameObject
PROPERTY DecoratingAddsOneLayer
PROPERTY OtherFunctionUntouched
PROPERTY OnlyDecoratingChanges
CHECK_DEADLOCK FALSE
