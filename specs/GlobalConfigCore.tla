-------------------------- MODULE GlobalConfigCore --------------------------
(***************************************************************************)
(* X03, constant-free core shared by the model (GlobalConfig.tla) and the   *)
(* trace monitor (Trace_GlobalConfig.tla): values, the scripted terminal,   *)
(* and what one determination of the cell size / one query yields.          *)
(*                                                                         *)
(* Time is counted in units of 1/40960 s (0.1 s = 4096 units).              *)
(*                                                                         *)
(* A terminal profile `p` is a record                                       *)
(*   cols, rows   size in cells                                             *)
(*   xpx, ypx     size of the window (text area) in pixels                  *)
(*   iopx         TIOCGWINSZ carries the pixel size (else the fields are 0) *)
(*   xt           "cell": answers XTWINOPS 16 (CSI 6;h;w t) and 14;         *)
(*                "text": answers only XTWINOPS 14 (CSI 4;h;w t);           *)
(*                "none": answers neither                                   *)
(*   delay        all replies to one request burst (always ending with the  *)
(*                DA1 reply) arrive `delay` units after the request;        *)
(*                -1 = the terminal never answers                           *)
(*                                                                         *)
(* A cell size is <<w, h>>, <<0, 0>> = None (undetermined).  A cell ratio   *)
(* is a fraction <<n, d>>, <<0, 0>> = NaN, <<>> = the DYNAMIC setting.      *)
(***************************************************************************)
EXTENDS Integers, Sequences

Nil == <<>>
NoCell == <<0, 0>>
NaN == <<0, 0>>
Half == <<1, 2>>          \* the documented default ratio and the fallback of the auto modes
NaNTmo == 0               \* a NaN timeout: no wait at all (`duration < nan` is false)

HasZero(c) == c[1] = 0 \/ c[2] = 0
Norm(c) == IF HasZero(c) THEN NoCell ELSE c
Rev(c) == <<c[2], c[1]>>
RatioOf(cell) == IF cell = NoCell THEN Half ELSE cell
SameRatio(a, b) ==
  IF a = Nil \/ b = Nil THEN a = b
  ELSE IF a = NaN \/ b = NaN THEN a = b
  ELSE a[1] * b[2] = a[2] * b[1]

WellFormedProfile(p) ==
  /\ p.cols > 0 /\ p.rows > 0 /\ p.xpx >= 0 /\ p.ypx >= 0
  /\ p.iopx \in BOOLEAN /\ p.xt \in {"cell", "text", "none"} /\ p.delay >= -1

\* the reply to a query arrives before the query's timeout elapses
InTime(p, tmo) == p.delay >= 0 /\ p.delay < tmo
\* how long a query waits that stops reading at the end of the reply
Waits(p, tmo) == IF InTime(p, tmo) THEN p.delay ELSE tmo

(* One determination of the cell size on terminal p (there is an active     *)
(* terminal): TIOCGWINSZ pixels first; else - only while queries are        *)
(* enabled - XTWINOPS: the terminal's own cell size report, else the window *)
(* size.  The win-size-swap workaround swaps the reported WINDOW dimensions *)
(* (from either source), never the terminal's own cell size report.         *)
(*   cell: result, w: requests written, dt: time spent waiting              *)
Determine(p, swap, queries, tmo) ==
  LET io == IF p.iopx THEN <<p.xpx, p.ypx>> ELSE <<0, 0>>
      gotIo == ~HasZero(io)
      asks == ~gotIo /\ queries
      ans == asks /\ InTime(p, tmo)
      cellRep == ans /\ p.xt = "cell"
      textRep == ans /\ p.xt = "text"
      win == IF gotIo THEN io ELSE IF textRep THEN <<p.xpx, p.ypx>> ELSE <<0, 0>>
      gotWin == gotIo \/ textRep
      w2 == IF swap THEN Rev(win) ELSE win
      cell == IF cellRep THEN <<p.xpx \div p.cols, p.ypx \div p.rows>>
              ELSE IF gotWin THEN <<w2[1] \div p.cols, w2[2] \div p.rows>>
              ELSE <<0, 0>>
  IN [cell |-> Norm(cell), w |-> IF asks THEN 1 ELSE 0, dt |-> IF asks THEN Waits(p, tmo) ELSE 0,
      fromWin |-> gotWin /\ ~cellRep]

(* utils.get_cell_size() with the documented caching ("re-determined only   *)
(* if the terminal size changes"): `det` = <<cols, rows, w, h>> of the last *)
(* determination or Nil.  Without an active terminal: None, nothing done.   *)
CellNow(tty, p, swap, queries, tmo, det) ==
  IF ~tty THEN [cell |-> NoCell, det |-> det, w |-> 0, dt |-> 0, fresh |-> FALSE, fromWin |-> FALSE]
  ELSE IF det # Nil /\ det[1] = p.cols /\ det[2] = p.rows
    THEN [cell |-> <<det[3], det[4]>>, det |-> det, w |-> 0, dt |-> 0, fresh |-> FALSE, fromWin |-> FALSE]
  ELSE LET d == Determine(p, swap, queries, tmo) IN
       [cell |-> d.cell, det |-> <<p.cols, p.rows, d.cell[1], d.cell[2]>>, w |-> d.w, dt |-> d.dt,
        fresh |-> TRUE, fromWin |-> d.fromWin]

(* A memoized query (default colours, name / version): asked only when      *)
(* there is a terminal and queries are enabled; answered iff in time.       *)
(*   v: "real" | "none", w, dt                                              *)
Ask(tty, p, queries, tmo) ==
  IF ~tty \/ ~queries THEN [v |-> "none", w |-> 0, dt |-> 0]
  ELSE [v |-> IF InTime(p, tmo) THEN "real" ELSE "none", w |-> 1, dt |-> Waits(p, tmo)]

(* utils.query_terminal(DA1, more = always): waits for the whole timeout.   *)
Probe(tty, p, queries, tmo) ==
  IF ~tty \/ ~queries THEN [rs |-> "None", w |-> 0, dt |-> 0]
  ELSE [rs |-> IF InTime(p, tmo) THEN "reply" ELSE "empty", w |-> 1, dt |-> tmo]

Transposed(p) == [p EXCEPT !.xpx = p.ypx, !.ypx = p.xpx]

-----------------------------------------------------------------------------
(* THE STEP FUNCTION, shared by the model and the trace monitor.            *)
(* A state is a record                                                      *)
(*   world   [tty, termprog]: is there an active terminal; are TERM_PROGRAM *)
(*           / TERM_PROGRAM_VERSION set                                     *)
(*   term    the terminal's current profile                                 *)
(*   cr, sup, queries, swap, tmo        the five settings                   *)
(*   det     the last cell-size determination <<cols, rows, w, h>> or Nil   *)
(*   memo    [colors, name]: "miss" | "real" | "none"                       *)
(* An operation is a record [op, sub, arg]; Apply returns the next state    *)
(* and the operation's observable outcome                                   *)
(*   res (numbers), rs (symbol), err ("" | exception class | "rejected" =   *)
(*   any exception), w (requests written to the terminal), dt (virtual time *)
(*   spent waiting), law (the law that governs this outcome).               *)
(* V names a seeded regression of the model ("code" = none).                *)
Settings == {"cr", "sup", "queries", "swap", "tmo"}
Miss == [colors |-> "miss", name |-> "miss"]

InitState(world, term, dflt) ==
  [world |-> world, term |-> term, cr |-> Half, sup |-> "unknown", queries |-> TRUE, swap |-> FALSE,
   tmo |-> dflt, det |-> Nil, memo |-> Miss]

ProfileOf(o) ==
  [cols |-> o.arg[1], rows |-> o.arg[2], xpx |-> o.arg[3], ypx |-> o.arg[4], iopx |-> o.arg[5] = 1,
   xt |-> o.sub, delay |-> o.arg[6]]
ProfileArg(p) == <<p.cols, p.rows, p.xpx, p.ypx, IF p.iopx THEN 1 ELSE 0, p.delay>>

Outcome(o, res, rs, err, w, dt, law) ==
  [op |-> o.op, sub |-> o.sub, arg |-> o.arg, res |-> res, rs |-> rs, err |-> err, w |-> w, dt |-> dt, law |-> law]

AllOps ==
  {"Switch", "SetRatioFloat", "SetRatioNonPositive", "SetRatioWrongType", "SetRatioNaN", "SetRatioAuto",
   "GetRatio", "SetSupport", "GetCellSize", "EnableQueries", "DisableQueries", "EnableSwap", "DisableSwap",
   "SetTimeout", "SetTimeoutNonPositive", "SetTimeoutWrongType", "SetTimeoutNaN", "QueryTerminal",
   "GetColors", "GetName"}

EnvLaw(s, d) == IF ~s.world.tty THEN "NoActiveTerminal" ELSE IF ~s.queries THEN "DisabledQueries" ELSE d
Quiet(o, law) == Outcome(o, <<>>, "", "", 0, 0, law)
Rejected(s, o, err) == [s |-> s, out |-> Outcome(o, <<>>, "", err, 0, 0, "RejectedChangesNothing")]
Shown(s, k, v) == IF k = "name" /\ v = "none" /\ s.world.termprog THEN "env" ELSE v
MemoizedQuery(s, o, k) ==
  IF s.memo[k] # "miss"
    THEN [s |-> s, out |-> Outcome(o, <<>>, Shown(s, k, s.memo[k]), "", 0, 0, "Remembered")]
    ELSE LET a == Ask(s.world.tty, s.term, s.queries, s.tmo) IN
         [s |-> [s EXCEPT !.memo[k] = a.v],
          out |-> Outcome(o, <<>>, Shown(s, k, a.v), "", a.w, a.dt, EnvLaw(s, "TimeoutApplies"))]

Apply(s, o, dflt, V) ==
  LET tty == s.world.tty
      g == CellNow(tty, s.term, s.swap, s.queries, s.tmo, s.det)
  IN
  CASE o.op = "Switch" ->  \* the environment: the terminal is resized / reconfigured / slows down
         [s |-> [s EXCEPT !.term = ProfileOf(o)], out |-> Quiet(o, "Environment")]

    (* ---- set_cell_ratio() ---- *)
    [] o.op = "SetRatioFloat" ->
         [s |-> [s EXCEPT !.cr = o.arg], out |-> Quiet(o, "SetterStores")]
    [] o.op = "SetRatioNonPositive" ->  \* "ValueError: ratio is a non-positive float"
         IF V = "rejectwrites" THEN [s |-> [s EXCEPT !.cr = Half], out |-> Rejected(s, o, "ValueError").out]
         ELSE Rejected(s, o, "ValueError")
    [] o.op = "SetRatioWrongType" ->    \* not a number: rejected (the documentation names no class)
         Rejected(s, o, "rejected")
    [] o.op = "SetRatioNaN" ->
         \* DEVIATION (harmless, notes/X03.md): NaN is not "a positive float", yet it is neither
         \* rejected nor normalised - it is stored and returned as is
         [s |-> [s EXCEPT !.cr = NaN], out |-> Quiet(o, "Deviation:NaNRatioAccepted")]
    [] o.op = "SetRatioAuto" ->         \* set_cell_ratio(AutoCellRatio.FIXED | DYNAMIC)
         LET first == s.sup = "unknown" \/ V = "supportredetermined"
             sup1 == IF first THEN (IF g.cell # NoCell THEN "yes" ELSE "no") ELSE s.sup   \* the support check
             det1 == IF first THEN g.det ELSE s.det
             ok == sup1 = "yes"
             fixed == ok /\ o.sub = "FIXED"
             g2 == CellNow(tty, s.term, s.swap, s.queries, s.tmo, det1)                   \* the FIXED snapshot
         IN [s |-> [s EXCEPT !.sup = sup1,
                             !.det = IF fixed THEN g2.det ELSE det1,
                             !.cr = IF ~ok THEN s.cr
                                    ELSE IF o.sub = "DYNAMIC" \/ V = "fixedisdynamic" THEN Nil
                                    ELSE RatioOf(g2.cell)],
             out |-> Outcome(o, <<>>, "", IF ok THEN "" ELSE "TermImageError",
                             (IF first THEN g.w ELSE 0) + (IF fixed THEN g2.w ELSE 0),
                             (IF first THEN g.dt ELSE 0) + (IF fixed THEN g2.dt ELSE 0),
                             IF ~ok THEN "UnsupportedRaises" ELSE IF o.sub = "FIXED" THEN "FixedSnapshot"
                             ELSE "SetterStores")]

    (* ---- get_cell_ratio() ---- *)
    [] o.op = "GetRatio" ->
         IF s.cr # Nil THEN [s |-> s, out |-> Outcome(o, s.cr, "", "", 0, 0, "SetValueReturned")]
         ELSE [s |-> [s EXCEPT !.det = g.det],
               out |-> Outcome(o, RatioOf(g.cell), "", "", g.w, g.dt, "DynamicFollows")]

    (* ---- AutoCellRatio.is_supported = True | False | None ("can be explicitly set") ---- *)
    [] o.op = "SetSupport" ->
         [s |-> [s EXCEPT !.sup = o.sub], out |-> Quiet(o, "SetterStores")]

    (* ---- utils.get_cell_size() ---- *)
    [] o.op = "GetCellSize" ->
         [s |-> [s EXCEPT !.det = g.det],
          out |-> Outcome(o, g.cell, "", "", g.w, g.dt,
                          EnvLaw(s, IF g.fromWin /\ s.swap THEN "SwapEffect" ELSE "CellSize"))]

    (* ---- enable_queries() / disable_queries() ---- *)
    [] o.op = "EnableQueries" ->
         [s |-> [s EXCEPT !.queries = TRUE,
                          !.det = IF s.queries THEN s.det ELSE Nil,
                          !.memo = IF s.queries THEN s.memo ELSE Miss],
          out |-> Quiet(o, "SetterStores")]
    [] o.op = "DisableQueries" ->
         [s |-> [s EXCEPT !.queries = FALSE], out |-> Quiet(o, "SetterStores")]

    (* ---- enable_win_size_swap() / disable_win_size_swap() ---- *)
    [] o.op = "EnableSwap" ->
         [s |-> [s EXCEPT !.swap = TRUE, !.det = IF s.swap THEN s.det ELSE Nil,
                          !.cr = IF V = "swaptouchesratio" THEN Half ELSE s.cr],
          out |-> Quiet(o, "SetterStores")]
    [] o.op = "DisableSwap" ->
         [s |-> [s EXCEPT !.swap = FALSE, !.det = IF s.swap THEN Nil ELSE s.det], out |-> Quiet(o, "SetterStores")]

    (* ---- set_query_timeout() ---- *)
    [] o.op = "SetTimeout" ->
         [s |-> [s EXCEPT !.tmo = o.arg[1]], out |-> Quiet(o, "SetterStores")]
    [] o.op = "SetTimeoutNonPositive" ->  \* "ValueError: timeout is less than or equal to zero"
         Rejected(s, o, "ValueError")
    [] o.op = "SetTimeoutWrongType" ->
         Rejected(s, o, "rejected")
    [] o.op = "SetTimeoutNaN" ->
         \* DEVIATION (harmless, notes/X03.md): a NaN timeout is stored; every query then gives up at
         \* once (`duration < nan` is false), i.e. it behaves as a timeout of zero
         [s |-> [s EXCEPT !.tmo = NaNTmo], out |-> Quiet(o, "Deviation:NaNTimeoutAccepted")]

    (* ---- utils.query_terminal(DA1, more = always) ---- *)
    [] o.op = "QueryTerminal" ->
         LET pr == Probe(tty, s.term, s.queries \/ V = "disabledasks",
                         IF V = "timeoutignored" THEN dflt ELSE s.tmo) IN
         [s |-> s, out |-> Outcome(o, <<>>, pr.rs, "", pr.w, pr.dt, EnvLaw(s, "TimeoutApplies"))]

    (* ---- utils.get_fg_bg_colors() / utils.get_terminal_name_version() (memoized) ---- *)
    [] o.op = "GetColors" -> MemoizedQuery(s, o, "colors")
    [] o.op = "GetName" -> MemoizedQuery(s, o, "name")

\* which settings an operation may change when it is accepted
Touches(op) ==
  CASE op \in {"SetRatioFloat", "SetRatioNaN"} -> {"cr"}
    [] op = "SetRatioAuto" -> {"cr", "sup"}
    [] op = "SetSupport" -> {"sup"}
    [] op \in {"EnableQueries", "DisableQueries"} -> {"queries"}
    [] op \in {"EnableSwap", "DisableSwap"} -> {"swap"}
    [] op \in {"SetTimeout", "SetTimeoutNaN"} -> {"tmo"}
    [] OTHER -> {}

Diff(a, b) == {c \in Settings : a[c] # b[c]}
=============================================================================
