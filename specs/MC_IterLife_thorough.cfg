SPECIFICATION Spec
CONSTANTS
  Ns = {2, 3, 4}
  Reps <- RepsBig
  CachedKinds = {"F", "T", "n-1", "n"}
  SlotSet = {1}
  Rich = TRUE
VIEW View
INVARIANT TypeOK
INVARIANT LoopNoLaw
INVARIANT InfiniteAlwaysMinusOne
INVARIANT NeverMoreThanRepeatLoops
INVARIANT CacheOnlyWhenInForce
PROPERTY RejectedChangesNothing
PROPERTY OtherIteratorsUntouched
PROPERTY ImageSeekDoesNotAffectIteration
PROPERTY OnlyNextMovesTheImage
PROPERTY CloseLaw
PROPERTY StopIsForEver
PROPERTY SeekLaw
PROPERTY YieldedFrameLaw
PROPERTY CountdownChangesOnFirstFrameOfALoop
PROPERTY FullLoops
PROPERTY InfiniteNeverExhausts
PROPERTY StartsAtFrameZero
PROPERTY RejectedConstructionOpensNothing
PROPERTY CachingLaw
CHECK_DEADLOCK FALSE
