------------------------------ MODULE FormatSpec ------------------------------
(***************************************************************************)
(* C19: the DOCUMENTED render format specification of term-image           *)
(* (docs/source/guide/formatting.rst, "Render Format Specification", and   *)
(* the "Format Specification" sections of KittyImage / ITerm2Image):       *)
(*                                                                         *)
(*   [h_align][width][.[v_align][height]][#[threshold|bgcolor]][+style]    *)
(*     "if the . is present, then at least one of v_align and height       *)
(*      must be present"                                                   *)
(*   block : no style specification                                        *)
(*   kitty : [L|W] [z <integer, signed 32 bit excluding -(2**31)>]         *)
(*           [m 0|1] [c 0..9]                                              *)
(*   iterm2: [L|W|A] [m 0|1] [c 0..9]                                      *)
(*                                                                         *)
(* A specifier is a sequence of one-character strings.  Three independent   *)
(* formulations live here and are proved equal by MC_FormatSpec:            *)
(*   1. Parse(style, s)      deterministic LL(1) recogniser -> Reject(kind) *)
(*                           or the denoted record (used by the trace spec) *)
(*   2. Derivations(style,s) the grammar read declaratively: every way of   *)
(*                           cutting s into the optional fields             *)
(*   3. Prod/Target          the recogniser as a character-driven machine   *)
(*                           with one named production per grammar symbol   *)
(* No number that comes from a specifier is ever converted to an integer   *)
(* (TLC integers are 32 bit): literals are judged as digit strings.         *)
(***************************************************************************)
EXTENDS Naturals, Sequences, FiniteSets, TLC

Digit     == {"0", "1", "2", "3", "4", "5", "6", "7", "8", "9"}
HexLetter == {"a", "b", "c", "d", "e", "f", "A", "B", "C", "D", "E", "F"}
HexDigit  == Digit \cup HexLetter
HAlign    == {"<", "|", ">"}
VAlign    == {"^", "-", "_"}
Styles    == {"block", "kitty", "iterm2"}
StyleIdx  == <<"block", "kitty", "iterm2">>

Methods(style) == IF style = "kitty" THEN {"L", "W"}
                  ELSE IF style = "iterm2" THEN {"L", "W", "A"} ELSE {}
MethodName(c) == IF c = "L" THEN "lines" ELSE IF c = "W" THEN "whole" ELSE "anim"

DigitVal == ("0" :> 0) @@ ("1" :> 1) @@ ("2" :> 2) @@ ("3" :> 3) @@ ("4" :> 4) @@
            ("5" :> 5) @@ ("6" :> 6) @@ ("7" :> 7) @@ ("8" :> 8) @@ ("9" :> 9)

Min(a, b) == IF a <= b THEN a ELSE b
Max(a, b) == IF a >= b THEN a ELSE b

(* ---------------------------------------------------------------------- *)
(* digit strings                                                           *)
(* ---------------------------------------------------------------------- *)
RECURSIVE Str(_)
Str(q) == IF q = <<>> THEN "" ELSE q[1] \o Str(Tail(q))

RECURSIVE DigitsEnd(_, _)   \* first index >= i that does not hold a digit
DigitsEnd(s, i) == IF i <= Len(s) /\ s[i] \in Digit THEN DigitsEnd(s, i + 1) ELSE i

AllIn(s, i, j, S) == \A k \in i..j : s[k] \in S

RECURSIVE StripLeft(_)      \* leading zeros removed
StripLeft(q) == IF q # <<>> /\ q[1] = "0" THEN StripLeft(Tail(q)) ELSE q
RECURSIVE StripRight(_)     \* trailing zeros removed
StripRight(q) == IF q # <<>> /\ q[Len(q)] = "0" THEN StripRight(SubSeq(q, 1, Len(q) - 1)) ELSE q

\* padding dimension: absent = the terminal-relative default (terminal width; terminal
\* height - 2); zero = relative to the terminal with offset zero, as draw() documents for
\* non-positive values (for the width the two coincide); otherwise absolute
PadDen(q) == IF q = <<>> THEN "default"
             ELSE LET c == StripLeft(q) IN IF c = <<>> THEN "zero" ELSE Str(c)

\* alpha threshold ".ddd" denotes the decimal fraction 0.ddd
ThresholdDen(q) == LET c == StripRight(q) IN IF c = <<>> THEN "0.0" ELSE "0." \o Str(c)

MaxZ == <<"2", "1", "4", "7", "4", "8", "3", "6", "4", "7">>   \* 2**31 - 1
RECURSIVE LexLE(_, _)       \* on digit sequences of equal length
LexLE(a, b) ==
  IF a = <<>> THEN TRUE
  ELSE IF DigitVal[a[1]] < DigitVal[b[1]] THEN TRUE
  ELSE IF DigitVal[a[1]] > DigitVal[b[1]] THEN FALSE
  ELSE LexLE(Tail(a), Tail(b))
\* |z| <= 2**31 - 1 for both signs: the documented range excludes -(2**31)
ZInRange(mag) == LET c == StripLeft(mag) IN Len(c) < 10 \/ (Len(c) = 10 /\ LexLE(c, MaxZ))
ZDen(neg, mag) == LET c == StripLeft(mag) IN
                  IF c = <<>> THEN "" ELSE (IF neg THEN "-" ELSE "") \o Str(c)

(* ---------------------------------------------------------------------- *)
(* 1. the deterministic recogniser                                         *)
(* ---------------------------------------------------------------------- *)
NoStyle == [m |-> "", z |-> "", x |-> "", c |-> ""]

\* (The recogniser is written as a pipeline of small operators, one per grammar
\* group, each handing the index it stopped at to the next: TLC's coverage
\* instrumentation expands nested LET definitions and a single long LET chain
\* makes `-coverage 1` explode.)

\* [z [-] digits]  starting at index a of t
SZ(style, t, a) ==
  IF ~(style = "kitty" /\ a <= Len(t) /\ t[a] = "z")
    THEN [has |-> FALSE, neg |-> FALSE, zs |-> a, nxt |-> a, bad |-> FALSE]
  ELSE LET neg == a + 1 <= Len(t) /\ t[a + 1] = "-"
           zs  == IF a + 1 <= Len(t) /\ t[a + 1] = "-" THEN a + 2 ELSE a + 1
       IN [has |-> TRUE, neg |-> neg, zs |-> zs, nxt |-> DigitsEnd(t, zs),
           bad |-> DigitsEnd(t, zs) = zs]

\* a two-character field  <key><value>  starting at index i of t
SKey(t, i, key, vals) ==
  IF ~(i <= Len(t) /\ t[i] = key) THEN [has |-> FALSE, val |-> "", nxt |-> i, bad |-> FALSE]
  ELSE IF i + 1 <= Len(t) /\ t[i + 1] \in vals
    THEN [has |-> TRUE, val |-> t[i + 1], nxt |-> i + 2, bad |-> FALSE]
  ELSE [has |-> TRUE, val |-> "", nxt |-> i + 2, bad |-> TRUE]

SFinish(t, hasM, Z, X, C) ==
  IF Z.bad \/ X.bad \/ C.bad \/ C.nxt # Len(t) + 1 THEN [ok |-> FALSE, kind |-> "style"]
  ELSE IF Z.has /\ ~ZInRange(SubSeq(t, Z.zs, Z.nxt - 1)) THEN [ok |-> FALSE, kind |-> "zrange"]
  ELSE [ok |-> TRUE,
        \* style arguments equal to their default are not denoted (defaults removed):
        \* z0, m0, c4
        m |-> IF hasM THEN MethodName(t[1]) ELSE "",
        z |-> IF Z.has THEN ZDen(Z.neg, SubSeq(t, Z.zs, Z.nxt - 1)) ELSE "",
        x |-> IF X.has /\ X.val = "1" THEN "true" ELSE "",
        c |-> IF C.has /\ C.val # "4" THEN C.val ELSE ""]
S3(t, hasM, Z, X) == SFinish(t, hasM, Z, X, SKey(t, X.nxt, "c", Digit))
S2(t, hasM, Z)    == S3(t, hasM, Z, SKey(t, Z.nxt, "m", {"0", "1"}))

\* t = the text after '+' (non-empty).  Result: ok + fields, or the reject kind.
StyleParse(style, t) ==
  IF style = "block" THEN [ok |-> FALSE, kind |-> "style"]
  ELSE S2(t, t[1] \in Methods(style), SZ(style, t, IF t[1] \in Methods(style) THEN 2 ELSE 1))

FirstPlus(s) == IF \E i \in 1..Len(s) : s[i] = "+"
                THEN CHOOSE i \in 1..Len(s) : s[i] = "+" /\ \A j \in 1..(i - 1) : s[j] # "+"
                ELSE 0

\* [h_align][width]: a = index after h_align, b = index after width
PHead(s) == LET a == IF Len(s) >= 1 /\ s[1] \in HAlign THEN 2 ELSE 1
            IN [a |-> a, b |-> DigitsEnd(s, a)]

\* [.[v_align][height]] starting at index b: c = index after the dot, d = after v_align,
\* e = after height
PDotGroup(s, b) ==
  IF ~(b <= Len(s) /\ s[b] = ".") THEN [dot |-> FALSE, hasV |-> FALSE, c |-> b, d |-> b, e |-> b]
  ELSE LET hasV == b + 1 <= Len(s) /\ s[b + 1] \in VAlign
           d    == IF b + 1 <= Len(s) /\ s[b + 1] \in VAlign THEN b + 2 ELSE b + 1
       IN [dot |-> TRUE, hasV |-> hasV, c |-> b + 1, d |-> d, e |-> DigitsEnd(s, d)]

\* [#[threshold|bgcolor]] starting at index e: f = index after '#', g = after the group
PAlpha(s, e) ==
  IF ~(e <= Len(s) /\ s[e] = "#") THEN [ak |-> "default", f |-> e, g |-> e, bad |-> FALSE]
  ELSE IF e + 1 <= Len(s) /\ s[e + 1] = "#"
    THEN [ak |-> "termbg", f |-> e + 1, g |-> e + 2, bad |-> FALSE]
  ELSE IF e + 1 <= Len(s) /\ s[e + 1] = "."
    THEN [ak |-> "threshold", f |-> e + 1, g |-> DigitsEnd(s, e + 2),
          bad |-> DigitsEnd(s, e + 2) = e + 2]       \* a decimal point needs digits
  ELSE IF e + 6 <= Len(s) /\ AllIn(s, e + 1, e + 6, HexDigit)
    THEN [ak |-> "hex", f |-> e + 1, g |-> e + 7, bad |-> FALSE]
  ELSE [ak |-> "none", f |-> e + 1, g |-> e + 1, bad |-> FALSE]

\* an ill-formed top level whose text after the first '+' is also no style specification
\* of this render style has two defects: either documented error class is tolerated
\* (the documentation does not order them)
AlsoBadStyle(style, s) ==
  LET fp == FirstPlus(s) IN
  /\ fp > 0 /\ fp < Len(s)
  /\ ~StyleParse(style, SubSeq(s, fp + 1, Len(s))).ok
  /\ StyleParse(style, SubSeq(s, fp + 1, Len(s))).kind = "style"

PBuild(s, H, G, A, plus, sp) ==
  IF ~sp.ok
    THEN [ok |-> FALSE, kind |-> sp.kind,
          classes |-> IF sp.kind = "style" THEN {"StyleError"} ELSE {"ValueError"}]
  ELSE [ok |-> TRUE,
        h  |-> IF H.a = 2 THEN s[1] ELSE "none",
        w  |-> PadDen(SubSeq(s, H.a, H.b - 1)),
        wq |-> StripLeft(SubSeq(s, H.a, H.b - 1)),     \* the same, as a digit sequence
        v  |-> IF G.hasV THEN s[G.c] ELSE "none",
        ht |-> IF G.dot THEN PadDen(SubSeq(s, G.d, G.e - 1)) ELSE "default",
        ak |-> A.ak,
        ad |-> IF A.ak = "threshold" THEN ThresholdDen(SubSeq(s, A.f + 1, A.g - 1))
               ELSE IF A.ak = "hex" THEN Str(SubSeq(s, A.f, A.f + 5)) ELSE "",
        m  |-> sp.m, z |-> sp.z, x |-> sp.x, c |-> sp.c,
        plus |-> plus]

\* [+style] starting at index A.g, then nothing
PFinish(style, s, lax, H, G, A) ==
  LET n    == Len(s)
      plus == A.g <= Len(s) /\ s[A.g] = "+"
      bare == G.dot /\ G.e = G.c           \* a dot followed by neither v_align nor height
  IN IF A.bad \/ (bare /\ ~lax) \/ (IF plus THEN A.g = n ELSE A.g # n + 1)
       THEN [ok |-> FALSE, kind |-> "format",
             classes |-> {"ValueError"} \cup
                         (IF AlsoBadStyle(style, s) THEN {"StyleError"} ELSE {})]
     ELSE PBuild(s, H, G, A, plus,
                 IF plus THEN StyleParse(style, SubSeq(s, A.g + 1, n))
                 ELSE [ok |-> TRUE] @@ NoStyle)

P3(style, s, lax, H, G) == PFinish(style, s, lax, H, G, PAlpha(s, G.e))
P2(style, s, lax, H)    == P3(style, s, lax, H, PDotGroup(s, H.b))

\* lax = TRUE waives the rule "a dot needs v_align or height" (used only to NAME the
\* cause of a wrong acceptance, never to accept anything)
ParseX(style, s, lax) == P2(style, s, lax, PHead(s))

Parse(style, s) == ParseX(style, s, FALSE)

\* the only thing wrong with s is a dot followed by neither v_align nor height
OnlyBareDot(style, s) == ~Parse(style, s).ok /\ ParseX(style, s, TRUE).ok
BareDotClass(style, s) == LET L == ParseX(style, s, TRUE) IN
                          IF L.ak = "termbg" THEN "hash-bg"
                          ELSE IF L.plus THEN "style" ELSE "other"

Den(P) == [h |-> P.h, w |-> P.w, v |-> P.v, ht |-> P.ht, ak |-> P.ak, ad |-> P.ad,
           m |-> P.m, z |-> P.z, x |-> P.x, c |-> P.c]

(* ---------------------------------------------------------------------- *)
(* 2. the grammar, declaratively: all derivations of s                     *)
(* ---------------------------------------------------------------------- *)
Seg(s, i, j) == SubSeq(s, i + 1, j)           \* characters i+1 .. j

IsNumber(q)    == Len(q) >= 1 /\ AllIn(q, 1, Len(q), Digit)
IsHAlign(q)    == Len(q) = 1 /\ q[1] \in HAlign
IsVAlign(q)    == Len(q) = 1 /\ q[1] \in VAlign
IsThreshold(q) == Len(q) >= 2 /\ q[1] = "." /\ AllIn(q, 2, Len(q), Digit)
IsHexColor(q)  == Len(q) = 6 /\ AllIn(q, 1, 6, HexDigit)
IsTermBg(q)    == q = <<"#">>
IsMethod(style, q) == Len(q) = 1 /\ q[1] \in Methods(style)
IsZ(q) == /\ Len(q) >= 2 /\ q[1] = "z"
          /\ LET neg == q[2] = "-"
                 mag == SubSeq(q, IF neg THEN 3 ELSE 2, Len(q))
             IN IsNumber(mag) /\ ZInRange(mag)
IsMix(q)      == Len(q) = 2 /\ q[1] = "m" /\ q[2] \in {"0", "1"}
IsCompress(q) == Len(q) = 2 /\ q[1] = "c" /\ q[2] \in Digit

Extend(T, F(_)) == UNION {{Append(t, j) : j \in F(t)} : t \in T}

\* A derivation is the vector of cut positions
\*   <<h, width, dot, v_align, height, hash, alpha-arg, plus, method, z, mix, compress>>
\* (position after each field; an absent field repeats the previous position).
Derivations(style, s) ==
  LET n  == Len(s)
      T1 == Extend({<<>>}, LAMBDA t : {j \in 0..Min(1, n) : j = 0 \/ IsHAlign(Seg(s, 0, j))})
      T2 == Extend(T1, LAMBDA t : {j \in t[1]..n : j = t[1] \/ IsNumber(Seg(s, t[1], j))})
      T3 == Extend(T2, LAMBDA t : {j \in t[2]..Min(t[2] + 1, n) : j = t[2] \/ Seg(s, t[2], j) = <<".">>})
      \* v_align and height exist only inside the dot group ...
      T4 == Extend(T3, LAMBDA t : {j \in t[3]..Min(t[3] + 1, n) :
                                     j = t[3] \/ (t[3] > t[2] /\ IsVAlign(Seg(s, t[3], j)))})
      \* ... which must contain at least one of them
      T5 == Extend(T4, LAMBDA t : {j \in t[4]..n :
                                     /\ j = t[4] \/ (t[3] > t[2] /\ IsNumber(Seg(s, t[4], j)))
                                     /\ t[3] > t[2] => j > t[3]})
      T6 == Extend(T5, LAMBDA t : {j \in t[5]..Min(t[5] + 1, n) : j = t[5] \/ Seg(s, t[5], j) = <<"#">>})
      T7 == Extend(T6, LAMBDA t : {j \in t[6]..n :
                                     j = t[6] \/ (t[6] > t[5] /\ LET q == Seg(s, t[6], j) IN
                                                  IsThreshold(q) \/ IsHexColor(q) \/ IsTermBg(q))})
      T8 == Extend(T7, LAMBDA t : {j \in t[7]..Min(t[7] + 1, n) : j = t[7] \/ Seg(s, t[7], j) = <<"+">>})
      \* the style fields exist only after '+', which needs a non-empty style
      T9 == Extend(T8, LAMBDA t : {j \in t[8]..Min(t[8] + 1, n) :
                                     j = t[8] \/ (t[8] > t[7] /\ IsMethod(style, Seg(s, t[8], j)))})
      TA == Extend(T9, LAMBDA t : {j \in t[9]..n :
                                     j = t[9] \/ (t[8] > t[7] /\ style = "kitty" /\ IsZ(Seg(s, t[9], j)))})
      TB == Extend(TA, LAMBDA t : {j \in t[10]..Min(t[10] + 2, n) :
                                     j = t[10] \/ (t[8] > t[7] /\ style # "block" /\ IsMix(Seg(s, t[10], j)))})
      TC == Extend(TB, LAMBDA t : {j \in t[11]..Min(t[11] + 2, n) :
                                     j = t[11] \/ (t[8] > t[7] /\ style # "block" /\ IsCompress(Seg(s, t[11], j)))})
  IN {t \in TC : t[12] = n /\ (t[8] > t[7] => t[12] > t[8])}

\* what a derivation denotes (read off the fields, independently of Parse)
DenOf(s, t) ==
  LET zq  == Seg(s, t[9], t[10])
      neg == Len(zq) >= 2 /\ zq[2] = "-"
      aq  == Seg(s, t[6], t[7])
  IN [h  |-> IF t[1] > 0 THEN s[1] ELSE "none",
      w  |-> PadDen(Seg(s, t[1], t[2])),
      v  |-> IF t[4] > t[3] THEN s[t[4]] ELSE "none",
      ht |-> PadDen(Seg(s, t[4], t[5])),
      ak |-> IF t[6] = t[5] THEN "default"
             ELSE IF aq = <<>> THEN "none"
             ELSE IF aq = <<"#">> THEN "termbg"
             ELSE IF aq[1] = "." THEN "threshold" ELSE "hex",
      ad |-> IF aq # <<>> /\ aq[1] = "." THEN ThresholdDen(Tail(aq))
             ELSE IF Len(aq) = 6 THEN Str(aq) ELSE "",
      m  |-> IF t[9] > t[8] THEN MethodName(s[t[9]]) ELSE "",
      z  |-> IF t[10] > t[9] THEN ZDen(neg, SubSeq(zq, IF neg THEN 3 ELSE 2, Len(zq))) ELSE "",
      x  |-> IF t[11] > t[10] /\ s[t[11]] = "1" THEN "true" ELSE "",
      c  |-> IF t[12] > t[11] /\ s[t[12]] # "4" THEN s[t[12]] ELSE ""]

(* ---------------------------------------------------------------------- *)
(* 3. the recogniser as a machine: one named production per grammar symbol *)
(* ---------------------------------------------------------------------- *)
\* phase = the grammar symbol the last character belonged to; k counts hex digits
StartPhase == [p |-> "start", k |-> 0]

AfterTop(c) == IF c = "#" THEN "Hash" ELSE IF c = "+" THEN "Plus" ELSE "Junk"
StyleStart(style, from, c) ==
  \* from: 0 = after '+', 1 = after method, 2 = after z, 3 = after mix
  IF from < 1 /\ c \in Methods(style) THEN "Method"
  ELSE IF from < 2 /\ style = "kitty" /\ c = "z" THEN "ZKey"
  ELSE IF from < 3 /\ style # "block" /\ c = "m" THEN "MixKey"
  ELSE IF style # "block" /\ c = "c" THEN "CompressKey"
  ELSE "Junk"

Prod(style, ph, c) ==
  LET p == ph.p IN
  IF p = "start" /\ c \in HAlign THEN "HAlign"
  ELSE IF p \in {"start", "HAlign", "WidthDigit"} THEN
    (IF c \in Digit THEN "WidthDigit" ELSE IF c = "." THEN "Dot" ELSE AfterTop(c))
  ELSE IF p = "Dot" THEN
    (IF c \in VAlign THEN "VAlign" ELSE IF c \in Digit THEN "HeightDigit" ELSE "Junk")
  ELSE IF p \in {"VAlign", "HeightDigit"} THEN
    (IF c \in Digit THEN "HeightDigit" ELSE AfterTop(c))
  ELSE IF p = "Hash" THEN
    (IF c = "." THEN "ThresholdPoint" ELSE IF c = "#" THEN "TermBg"
     ELSE IF c \in HexDigit THEN "HexDigit" ELSE IF c = "+" THEN "Plus" ELSE "Junk")
  ELSE IF p = "ThresholdPoint" THEN (IF c \in Digit THEN "ThresholdDigit" ELSE "Junk")
  ELSE IF p = "ThresholdDigit" THEN
    (IF c \in Digit THEN "ThresholdDigit" ELSE IF c = "+" THEN "Plus" ELSE "Junk")
  ELSE IF p = "TermBg" THEN (IF c = "+" THEN "Plus" ELSE "Junk")
  ELSE IF p = "HexDigit" THEN
    (IF ph.k < 6 THEN (IF c \in HexDigit THEN "HexDigit" ELSE "Junk")
     ELSE IF c = "+" THEN "Plus" ELSE "Junk")
  ELSE IF p = "Plus" THEN StyleStart(style, 0, c)
  ELSE IF p = "Method" THEN StyleStart(style, 1, c)
  ELSE IF p = "ZKey" THEN
    (IF c = "-" THEN "ZSign" ELSE IF c \in Digit THEN "ZDigit" ELSE "Junk")
  ELSE IF p = "ZSign" THEN (IF c \in Digit THEN "ZDigit" ELSE "Junk")
  ELSE IF p = "ZDigit" THEN (IF c \in Digit THEN "ZDigit" ELSE StyleStart(style, 2, c))
  ELSE IF p = "MixKey" THEN (IF c \in {"0", "1"} THEN "MixVal" ELSE "Junk")
  ELSE IF p = "MixVal" THEN StyleStart(style, 3, c)
  ELSE IF p = "CompressKey" THEN (IF c \in Digit THEN "CompressVal" ELSE "Junk")
  ELSE "Junk"     \* after CompressVal, or already dead

Target(ph, prod) == [p |-> prod, k |-> IF prod = "HexDigit" THEN ph.k + 1 ELSE 0]

\* the text read so far is structurally a sentence (the z-index range is a value
\* constraint judged on the literal by Parse)
Accepting(ph) ==
  \/ ph.p \in {"start", "HAlign", "WidthDigit", "VAlign", "HeightDigit", "Hash",
               "ThresholdDigit", "TermBg", "Method", "ZDigit", "MixVal", "CompressVal"}
  \/ ph.p = "HexDigit" /\ ph.k = 6
Dead(ph) == ph.p = "Junk"

Productions == {"HAlign", "WidthDigit", "Dot", "VAlign", "HeightDigit", "Hash",
                "ThresholdPoint", "ThresholdDigit", "TermBg", "HexDigit", "Plus", "Method",
                "ZKey", "ZSign", "ZDigit", "MixKey", "MixVal", "CompressKey", "CompressVal"}
=============================================================================
