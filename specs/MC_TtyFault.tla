---------------------------- MODULE MC_TtyFault ----------------------------
(***************************************************************************)
(* C13, exhaustive: every operation that changes terminal modes, in every   *)
(* read mode, from every initial attribute word, with a fault injected      *)
(* before / after each system call (and the caller's predicate raising).    *)
(* Invariant: when the operation terminates - normally, by timeout or by    *)
(* the exception - the attribute word is the one found at entry.            *)
(*                                                                         *)
(* Not injected (DESIGN 2.5): faults inside the clean-up of the outermost   *)
(* operation (its restoring tcsetattr "before", draw's final writes).       *)
(* The exception kind is not part of the state: the machine has no branch   *)
(* on it (only OSError at the ioctl and termios.error at tcdrain are caught *)
(* by the code, and neither is injected); the harness replays both kinds.   *)
(* Every finished behaviour prints a FAULT line replayed on a real pty.     *)
(***************************************************************************)
EXTENDS Tty, Json

CONSTANTS Tmo,        \* query timeout / positive read timeout in ticks
          AllWords    \* TRUE: query-type operations from all 12 words, else from 3

VARIABLES par, m, e, fired, exm, hist
vars == <<par, m, e, fired, exm, hist>>

Words == {[icanon |-> c, echo |-> ec, vmin |-> mt[1], vtime |-> mt[2], rest |-> 0] :
            c \in BOOLEAN, ec \in BOOLEAN, mt \in {<<1, 0>>, <<0, 0>>, <<0, 5>>}}
FewWords == {w \in Words : <<w.icanon, w.echo, w.vmin, w.vtime>> \in
               {<<TRUE, TRUE, 1, 0>>, <<FALSE, FALSE, 0, 0>>, <<TRUE, FALSE, 0, 5>>}}
Win0 == [cols |-> 80, rows |-> 24, xpx |-> 0, ypx |-> 0]

T0 == [sup |-> {"fg", "xtv", "cell", "da1"},
       fg |-> [c |-> << <<99>>, <<48>>, <<102>> >>, st |-> "bel"],
       bg |-> [c |-> << <<48>>, <<48>>, <<48>> >>, st |-> "st"],
       name |-> <<75, 99>>, ver |-> <<49>>, form |-> "paren", xst |-> "st",
       cell |-> <<20, 10>>, area |-> <<480, 800>>, kid |-> 31, kmsg |-> MsgOK, da1 |-> <<54>>,
       envName |-> <<>>, envVer |-> <<>>]

Pred1 == [stop |-> 3, raiseAt |-> 0]
Pred2 == [stop |-> 99, raiseAt |-> 2]      \* PredicateRaises (second call)
Input == <<97, 98, 99, 100>>               \* typed before a direct read

OneBurst(rs, d) == IF rs = <<>> THEN <<>> ELSE <<[delay |-> d, data |-> Cat(rs)]>>

\* ---- operations x modes ----
ReadOps ==
  {[NoOp EXCEPT !.name = "read", !.tmo = TNone, !.min = mn, !.echo = ec] : mn \in {0, 2}, ec \in BOOLEAN}
  \cup {[NoOp EXCEPT !.name = "read", !.tmo = Tmo, !.min = mn, !.echo = ec, !.more = mo] :
          mn \in {0, 2}, ec \in BOOLEAN, mo \in {"always", "ext"}}
  \cup {[NoOp EXCEPT !.name = "read", !.tmo = TInf, !.min = mn, !.echo = ec, !.more = "ext"] :
          mn \in {0, 2}, ec \in BOOLEAN}
ReadCases ==
  {[opx |-> o, pred |-> p, preload |-> Input, sched |-> <<>>] :
     o \in ReadOps, p \in {Pred1, Pred2}}
QueryCases ==
  {[opx |-> [NoOp EXCEPT !.name = "query", !.req = ReqNameVer, !.more = "ext", !.tmo = t],
    pred |-> p, preload |-> <<120>>, sched |-> <<OneBurst(Replies(T0, ReqNameVer), 1)>>] :
     t \in {TNone, Tmo + 1}, p \in {[stop |-> Len(XtvReply(T0)), raiseAt |-> 0], [stop |-> 99, raiseAt |-> 3]}}
  \cup {[opx |-> [NoOp EXCEPT !.name = "colors"], pred |-> Pred1, preload |-> <<>>,
         sched |-> <<OneBurst(Replies(T0, ReqColors), 0)>>],
        [opx |-> [NoOp EXCEPT !.name = "cellsize"], pred |-> Pred1, preload |-> <<>>,
         sched |-> <<OneBurst(Replies(T0, ReqCell), 1)>>]}
\* the terminal stays silent: the query times out with an empty response ("on timeout" clause)
SilentCases ==
  {[opx |-> [NoOp EXCEPT !.name = "query", !.req = ReqNameVer, !.more = mo, !.tmo = t],
    pred |-> [stop |-> 99, raiseAt |-> 0], preload |-> <<120>>, sched |-> <<>>] :
     t \in {TNone, Tmo + 1}, mo \in {"csi", "ext"}}
  \cup {[opx |-> [NoOp EXCEPT !.name = o], pred |-> Pred1, preload |-> <<>>, sched |-> <<>>] :
          o \in {"colors", "namever", "cellsize"}}
DrawCases ==
  {[opx |-> [NoOp EXCEPT !.name = "draw", !.hide = h, !.echo = ec, !.nbody = 2], pred |-> Pred1,
    preload |-> <<>>, sched |-> <<>>] : h \in BOOLEAN, ec \in BOOLEAN}

Cfg == [enabled |-> TRUE, qtmo |-> Tmo, swap |-> FALSE, term |-> T0]
Env0(c, w) == NewEnv(w, Win0, FALSE, c.preload, c.sched, c.pred)

\* number of system calls of the fault-free run: the fault positions are 1..RunLen
RECURSIVE RunLen(_, _)
RunLen(mm, ee) ==
  IF mm.status # "run" \/ ee.hung THEN ee.nsys
  ELSE LET r == Respond(ee, Pending(mm)) IN RunLen(Feed(mm, r.res), [r.env EXCEPT !.nsys = @ + 1])

\* The exception kind matters only in draw (except KeyboardInterrupt -> _handle_interrupted_draw_):
\* both kinds are enumerated there; elsewhere the harness alternates them.
Pars(cases, words, kinds) ==
  UNION {{[case |-> c, attr0 |-> w, fault |-> f] :
            f \in {[k |-> 0, when |-> "before", kind |-> "InjectedFault"]}
                  \cup {[k |-> k, when |-> wh, kind |-> kd] :
                          k \in 1..RunLen(Start(Cfg, c.opx), Env0(c, w)), wh \in {"before", "after"}, kd \in kinds}}
         : c \in cases, w \in words}
Params == Pars(ReadCases, Words, {"InjectedFault"})
          \cup Pars(DrawCases, Words, {"InjectedFault", "KeyboardInterrupt"})
          \cup Pars(QueryCases \cup SilentCases, IF AllWords THEN Words ELSE FewWords, {"InjectedFault"})

Init ==
  /\ par \in Params
  /\ m = Start(Cfg, par.case.opx)
  /\ e = Env0(par.case, par.attr0)
  /\ fired = FALSE
  /\ exm = FALSE
  /\ hist = <<>>

Exempt == OutermostCleanup(m) /\ (par.fault.when = "before" \/ Top(m).pc = "d_fin")

Sys(call) ==
  /\ m.status = "run" /\ ~e.hung
  /\ Pending(m).call = call
  /\ LET rq == Pending(m)
         r == Respond(e, rq)
         hit == par.fault.k = e.nsys + 1 /\ ~Exempt /\ (par.fault.when = "before" \/ r.res.ok) IN
       /\ m' = Feed(m, IF hit THEN ResRaise(par.fault.kind) ELSE r.res)
       /\ e' = IF hit /\ par.fault.when = "before" THEN [e EXCEPT !.nsys = @ + 1] ELSE [r.env EXCEPT !.nsys = @ + 1]
       /\ fired' = (fired \/ hit)
       /\ exm' = (exm \/ (par.fault.k = e.nsys + 1 /\ Exempt))
       /\ hist' = Append(hist, call)
  /\ UNCHANGED par

Tcgetattr == Sys("tcgetattr")
Tcsetattr == Sys("tcsetattr")
Write == Sys("write")
Tcdrain == Sys("tcdrain")
Select == Sys("select")
Read == Sys("read")
Monotonic == Sys("monotonic")
Termsize == Sys("termsize")
Ioctl == Sys("ioctl")
More == Sys("more")
Stream == Sys("stream")
Hook == Sys("hook")      \* _render_ / _handle_interrupted_draw_ / _finalize_render_data_ of the renderable
Next == Hook \/ Tcgetattr \/ Tcsetattr \/ Write \/ Tcdrain \/ Select \/ Read \/ Monotonic \/ Termsize \/ Ioctl
        \/ More \/ Stream
Spec == Init /\ [][Next]_vars

Done == m.status # "run" \/ e.hung

\* ---- C13 ----
AttrRestored == Done => e.attr = par.attr0
Terminates == Done => (~e.hung /\ m.status \in {"returned", "raised"})
FaultSurfaces == (Done /\ fired) => m.status = "raised"
\* every enumerated position exists: the fault fires unless it is exempt (clean-up) or the
\* call itself fails
\* the attributes really are changed on the way (the invariant is not vacuous)
\* the silent-terminal cases really time out with an empty response
TimesOutEmpty ==
  (Done /\ par.fault.k = 0 /\ par.case.sched = <<>> /\ par.case.opx.name = "query") =>
     (m.status = "returned" /\ m.rb = <<>> /\ ~m.rnone /\ e.now > 0)
ModeIsChanged ==
  (Done /\ par.fault.k = 0 /\ par.case.opx.name = "read") => \E i \in 1..Len(hist) : hist[i] = "tcsetattr"

Report ==
  Done => PrintT(<<"FAULT", ToJson(
    [opx |-> par.case.opx, pred |-> par.case.pred, preload |-> par.case.preload, sched |-> par.case.sched,
     attr0 |-> par.attr0, fault |-> par.fault, fired |-> fired, exempt |-> exm, tmo |-> Tmo, term |-> T0,
     enabled |-> TRUE, swap |-> FALSE, win |-> Win0, ioctlFails |-> FALSE,
     exp |-> [status |-> m.status, kind |-> m.exc, nsys |-> e.nsys, attr |-> e.attr, calls |-> hist,
              rb |-> m.rb, rnone |-> m.rnone]])>>)
=============================================================================
