SPECIFICATION SpecDump
CONSTANTS
  Bits = 2
  NSlots = 3
ACTION_CONSTRAINT Dump
CHECK_DEADLOCK FALSE
