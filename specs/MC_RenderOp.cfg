SPECIFICATION Spec
INVARIANT NoLifecycleError
INVARIANT EndsQuiescent
CHECK_DEADLOCK FALSE
