"""C16 - render-argument sets obey their precedence, compatibility and immutability laws.

model:    specs/RenderArgs.tla (functional core: Value / Accepts / Expected, class rules)
          specs/MC_RenderArgs.tla (heap layer, one action per API operation, laws)
spec->code: every edge TLC generates (all class trees of the tier x all histories of
          MaxOps operations over a heap <= 6) is replayed on dynamically created render
          classes, depth-first with shared prefixes; after every operation the result,
          the exception class, the values of ALL live objects, ==/hash/`in`/[] relations
          are compared with what TLC printed.  The namespace-class acceptance table
          (ClassDefs / InstanceRules) is replayed the same way.
data:     specs/RenderData.tla + MC_RenderData.tla: the complete state graph of a RenderData
          set (update with known / unknown / mixed field lists in both orders, attribute
          get/set/del, as_dict, get_fields, set[cls]); every edge replayed on a real set,
          reading every field before and after each call (a rejected call changes nothing).
code->spec: seeded random + hypothesis histories on trees of up to 8 classes are recorded
          from the real code and validated by TLC against specs/Trace_RenderArgs.tla.
"""

from __future__ import annotations

import json
import random
import re
import shutil
import uuid
from collections import defaultdict
from pathlib import Path

from .. import c16_kit as kit
from .. import tlc
from ..core import Report

ASSUMPTIONS = [
    "usage as documented: a namespace class is associated with its render class before that "
    "class is subclassed or any RenderArgs for it is created; field values are never mutated "
    "(None, falsy values, values of another type that compare equal, and UNHASHABLE values - a "
    "list / a dict - are all legal field values)",
    "identity of the constituents is demanded where the statement gives it: a resulting set holds "
    "the very namespace object given last for a class, else the very object the initial set holds; "
    "default-valued constituents and namespaces made inside an operation are unconstrained",
    "hash() of a namespace / set raises TypeError if and only if a field value is unhashable (both "
    "__hash__ docstrings); every other operation treats such values like any other",
    "object identity is permitted nondeterminism: an operation may return a fresh object or an "
    "existing one whose (kind, class, values) equal the required result; values, acceptance and "
    "non-interference are compared strictly (identity agreement with the model is only counted)",
    "when one call breaks two documented preconditions whose order the docs do not fix "
    "(incompatible initial set AND incompatible namespace; bad class AND unknown field in "
    "update(cls, **fields)) either documented exception is accepted; a raised exception matches "
    "a documented class if that class is in its MRO",
    "hash clauses: equal objects must hash equal (law); objects that differ ONLY in the "
    "associated render class must hash differently (both __hash__ docstrings key the hash on "
    "the render class; a collision of CPython's tuple hash here has probability ~2^-61)",
    "histories executed depth-first share their prefix objects: sibling operations run on the "
    "same live objects (legitimate longer histories, since every operation must leave existing "
    "objects unchanged); fresh render/namespace classes are created per first operation",
]

API = {
    "NsNew": "ArgsNamespace()",
    "NsUpdate": "ArgsNamespace.update",
    "New": "RenderArgs()",
    "UpdateNs": "RenderArgs.update(ns)",
    "Update": "RenderArgs.update(cls)",
    "Convert": "RenderArgs.convert",
    "Or": "ArgsNamespace.__or__",
    "Ror": "ArgsNamespace.__ror__",
    "Pos": "ArgsNamespace.__pos__",
    "ToRenderArgs": "ArgsNamespace.to_render_args",
}
ACTIONS = [
    "NsNew", "NsNewRejected", "New", "NewRejected", "Update", "UpdateRejected", "UpdateNs",
    "UpdateNsRejected", "Convert", "ConvertRejected", "Or", "OrRejected", "Ror", "RorRejected",
    "Pos", "NsUpdate", "NsUpdateRejected", "ToRenderArgs", "ToRenderArgsRejected",
]
MAX_VIOLATIONS = 40
# operations that may be GIVEN the unhashable value as a keyword (MC_RenderArgs: UvalOps)
UVAL_NEW = '{"NsNew"}'
UVAL_ALL = '{"NsNew", "NsUpdate", "Update", "AllClasses"}'
NQUICK = 6  # number of class trees in TreesQuick (one TLC partition each)
OUT = tlc.OUT / "c16"


# ---------------------------------------------------------------------------------------
# TLC runs
# ---------------------------------------------------------------------------------------
CFG = """SPECIFICATION Spec
CONSTANTS
  TreeSel = "{sel}"
  Part = {part}
  NParts = {nparts}
  Sub = {sub}
  NSub = {nsub}
  MaxOps = {maxops}
  MaxHeap = 6
  MaxNss = {maxnss}
  DumpEdges = {dump}
  UvalOps = {uval}
VIEW View
ACTION_CONSTRAINT Dump
INVARIANT StateDump
INVARIANT HeapWellFormed
INVARIANT DefaultsPristine
INVARIANT FoldAgrees
INVARIANT ResultClass
INVARIANT OperandsContained
INVARIANT HeldIsGiven
INVARIANT RejectionDocumented
INVARIANT EqIsEquivalence
INVARIANT EqualHashEqual
INVARIANT NeutralOps
PROPERTY HeapImmutable
CHECK_DEADLOCK FALSE
"""


def run_mc(rep: Report, sel: str, maxops: int, nparts: int, dump: bool, coverage,
           timeout: float, label: str, nsub: int = 1, maxnss: int = 2,
           uval: str = '{"NsNew"}'):
    """Run MC_RenderArgs on `nparts` partitions of the tree set side by side (an edge dump
    needs one worker per JVM).  coverage: True = every partition runs with -coverage;
    "sample" = the partitions run without it and one extra JVM runs -coverage on TreesCover
    (same bounds); per-action edge counts of the whole run are measured either way."""
    d = OUT / f"cfg-{uuid.uuid4().hex[:8]}"
    d.mkdir(parents=True, exist_ok=True)
    jvm = ["-Xmx3g", "-Xss64m", "-XX:ParallelGCThreads=2"]
    jobs = []
    for p in range(nparts * nsub):
        f = d / f"MC_{sel}_{p}.cfg"
        f.write_text(CFG.format(sel=sel, part=p // nsub, nparts=nparts, sub=p % nsub, nsub=nsub,
                                maxops=maxops, maxnss=maxnss, dump="TRUE" if dump else "FALSE",
                                uval=uval))
        jobs.append(dict(spec="MC_RenderArgs", cfg=str(f), workers=1 if dump else 2, jvm=jvm,
                         timeout=timeout, coverage=coverage is True, deadlock=False))
    if coverage == "sample":
        f = d / "MC_cover.cfg"
        f.write_text(CFG.format(sel="cover", part=0, nparts=1, sub=0, nsub=1, maxops=maxops,
                                maxnss=maxnss, dump="FALSE", uval=uval))
        jobs.append(dict(spec="MC_RenderArgs", cfg=str(f), workers=1, jvm=jvm, timeout=timeout,
                         coverage=True, deadlock=False))
    try:
        results = tlc.run_many(jobs, parallel=8)
    finally:
        shutil.rmtree(d, ignore_errors=True)
    cov: dict[str, int] = defaultdict(int)
    for res in results:
        rep.add_tlc(res)
        if res.violated:
            rep.violation(
                f"design:RenderArgs:{res.violated}",
                f"the specification itself violates {res.violated} ({label})\n" + res.error_text[:1500],
                {"kind": "design", "sel": sel, "maxops": maxops},
            )
        for a, (_d, g) in res.coverage.items():
            cov[a] += g
    parts = results[: nparts * nsub]
    rep.extra.setdefault("mc", []).append(
        {"label": label, "trees": sel, "max_ops": maxops, "parts": nparts,
         "first_op_subparts": nsub,
         "states": sum(r.distinct for r in parts), "generated": sum(r.generated for r in parts),
         "wall_s": round(max(r.wall_s for r in results), 1)}
    )
    if coverage:
        vac = [a for a in ACTIONS if cov.get(a, 0) == 0]
        if vac:
            raise tlc.MachineryError(f"vacuous actions in {label} (-coverage): {vac}")
        rep.extra.setdefault("action_coverage", {})[
            label + (" (-coverage on TreesCover)" if coverage == "sample" else "")
        ] = {a: cov[a] for a in ACTIONS}
    return parts


def tagged_lines(stdout: str, tag: str):
    pre = f'<<"{tag}", "'
    n = len(pre)
    for line in stdout.splitlines():
        if line.startswith(pre) and line.endswith('">>'):
            try:
                yield json.loads(line[n:-3].replace('\\"', '"'))
            except json.JSONDecodeError as e:
                raise tlc.MachineryError(f"undecodable {tag} line: {line[:200]!r}: {e}")


# ---------------------------------------------------------------------------------------
# spec -> code: depth-first replay of the edge dump
# ---------------------------------------------------------------------------------------
class Fail(Exception):
    def __init__(self, clause: str, detail: str, api: str | None = None):
        # api: the API element at fault when it is not the last operation of the history
        self.clause, self.detail, self.api = clause, detail, api


def hkey(heap) -> str:
    return json.dumps(heap, separators=(",", ":"))


class Replayer:
    def __init__(self, rep: Report, info: dict, edges: list, judge: dict, label: str):
        self.rep = rep
        self.info = info  # TREE record
        self.par, self.has = info["par"], info["has"]
        self.judge = judge  # heap key -> judgement
        self.label = label
        self.out: dict[tuple, list] = defaultdict(list)
        for e in edges:
            self.out[(hkey(e[1]), tuple(e[2]), e[3])].append(e)
        self.n_edges = self.n_paths = 0
        self.ident_same = self.ident_diff = 0
        self.stop = False
        self.expanded: set = set()  # states whose out-edges have been replayed
        self.fetch_paths: list = []  # histories ending in an operation that may hand out a shared default
        self.n_isolated = 0

    # one operation + every comparison for the state it leads to
    def step(self, tree: kit.Tree, objs: dict, extras: list, e: list):
        _t, heap, _d, _n, op, rid, exc, _d2, add, hold = e
        name = op[0]
        r, got = tree.execute(objs, op)
        if exc:
            if not got:
                raise Fail("accepts", f"{name}{op[1:]} was accepted; the spec requires one of {exc}; "
                                      f"result {tree.observe(r)}")
            if not set(exc) & set(got):
                raise Fail("exception-class", f"{name}{op[1:]} raised {got[0]}; documented: {exc}")
            heap2 = heap
            objs2 = objs
        else:
            if got:
                raise Fail("rejects", f"{name}{op[1:]} raised {got[0]} although every constituent "
                                      "is compatible")
            fresh = rid == len(heap) + 1
            heap2 = heap + [add] if fresh else heap
            want = heap2[rid - 1][:3]  # (kind, class, values); [3] = namespace-subclass flag
            obs = tree.observe(r)
            if obs != want:
                raise Fail("value", f"{name}{op[1:]} returned {obs}; required {want} (last namespace "
                                    "given, else the initial set's, else the default)")
            # identity: permitted = fresh or an existing object with the required record
            alias = [i for i, x in objs.items() if x is r]
            for i in alias:
                if heap[i - 1][:3] != want:
                    raise Fail("alias", f"{name}{op[1:]} returned the existing object #{i} "
                                        f"{heap[i - 1]} where {want} is required")
            # identity of the CONSTITUENTS: the spec names, per class, the object the resulting
            # set must hold (the namespace given last for it / the one the initial set holds)
            if hold:
                given = kit._Operands(tree, objs)
                for k, tok in enumerate(hold, 1):
                    if tok and r[tree.cls[k]] is not given[tok]:
                        who = f"namespace #{tok}" if tok > 0 else f"the K{k} namespace held by set #{(-tok) // 16}"
                        raise Fail("holds", f"{name}{op[1:]} returned a set whose K{k} namespace is not the "
                                            f"object given ({who}) but another one: "
                                            f"{tree.observe(r[tree.cls[k]])} {type(r[tree.cls[k]]).__name__}; "
                                            f"identical to {tree.held(r, objs)[k - 1] or 'no live object'}")
            if (bool(alias) and not fresh and rid in alias) or (fresh and not alias):
                self.ident_same += 1
            else:
                self.ident_diff += 1
            if fresh:
                objs2 = dict(objs)
                objs2[rid] = r
            else:
                objs2 = objs
                if rid not in alias:
                    extras.append((r, want))
        # (iii) every live object still has the value the model says
        for i, x in objs2.items():
            obs = tree.observe(x)
            if obs != heap2[i - 1][:3]:
                shared = any(d == i for d in e[7])
                raise Fail("mutated-shared-default" if shared else "mutated",
                           f"after {name}{op[1:]} live object #{i} is {obs}, was {heap2[i - 1][:3]}"
                           + (" (the shared default set of its class)" if shared else ""))
        for x, want in extras:
            if tree.observe(x) != want:
                raise Fail("mutated", f"after {name}{op[1:]} an earlier result changed to {tree.observe(x)}")
        # (iv) relations of the successor state, as judged by TLC
        j = self.judge.get(hkey(heap2))
        if j is None:
            raise tlc.MachineryError(f"no STATE line for heap {heap2} of tree {self.info}")
        live = [objs2[i] for i in range(1, len(heap2) + 1)]
        rel = kit.relations(tree, live)
        if rel["err"]:
            what = {"==": "eq", "in": "contains", "hash": "hash"}[rel["err"][0][0]]
            raise Fail(f"{what}-raises", f"after {name}{op[1:]}: {rel['err'][0][0]} on objects "
                                         f"{rel['err'][0][1:3]} of heap {heap2} raised {rel['err'][0][3]}; every "
                                         "legal field value (hashable or not) must compare by value",
                       api=rel["err"][0][4])
        if sorted(rel["uh"]) != sorted(j["uh"]):
            raise Fail("hashability", f"hash() raises TypeError for objects {sorted(rel['uh'])}; required "
                                      f"{sorted(j['uh'])} (hashable iff every field value is) in heap {heap2}")
        if rel["asym"] or rel["nonrefl"]:
            raise Fail("eq-not-an-equivalence", f"== / != inconsistent on pairs {rel['asym']} {rel['nonrefl']}")
        if sorted(rel["eq"]) != sorted(j["eq"]):
            raise Fail("eq", f"== holds for pairs {sorted(rel['eq'])}; required {sorted(j['eq'])} in heap {heap2}")
        heq = {tuple(p) for p in rel["heq"]}
        for p in j["he"]:
            if tuple(p) not in heq:
                raise Fail("hash-law", f"objects {p} of heap {heap2} are equal but hash differently")
        if rel["dmiss"]:
            raise Fail("dict-lookup", f"objects {rel['dmiss']} of heap {heap2} are equal but one is not "
                                      "found in a dict / set keyed by the other")
        for p in j["hd"]:
            if tuple(p) in heq:
                raise Fail("hash-ignores-class", f"objects {p} of heap {heap2} differ only in the "
                                                 "render class but hash equal")
        if sorted(rel["ct"]) != sorted(j["ct"]):
            raise Fail("contains", f"`ns in set` holds for {sorted(rel['ct'])}; required {sorted(j['ct'])} in {heap2}")
        gi = [tree.getitems(x) for x in live]
        if gi != j["gi"]:
            raise Fail("getitem", f"set[cls] outcomes {gi}; required {j['gi']} in heap {heap2}")
        return heap2, objs2

    @staticmethod
    def fetches(e) -> bool:
        """Operations whose result may be a class's shared (interned) default set: their
        outcome depends on class-level state, so their histories are also run in isolation."""
        op = e[4]
        return (op[0] == "New" and not op[4]) or op[0] == "Convert"

    def run_isolated(self, path) -> Fail | None:
        """The history alone, on fresh classes, with every check; then the default sets."""
        from term_image.renderable import RenderArgs

        tree = kit.Tree(self.par, self.has)
        objs: dict = {}
        extras: list = []
        try:
            for e in path:
                _heap2, objs = self.step(tree, objs, extras, e)
            for c in range(len(self.par) + 1):
                try:
                    obs = tree.observe(RenderArgs(tree.cls[c]))
                except Exception as ex:  # noqa: BLE001
                    obs = ["raised", type(ex).__name__, str(ex)]
                want = ["ra", c, self.info["ds"][c]]
                if obs != want:
                    raise Fail("shared-default-altered",
                               f"after the history, RenderArgs(K{c}) is {obs}; the default set is {want}")
        except Fail as f:
            return f
        return None

    def dfs(self, tree, key, objs, extras, path, only=None):
        if only is None:
            if key in self.expanded:
                return
            self.expanded.add(key)
        for e in self.out.get(key, ()):  # noqa: B007
            if self.stop:
                return
            if only is not None and e[4] != only:
                continue
            self.n_edges += 1
            self.rep.evaluations += 1
            if self.fetches(e):
                self.fetch_paths.append(path + [e])
            try:
                heap2, objs2 = self.step(tree, objs, extras, e)
            except Fail as f:
                self.report(f, path + [e])
                continue
            k2 = (hkey(heap2), tuple(e[7]), e[3] + 1)
            self.rep.distinct.add(self.case_sig(e))
            if k2 in self.out and k2 not in self.expanded:
                self.dfs(tree, k2, objs2, list(extras), path + [e])
            else:
                self.n_paths += 1

    def case_sig(self, e):
        heap, op = e[1], e[4]
        cl = lambda i: heap[i - 1][1] if i > 0 else (-1 if i == 0 else -100 - (-i) % 16)  # noqa: E731
        return (self.info["t"], self.label, op[0], cl(op[1]), op[2] if op[0] == "NsNew" else cl(op[2]), op[3],
                tuple(cl(i) for i in op[4]), tuple(f for f, _ in op[5]), tuple(e[6]), e[5] > len(heap))

    def run(self, only_first=None):
        n = len(self.par)
        root = ("[]", tuple([0] * (n + 1)), 0)
        firsts = self.out.get(root, [])
        if not firsts:
            raise tlc.MachineryError(f"tree {self.info} has no initial edges")
        for e1 in firsts:
            if self.stop:
                break
            if only_first is not None and e1[4] != only_first:
                continue
            tree = kit.Tree(self.par, self.has)
            self.dfs(tree, root, {}, [], [], only=e1[4])
            # the shared default set of every class is still the default set
            from term_image.renderable import RenderArgs

            for c in range(n + 1):
                try:
                    obs = tree.observe(RenderArgs(tree.cls[c]))
                except Exception as ex:  # noqa: BLE001
                    obs = ["raised", type(ex).__name__, str(ex)]
                want = ["ra", c, self.info["ds"][c]]
                if obs != want:
                    self.report(Fail("shared-default-altered",
                                     f"after the histories starting with {e1[4]}, RenderArgs(K{c}) is "
                                     f"{obs}; the default set is {want}"), [e1], dfs_only=True)
                    break
        # second pass: class-level state (interned default sets) leaks between sibling
        # histories above, so every history ending in a fetch runs alone on fresh classes
        for path in self.fetch_paths:
            if self.stop:
                break
            self.n_isolated += 1
            f = self.run_isolated(path)
            if f:
                self.report(f, path, isolated=True)
        self.fetch_paths = []

    # -- reporting ---------------------------------------------------------------------
    def report(self, f: Fail, path: list, dfs_only: bool = False, isolated: bool = False):
        ops = [e[4] for e in path]
        name = ops[-1][0]
        iso = f if isolated else None
        if not dfs_only and not isolated:
            iso = self.run_isolated(path)
        tree = {"par": self.par, "has": self.has}
        if iso:
            f = iso
        sig = f"{f.api or API.get(name, name)}:{f.clause}"
        detail = (f"tree par={self.par} has={self.has} (class 0 = Renderable; K<c> has fields f1.."
                  f"f{{1,2}})\nhistory: {ops}\n{f.detail}")
        if iso:
            scenario = {"kind": "trace", "tree": tree, "ops": ops}
            detail += "\n(history run alone on freshly created classes)"
        else:
            scenario = {"kind": "dfs", "tree": tree, "first": ops[0], "label": self.label}
            detail += ("\n(not reproduced by the history alone: depends on earlier sibling histories "
                       "on the same classes - shared class-level state was altered)")
            if not dfs_only:
                sig += ":after-sibling-histories"
        self.rep.violation(sig, detail, scenario)
        if len(self.rep.violations) >= MAX_VIOLATIONS:
            self.stop = True


# ---------------------------------------------------------------------------------------
# code -> spec: recording
# ---------------------------------------------------------------------------------------
class Recorder:
    def __init__(self, par, has):
        self.tree = kit.Tree(par, has)
        self.live: list = []
        self.events: list = []
        self.par, self.has = list(par), sorted(has)

    def do(self, op: list):
        t = self.tree
        objs = {i + 1: x for i, x in enumerate(self.live)}
        r, exc = t.execute(objs, op)
        rid = 0
        if not exc:
            rid = next((i + 1 for i, x in enumerate(self.live) if x is r), 0)
            if not rid:
                self.live.append(r)
                rid = len(self.live)
        held = t.held(r, objs) if not exc else []
        rel = kit.relations(t, self.live)
        heap = []
        for x in self.live:
            k, c, v = t.observe(x)
            heap.append({"k": k, "c": c, "v": v})
        self.events.append({
            "op": {"op": op[0], "a": op[1], "b": op[2], "cls": op[3], "nss": list(op[4]),
                   "kw": [list(p) for p in op[5]]},
            "exc": exc, "rid": rid, "heap": heap, "eq": rel["eq"], "heq": rel["heq"],
            "ct": rel["ct"], "gi": [t.getitems(x) for x in self.live],
            "bad": rel["asym"] + [[i, i] for i in rel["nonrefl"]],
            "dmiss": rel["dmiss"], "held": held, "uh": rel["uh"],
            "err": {"==": "eq", "in": "contains", "hash": "hash"}[rel["err"][0][0]] if rel["err"] else "",
            "errapi": rel["err"][0][4] if rel["err"] else "",
        })
        return rid, exc

    def trace(self) -> dict:
        return {"par": self.par, "has": self.has, "ev": self.events}


def record_ops(par, has, ops) -> dict:
    rec = Recorder(par, has)
    for op in ops:
        rec.do(op)
    return rec.trace()


def random_tree(choose, nmax: int):
    n = 2 + choose(nmax - 1)  # 2..nmax classes below Renderable
    par = [0]
    for i in range(2, n + 1):  # parent of class i among 0..i-1; chains are favoured
        par.append(i - 1 if choose(3) == 0 else choose(i))
    has = [c for c in range(1, n + 1) if choose(4)]
    if not has:
        has = [1 + choose(n)]
    return par, has


def random_history(choose, nmax: int, length: int, heap_cap: int = 9) -> dict:
    """One history driven by `choose(n) -> 0..n-1` (random.Random or hypothesis)."""
    par, has = random_tree(choose, nmax)
    rec = Recorder(par, has)
    n = len(par)
    t = rec.tree

    def anc(c):
        out = [c]
        while c:
            c = par[c - 1]
            out.append(c)
        return out

    def kw_for(c):
        fields = list(range(1, kit.nf(c) + 1)) if c in has else [1]
        if choose(6) == 0:  # an unknown field now and then
            fields.append(kit.nf(c) + 1 if c in has else 3)
        picked = sorted({fields[choose(len(fields))] for _ in range(choose(len(fields) + 1))})
        # now and then the unhashable value (a list / a dict): a legal field value
        return [[f, kit.UVAL if choose(5) == 0 else choose(2)] for f in picked]

    for _ in range(length):
        ns = [i + 1 for i, x in enumerate(rec.live) if t.observe(x)[0] == "ns"]
        ra = [i + 1 for i, x in enumerate(rec.live) if t.observe(x)[0] == "ra"]
        # namespaces extracted from live sets (set[cls] / iteration), as operands -(16*set+cls)
        refs = [-(16 * i + k) for i in ra if i < 200
                for k in range(1, n + 1) if t.observe(rec.live[i - 1])[2][k - 1]]
        if refs and ns:
            ns = ns + [refs[choose(len(refs))] for _ in range(1 + len(ns) // 2)]
        elif refs:
            ns = [refs[choose(len(refs))]]
        cls_of = lambda i: (t.observe(rec.live[i - 1])[1] if i > 0 else (-i) % 16)  # noqa: E731
        full = len(rec.live) >= heap_cap
        names = ["NsNew"]
        if ns:
            names += ["NsUpdate", "Pos", "ToRenderArgs", "Or", "Ror", "New", "New"]
        if ra:
            names += ["Update", "Update", "Convert", "Convert", "New"]
        if ra and ns:
            names += ["UpdateNs", "UpdateNs", "Or", "Ror"]
        if not ns and not ra:
            names += ["New"]
        if full:
            names = [x for x in names if x != "NsNew"] or ["New"]
        name = names[choose(len(names))]

        def rel_cls(c, prefer_valid=True):
            # mostly a related class, sometimes any class
            if choose(4) == 0:
                return choose(n + 1)
            cands = anc(c) + [d for d in range(1, n + 1) if c in anc(d)]
            return cands[choose(len(cands))]

        if name == "NsNew":
            c = has[choose(len(has))]
            # b: 1 = instance of a namespace SUBCLASS, 2 = values of another type that are ==
            op = ["NsNew", 0, (1, 2, 0, 0)[choose(4)], c, [], kw_for(c)]
        elif name == "NsUpdate":
            a = ns[choose(len(ns))]
            op = ["NsUpdate", a, 0, 0, [], kw_for(cls_of(a))]
        elif name == "Pos":
            op = ["Pos", ns[choose(len(ns))], 0, 0, [], []]
        elif name == "ToRenderArgs":
            a = ns[choose(len(ns))]
            op = ["ToRenderArgs", a, 0, -1 if choose(3) == 0 else rel_cls(cls_of(a)), [], []]
        elif name in ("Or", "Ror"):
            a = ns[choose(len(ns))]
            pool = ns + ra
            op = [name, a, pool[choose(len(pool))], 0, [], []]
        elif name == "New":
            init = ra[choose(len(ra))] if ra and choose(3) else 0
            k = choose(4) if ns else 0
            nss = [ns[choose(len(ns))] for _ in range(k)]
            base = cls_of(init) if init else (cls_of(nss[0]) if nss else choose(n + 1))
            op = ["New", init, 0, rel_cls(base), nss, []]
        elif name == "Update":
            a = ra[choose(len(ra))]
            c = rel_cls(cls_of(a))
            op = ["Update", a, 0, c, [], kw_for(c)]
        elif name == "Convert":
            a = ra[choose(len(ra))]
            op = ["Convert", a, 0, rel_cls(cls_of(a)), [], []]
        else:  # UpdateNs
            a = ra[choose(len(ra))]
            op = ["UpdateNs", a, 0, 0, [ns[choose(len(ns))] for _ in range(1 + choose(3))], []]
        rec.do(op)
    return rec.trace()


def gen_traces(rep: Report, count: int, length: int) -> list[dict]:
    traces = []
    rng = random.Random(rep.seed * 1000003 + 16)
    half = count // 2
    for _ in range(half):
        traces.append(random_history(lambda k: rng.randrange(k), 8, length + rng.randrange(5)))
    # hypothesis-driven half (derandomized, seeded)
    try:
        from hypothesis import HealthCheck, Phase, given, seed, settings
        from hypothesis import strategies as st
    except ImportError as e:  # pragma: no cover
        raise tlc.MachineryError(f"hypothesis missing: {e}")

    got: list[dict] = []

    @seed(rep.seed * 7 + 16)
    @settings(max_examples=count - half, database=None, deadline=None, derandomize=False,
              phases=[Phase.generate], suppress_health_check=list(HealthCheck))
    @given(st.data())
    def hyp(data):
        def choose(k):
            return data.draw(st.integers(0, k - 1))

        got.append(random_history(choose, 8, length + 2))

    hyp()
    traces += got
    return traces


def ops_of(trace: dict) -> list:
    return [[e["op"][k] for k in ("op", "a", "b", "cls", "nss", "kw")] for e in trace["ev"]]


def validate(rep: Report, traces: list[dict], name: str):
    verdicts, st, tr = tlc.validate_traces(
        "Trace_RenderArgs", "Trace_RenderArgs.cfg", traces, batch=max(50, len(traces) // 8 + 1),
        parallel=8, workers=2, timeout=600, name=name,
    )
    rep.states += st
    rep.transitions += tr
    return verdicts


# ---------------------------------------------------------------------------------------
# render data: mutable namespaces (specs/RenderData.tla, MC_RenderData.tla)
# ---------------------------------------------------------------------------------------
DATA_API = {"Update": "DataNamespace.update", "Set": "DataNamespace.__setattr__",
            "Get": "DataNamespace.__getattr__", "Del": "DataNamespace.__delattr__",
            "AsDict": "DataNamespace.as_dict", "GetFields": "DataNamespace.get_fields",
            "GetItem": "RenderData.__getitem__"}
DATA_ACTIONS = ["RdGetItem", "RdGetItemNoNamespace", "RdGetItemNotAncestor", "RdUpdate",
                "RdUpdateRejected", "RdSet", "RdSetUnknown", "RdGet", "RdGetUnknown",
                "RdGetUninitialized", "RdDel", "RdAsDict", "RdAsDictUninitialized", "RdGetFields"]
DATA_CFG = """SPECIFICATION Spec
CONSTANTS
  Sel = "{sel}"
  DumpEdges = TRUE
VIEW View
ACTION_CONSTRAINT Dump
INVARIANT TypeOK
PROPERTY RejectedHasNoEffect
PROPERTY ReadsHaveNoEffect
PROPERTY WritesAreExact
PROPERTY NeverUninitialized
CHECK_DEADLOCK FALSE
"""


def run_data_mc(sel: str):
    """TLC on MC_RenderData (complete state graph, -coverage, edge dump)."""
    d = OUT / f"dcfg-{uuid.uuid4().hex[:8]}"
    d.mkdir(parents=True, exist_ok=True)
    f = d / "MC_RenderData.cfg"
    f.write_text(DATA_CFG.format(sel=sel))
    try:
        return tlc.run("MC_RenderData", str(f), workers=1, timeout=600, coverage=True,
                       jvm=["-Xmx3g", "-Xss64m", "-XX:ParallelGCThreads=2"], deadlock=False)
    finally:
        shutil.rmtree(d, ignore_errors=True)


def replay_data_walk(case: dict, tree, walk: list) -> tuple[int, str, str] | None:
    """Run one walk (list of DEDGE arrays) on a fresh real RenderData; every field of every
    namespace is read before and after each call.  Returns (index, clause, detail) of the
    first disagreement."""
    cls = case["cls"]
    rd = tree.new(cls)
    witness = tree.new(cls)
    for k in tree.owners(cls):
        for f in range(1, kit.nf(k) + 1):
            setattr(witness[tree.cls[k]], f"f{f}", 1)
    wit0 = tree.read_all(witness, cls)
    for i, e in enumerate(walk):
        _cs, frm, op, exc, ret, to = e
        before = tree.read_all(rd, cls)
        if before != frm:
            return i, "state", f"before {op}: fields are {before}, the history requires {frm}"
        got, val = tree.execute(rd, op)
        after = tree.read_all(rd, cls)
        call = f"{op[0]}{op[1:]}"
        if exc and not got:
            return i, "accepts", f"{call} did not raise; documented: {exc}; fields {before} -> {after}"
        if not exc and got:
            return i, "rejects", f"{call} raised {got}; it is valid; fields {before} -> {after}"
        if exc and exc not in val:
            return i, "exception-class", f"{call} raised {got}; documented: {exc}"
        if exc and after != before:
            return i, "rejected-op-had-effect", (
                f"{call} raised {got} but changed the namespace(s): {before} -> {after}; a "
                "rejected operation must leave every field unchanged")
        if after != to:
            return i, "value", f"after {call} the fields are {after}; required {to} (were {before})"
        if not exc and val != ret:
            return i, "return", f"{call} returned {val}; required {ret}"
        if tree.read_all(witness, cls) != wit0:
            return i, "other-object-changed", f"{call} changed another live RenderData: {tree.read_all(witness, cls)}"
    return None


def replay_data(rep: Report, res, label: str):
    from ..graph import Graph

    rep.add_tlc(res)
    if res.violated:
        rep.violation(f"design:RenderData:{res.violated}",
                      f"MC_RenderData violates {res.violated}\n" + res.error_text[:1500],
                      {"kind": "design"})
        return
    vac = [a for a in DATA_ACTIONS if res.coverage.get(a, (0, 0))[1] == 0]
    if vac:
        raise tlc.MachineryError(f"vacuous data actions: {vac}")
    cases = {c["cs"]: c for c in tagged_lines(res.stdout, "DCASE")}
    by_case: dict[int, list] = defaultdict(list)
    for e in tagged_lines(res.stdout, "DEDGE"):
        by_case[e[0]].append(e)
    if not by_case:
        raise tlc.MachineryError("no DEDGE lines")
    n_edges = n_walks = 0
    canary_done = False
    for cs, edges in sorted(by_case.items()):
        case = cases[cs]
        tree = kit.DataTree(case["par"], case["has"])
        g = Graph([{"from": e[1], "op": e[2:5], "to": e[5], "raw": e} for e in edges],
                  inits=[case["init"]])
        walks = g.walks(max_len=60)
        if g.unreachable_edges:
            raise tlc.MachineryError(f"{g.unreachable_edges} data edges unreachable in case {case}")
        if not canary_done:
            # the alarm must ring: a rejected update whose required successor is altered
            for w in walks:
                j = next((i for i, x in enumerate(w) if x["raw"][3] and x["raw"][2][0] == "Update"), None)
                if j is not None:
                    bad = [json.loads(json.dumps(x["raw"])) for x in w[: j + 1]]
                    k = bad[j][2][1]
                    bad[j][5][k - 1][0] = 1 - bad[j][5][k - 1][0] if bad[j][5][k - 1][0] != kit.U else 0
                    if replay_data_walk(case, tree, bad) is None:
                        raise tlc.MachineryError("tampered data edge was not rejected")
                    canary_done = True
                    break
        for w in walks:
            raw = [x["raw"] for x in w]
            n_walks += 1
            n_edges += len(raw)
            rep.evaluations += len(raw)
            for x in raw:
                rep.distinct.add(("data", cs, x[2][0], x[2][1], tuple(f for f, _ in x[2][4]), x[3]))
            bad = replay_data_walk(case, tree, raw)
            if bad and len(rep.violations) < MAX_VIOLATIONS:
                # shorten: calls that did not change the state can be left out of the history
                short = [x for x in raw[: bad[0]] if x[1] != x[5]] + [raw[bad[0]]]
                bad2 = replay_data_walk(case, tree, short)
                if bad2 and bad2[1] == bad[1]:
                    raw, bad = short, bad2
                i, clause, detail = bad
                op = raw[i][2]
                kwf = [f for f, _ in op[4]]
                shape = ""
                if op[0] == "Update" and raw[i][3]:
                    unk = [f > kit.nf(op[1]) for f in kwf]
                    shape = (":mixed-unknown-first" if unk[0] and not all(unk) else
                             ":mixed-unknown-later" if not all(unk) else ":unknown-only")
                rep.violation(
                    f"{DATA_API[op[0]]}:{clause}{shape}",
                    f"data namespaces: tree par={case['par']} owners={case['has']}, RenderData(D{case['cls']}); "
                    f"fields f1..; 2 = uninitialized\nhistory: {[x[2] for x in raw[: i + 1]]}\n{detail}",
                    {"kind": "data", "case": case, "walk": raw[: i + 1]})
    if not canary_done:
        raise tlc.MachineryError("data canary did not run")
    rep.traces_validated += n_walks
    rep.extra["data"] = {"label": label, "cases": len(by_case), "states": res.distinct,
                         "edges": n_edges, "walks": n_walks,
                         "action_coverage": {a: res.coverage[a][1] for a in DATA_ACTIONS},
                         "canary": "a tampered rejected-update edge is rejected"}


# ---------------------------------------------------------------------------------------
# namespace-class acceptance table
# ---------------------------------------------------------------------------------------
def check_rules(rep: Report, stdout: str):
    crules = list(tagged_lines(stdout, "CLASSRULE"))
    irules = list(tagged_lines(stdout, "INSTRULE"))
    if len(crules) < 40 or len(irules) < 15:
        raise tlc.MachineryError(f"acceptance table not printed ({len(crules)}, {len(irules)})")
    for r in crules:
        d = r["d"]
        rep.evaluations += 1
        got = kit.try_class_def(d)
        desc = ",".join(f"{k}={d[k]}" for k in ("kind", "nbases", "depth", "defines", "defaults",
                                                "assoc", "taken"))
        flags = ([f"inherits@{d['depth']}"] if d["depth"] else []) + [
            k for k in ("defines", "assoc", "taken") if d[k]]
        sig_in = f"{d['kind']}:" + "+".join(flags) + (":2bases" if d["nbases"] > 1 else "") + (
            "" if d["defaults"] else ":nodefault")
        rep.distinct.add(("classrule", desc))
        if r["broken"]:
            if not got["exc"]:
                rep.violation(f"namespace-class:accepts:{sig_in}",
                              f"class definition [{desc}] was accepted; documented rules broken: "
                              f"{r['broken']}", {"kind": "classrule", "d": d})
            elif not set(r["broken"]) & set(got["exc"]):
                rep.violation(f"namespace-class:exception-class:{sig_in}",
                              f"class definition [{desc}] raised {got['exc'][0]}; documented: "
                              f"{r['broken']}", {"kind": "classrule", "d": d})
        else:
            want_rc = "R" if d["assoc"] else "R0" if d["depth"] else None
            if got["exc"]:
                rep.violation(f"namespace-class:rejects:{sig_in}",
                              f"class definition [{desc}] raised {got['exc'][0]} although it follows "
                              "every documented rule", {"kind": "classrule", "d": d})
            elif got["render_cls"] != want_rc or bool(got.get("instantiable")) != r["associated"]:
                rep.violation(f"namespace-class:association:{sig_in}",
                              f"class definition [{desc}]: associated with {got['render_cls']} "
                              f"(instantiable={got.get('instantiable')}); required {want_rc} "
                              f"(associated={r['associated']})", {"kind": "classrule", "d": d})
        if got["after"] != r["after"]:
            rep.violation(f"namespace-class:owner-changed:{sig_in}",
                          f"class creation [{desc}] ({'rejected' if got['exc'] else 'accepted'}): afterwards "
                          f"R / R0 own {got['after']}; required {r['after']} (a rejected creation, e.g. a "
                          "re-association, leaves the render classes' Args / _Data_ untouched)",
                          {"kind": "classrule", "d": d})
    for r in irules:
        rep.evaluations += 1
        got = kit.try_instance_rule(r)
        rep.distinct.add(("instrule", r["kind"], r["what"]))
        ok = (not got) if not r["exc"] else (r["exc"] in got)
        if not ok:
            rep.violation(f"namespace:{r['kind']}:{r['what']}",
                          f"{r['kind']} namespace, {r['what']}: raised {got[:1] or 'nothing'}; "
                          f"documented: {r['exc'] or 'no exception'}", {"kind": "instrule", "r": r})
    rep.extra["class_rules"] = len(crules)
    rep.extra["instance_rules"] = len(irules)


# ---------------------------------------------------------------------------------------
_STDOUTS: list[str] = []  # TLC outputs of the parts, inherited by the forked replay workers


def _replay_part(args):
    idx, label, only_tree, only_first, canary, seed = args
    rep = Report(property_id="C16", tier="", seed=seed)
    stdout = _STDOUTS[idx]
    infos = {t["t"]: t for t in tagged_lines(stdout, "TREE")}
    # index the raw lines per tree first; decode one tree at a time (memory)
    raw_e: dict[int, list] = defaultdict(list)
    raw_s: dict[int, list] = defaultdict(list)
    pe, ps = '<<"EDGE", "[', '<<"STATE", "'
    tkey = re.compile(r'\\"t\\":(\d+)')
    for line in stdout.splitlines():
        if line.startswith(pe):
            raw_e[int(line[len(pe):line.index(",", len(pe))])].append(line)
        elif line.startswith(ps):
            m = tkey.search(line)
            if not m:
                return {"error": f"STATE line without tree id: {line[:120]}"}
            raw_s[int(m.group(1))].append(line)
    if not raw_e:
        return {"error": f"no EDGE lines in part {idx} of {label}"}
    acts: dict[str, int] = defaultdict(int)
    out = {"edges": 0, "paths": 0, "same": 0, "diff": 0, "trees": 0, "canary": False, "isolated": 0,
           "sample": None, "error": None}
    try:
        for t in sorted(raw_e):
            info = infos[t]
            if only_tree and (info["par"], info["has"]) != (only_tree["par"], only_tree["has"]):
                continue
            edges = list(tagged_lines("\n".join(raw_e.pop(t)), "EDGE"))
            judge = {hkey(x["h"]): x["j"] for x in tagged_lines("\n".join(raw_s.pop(t, [])), "STATE")}
            for e in edges:
                acts[e[4][0] + ("Rejected" if e[6] else "")] += 1
            rp = Replayer(rep, info, edges, judge, label)
            if canary and not out["canary"]:
                canary_edge(rp, edges)
                canary_hold(rp, edges)
                out["canary"] = True
            rp.run(only_first)
            out["trees"] += 1
            out["edges"] += rp.n_edges
            out["paths"] += rp.n_paths
            out["isolated"] += rp.n_isolated
            out["same"] += rp.ident_same
            out["diff"] += rp.ident_diff
            if out["sample"] is None:
                out["sample"] = {"tree": {"par": info["par"], "has": info["has"]}, "edges": edges[-2:]}
            if rp.n_edges != len(edges) and not rp.stop and not only_first and not rep.violations:
                return {"error": f"replayed {rp.n_edges} of {len(edges)} edges of tree {info} ({label})"}
            if len(rep.violations) >= MAX_VIOLATIONS:
                break
    except tlc.MachineryError as e:
        return {"error": str(e)}
    out["actions"] = dict(acts)
    out["violations"] = [(v.signature, v.detail, v.scenario) for v in rep.violations]
    out["distinct"] = rep.distinct
    out["evaluations"] = rep.evaluations
    return out


def replay_edges(rep: Report, results, label: str, only_tree=None, only_first=None):
    import multiprocessing as mp

    global _STDOUTS
    _STDOUTS = [r.stdout for r in results]
    canary = not (only_tree or rep.extra.get("canary_edge"))
    jobs = [(i, label, only_tree, only_first, canary and i == 0, rep.seed) for i in range(len(results))]
    ctx = mp.get_context("fork")
    with ctx.Pool(min(8, len(jobs))) as pool:
        outs = pool.map(_replay_part, jobs, chunksize=1)
    _STDOUTS = []
    tot = {"label": label, "trees": 0, "edges": 0, "paths": 0, "isolated_histories": 0,
           "identity_as_modelled": 0, "identity_differs": 0}
    acts: dict[str, int] = defaultdict(int)
    for o in outs:
        if o.get("error"):
            raise tlc.MachineryError(o["error"])
        for k, v in o["actions"].items():
            acts[k] += v
        tot["trees"] += o["trees"]
        tot["edges"] += o["edges"]
        tot["paths"] += o["paths"]
        tot["isolated_histories"] += o["isolated"]
        tot["identity_as_modelled"] += o["same"]
        tot["identity_differs"] += o["diff"]
        rep.evaluations += o["evaluations"]
        rep.distinct |= o["distinct"]
        for sig, detail, scenario in o["violations"]:
            if len(rep.violations) < MAX_VIOLATIONS:
                rep.violation(sig, detail, scenario)
        if o["canary"]:
            rep.extra["canary_edge"] = ("a tampered edge (required value altered) is rejected; so is one whose "
                                       "required holder is an equal but different namespace object")
        if o["sample"] and len(rep.samples) < 2:
            rep.sample(o["sample"])
    if canary and not rep.extra.get("canary_edge"):
        raise tlc.MachineryError("edge canary did not run")
    if not (only_tree or only_first):
        vac = [a for a in ACTIONS if not acts.get(a)]
        if vac:
            raise tlc.MachineryError(f"actions without a replayed edge in {label}: {vac}")
        tot["edges_per_action"] = {a: acts[a] for a in ACTIONS}
    rep.traces_validated += tot["paths"] + tot["isolated_histories"]
    rep.extra.setdefault("replay", []).append(tot)


def canary_hold(rp: Replayer, edges: list):
    """The identity alarm must ring: `+ns#1` on a heap with two EQUAL namespaces, the required
    holder altered to the other (equal) object, must be rejected with clause `holds`."""
    for e in edges:
        heap, op = e[1], e[4]
        if (op[0] == "Pos" and op[1] == 1 and len(heap) == 2 and heap[0][0] == heap[1][0] == "ns"
                and heap[0][:3] == heap[1][:3] and not e[6]):
            tree = kit.Tree(rp.par, rp.has)
            objs: dict = {}
            for i, (_k, c, v, sb) in enumerate(heap, 1):
                objs[i], exc = tree.execute(objs, ["NsNew", 0, sb, c, [], [[f, x] for f, x in enumerate(v, 1)]])
                if exc:
                    raise tlc.MachineryError(f"identity canary: cannot build {heap[i - 1]}: {exc}")
            bad = json.loads(json.dumps(e))
            bad[9][heap[0][1] - 1] = 2
            try:
                rp.step(tree, dict(objs), [], e)
            except Fail as f:
                return  # the genuine edge fails: the run reports it; nothing to prove here
            try:
                rp.step(tree, dict(objs), [], bad)
            except Fail as f:
                if f.clause == "holds":
                    return
            raise tlc.MachineryError("edge with a tampered holder (an equal but different namespace "
                                     "object) was not rejected by the replay")
    raise tlc.MachineryError("no `+ns` edge over two equal namespaces to tamper with")


def canary_edge(rp: Replayer, edges: list):
    """The alarm must ring: alter the required value of one accepted level-1 edge."""
    for e in edges:
        if e[3] == 0 and e[8] and e[8][0] == "ns":
            bad = json.loads(json.dumps(e))
            bad[8][2][0] = 1 - bad[8][2][0]
            tree = kit.Tree(rp.par, rp.has)
            saved = rp.judge
            try:
                rp.step(tree, {}, [], bad)
            except Fail as f:
                if f.clause == "value":
                    return
            except tlc.MachineryError:
                pass
            finally:
                rp.judge = saved
            raise tlc.MachineryError("tampered edge was not rejected by the replay")
    raise tlc.MachineryError("no level-1 namespace edge to tamper with")


def _lap(rep: Report, name: str, t0: float) -> float:
    import time

    now = time.time()
    rep.extra.setdefault("timing_s", {})[name] = round(now - t0, 1)
    return now


def main(rep: Report, replay: dict | None) -> None:
    import time

    rep.assumptions += ASSUMPTIONS
    rep.rule = (
        "spec->code: every TLC edge of MC_RenderArgs (tier's class trees x histories of MaxOps "
        "operations, heap <= 6); distinct_nontrivial = distinct (tree, operation, classes of the "
        "operands, target class, fields, outcome, fresh/existing) + class-rule table rows; "
        "code->spec: seeded random/hypothesis histories on trees of <= 8 classes"
    )
    try:
        from term_image.renderable import ArgsNamespace, DataNamespace, RenderArgs, Renderable  # noqa: F401
    except Exception as e:  # noqa: BLE001
        raise tlc.MachineryError(f"cannot import the Renderable API: {e}")
    OUT.mkdir(parents=True, exist_ok=True)
    quick = rep.tier == "quick"

    if replay:
        sc = replay["scenario"]
        if sc["kind"] == "trace":
            tr = record_ops(sc["tree"]["par"], sc["tree"]["has"], sc["ops"])
            judge_traces(rep, [tr], validate(rep, [tr], "c16replay"))
        elif sc["kind"] == "dfs":
            sel, _, ops = sc["label"].partition("/")
            maxops = int(ops[:1] or 3)
            res = run_mc(rep, sel, maxops, 24 if sel == "thorough" else NQUICK, True, False, 900,
                         sc["label"], nsub=4 if maxops > 3 else 1, maxnss=1 if maxops > 3 else 2,
                         uval=UVAL_ALL if "+uval" in sc["label"] else UVAL_NEW)
            replay_edges(rep, res, sc["label"], only_tree=sc["tree"], only_first=sc["first"])
        elif sc["kind"] == "data":
            case = sc["case"]
            bad = replay_data_walk(case, kit.DataTree(case["par"], case["has"]), sc["walk"])
            rep.evaluations += len(sc["walk"])
            if bad:
                i, clause, detail = bad
                op = sc["walk"][i][2]
                rep.violation(f"{DATA_API[op[0]]}:{clause}", detail, sc)
        elif sc["kind"] in ("classrule", "instrule"):
            res = run_mc(rep, "quick", 1, 1, False, False, 300, "rules")
            check_rules(rep, res[0].stdout)
        return

    # ---- model checking + spec -> code ---------------------------------------------
    t0 = time.time()
    from concurrent.futures import ThreadPoolExecutor

    data_pool = ThreadPoolExecutor(max_workers=1)
    data_future = data_pool.submit(run_data_mc, rep.tier)
    if quick:
        res = run_mc(rep, "quick", 3, NQUICK, True, "sample", 400, "quick/3ops")
        t0 = _lap(rep, "tlc quick/3ops", t0)
        check_rules(rep, res[0].stdout)
        replay_edges(rep, res, "quick/3ops")
        t0 = _lap(rep, "replay quick/3ops", t0)
        rep.exhaustive = True
        rep.extra["exhaustive_space"] = (
            "all histories of 3 operations (19 actions, <= 2 namespaces per call, 9 field "
            "assignments) on the chain and the fork of 3 classes x owner sets (9 trees)")
    else:
        res = run_mc(rep, "quick", 1, 1, False, False, 300, "rules")
        check_rules(rep, res[0].stdout)
        res = run_mc(rep, "thorough", 3, 24, True, "sample", 840, "thorough/3ops")
        t0 = _lap(rep, "tlc thorough/3ops", t0)
        replay_edges(rep, res, "thorough/3ops")
        t0 = _lap(rep, "replay thorough/3ops", t0)
        del res
        if len(rep.violations) < MAX_VIOLATIONS:
            res4 = run_mc(rep, "quick", 4, NQUICK, True, False, 840, "quick/4ops", nsub=4, maxnss=1)
            t0 = _lap(rep, "tlc quick/4ops", t0)
            replay_edges(rep, res4, "quick/4ops")
            t0 = _lap(rep, "replay quick/4ops", t0)
            del res4
        if len(rep.violations) < MAX_VIOLATIONS:
            # the unhashable value also given to ns.update / set.update(cls, ..) (quick: NsNew only)
            resu = run_mc(rep, "quick", 3, NQUICK, True, False, 840, "quick/3ops+uval", uval=UVAL_ALL)
            t0 = _lap(rep, "tlc quick/3ops+uval", t0)
            replay_edges(rep, resu, "quick/3ops+uval")
            t0 = _lap(rep, "replay quick/3ops+uval", t0)
            del resu
        rep.exhaustive = True
        rep.extra["exhaustive_space"] = (
            "histories of 3 operations on every tree shape with <= 4 classes (depth <= 3, "
            "branching <= 2) x every non-empty owner set and 5-class shapes x 3 owner sets; "
            "histories of 4 operations (one namespace per call) on the 6 quick trees")

    # ---- render data (mutable namespaces): complete state graph, replayed ---------------
    replay_data(rep, data_future.result(), f"data/{rep.tier}")
    data_pool.shutdown()
    t0 = _lap(rep, "data replay", t0)

    # ---- code -> spec ----------------------------------------------------------------
    traces = gen_traces(rep, 240 if quick else 3000, 7 if quick else 10)
    t0 = _lap(rep, "record traces", t0)
    # canary: a corrupted trace must be rejected
    bad = json.loads(json.dumps(next(t for t in traces if any(
        e["rid"] and e["heap"][e["rid"] - 1]["k"] == "ra" and any(e["heap"][e["rid"] - 1]["v"])
        for e in t["ev"]))))
    for e in bad["ev"]:
        if e["rid"] and e["heap"][e["rid"] - 1]["k"] == "ra" and any(e["heap"][e["rid"] - 1]["v"]):
            v = next(x for x in e["heap"][e["rid"] - 1]["v"] if x)
            v[0] = 1 - v[0]
            break
    verdicts = validate(rep, traces + [bad], "c16")
    if verdicts[-1]["verdict"] == "ok":
        raise tlc.MachineryError("corrupted trace was accepted by Trace_RenderArgs")
    _lap(rep, "tlc traces", t0)
    rep.extra["canary_trace"] = f"corrupted trace rejected: {verdicts[-1]['verdict'][:60]}"
    judge_traces(rep, traces, verdicts[:-1])


def judge_traces(rep: Report, traces, verdicts):
    acc = rej = alias = 0
    for tr, v in zip(traces, verdicts):
        rep.traces_validated += 1
        acc += v["acc"]
        rej += v["rej"]
        for i, e in enumerate(tr["ev"]):
            rep.evaluations += 1
            rep.distinct.add(("c2s", len(tr["par"]), e["op"]["op"], bool(e["exc"]),
                              tuple(f for f, _ in e["op"]["kw"]), len(e["op"]["nss"])))
        if v["verdict"].startswith("trace-malformed"):
            raise tlc.MachineryError(f"recorder produced a malformed trace: {v} {tr['ev'][v['at'] - 1]}")
        if v["verdict"] != "ok":
            clause, _, rest = v["verdict"].partition(":")
            ev = tr["ev"][v["at"] - 1]
            name = ev["op"]["op"]
            ops = ops_of(tr)[: v["at"]]
            rep.violation(
                f"{(clause.endswith('-raises') and ev.get('errapi')) or API.get(name, name)}:{clause}",
                f"tree par={tr['par']} has={tr['has']}\nhistory: {ops}\nTrace_RenderArgs: "
                f"{v['verdict']} at event {v['at']}\nobserved: exc={ev['exc'][:1]} rid={ev['rid']} "
                f"heap={[[h['k'], h['c'], h['v']] for h in ev['heap']]}",
                {"kind": "trace", "tree": {"par": tr["par"], "has": tr["has"]}, "ops": ops},
            )
    rep.extra.setdefault("traces", {"accepted_ops": 0, "rejected_ops": 0})
    rep.extra["traces"]["accepted_ops"] += acc
    rep.extra["traces"]["rejected_ops"] += rej
    if traces:
        rep.sample({"trace": {"par": traces[0]["par"], "has": traces[0]["has"],
                              "ops": ops_of(traces[0])}})
