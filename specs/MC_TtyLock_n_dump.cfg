SPECIFICATION Spec
CONSTANTS
  NP = 2
  NT = 4
  ProcOf <- NProcOf
  Prog <- NProg
  Modes = {"fork", "spawn"}
  QInit = {TRUE}
  Creator <- NCreator
  Kind <- NKind
  MaxToggle = 0
  CopyStep = TRUE
  Variant = "code"
INVARIANT TypeOK
INVARIANT MutualExclusion
INVARIANT OwnReply
INVARIANT Reentrant
INVARIANT NoDeadlock
INVARIANT CleanEnd
INVARIANT HandOverHeld
PROPERTY AbsStep
VIEW View
CHECK_DEADLOCK FALSE
ACTION_CONSTRAINT Dump
