SPECIFICATION Spec
INVARIANT Report
INVARIANT ModelSane
CHECK_DEADLOCK FALSE
