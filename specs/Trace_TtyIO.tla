---------------------------- MODULE Trace_TtyIO ----------------------------
(***************************************************************************)
(* X08, code -> spec.  A trace is one REAL session of read_tty /            *)
(* read_tty_all / write_tty on the virtual terminal:                        *)
(*   [tty, techo, sched |-> << [at, data] ... >>,                            *)
(*    ev |-> << [op |-> <operation record of TtyIOCore>, none, hung, res,    *)
(*              err (exception class, "" if none), t1 (return time),         *)
(*              cargs |-> <the arguments more() was called with>, cba (were  *)
(*              they bytearray objects),                                     *)
(*              obs |-> <the terminal as observed before the call and after  *)
(*                      every change during it: now, q, echo, elog, taken,   *)
(*                      wbuf, wire> ] ... >>]                                *)
(* op.op = "idle": the program let time pass until the next arrival.        *)
(*                                                                         *)
(* The monitor judges every event by the documented laws stated directly on *)
(* the schedule (clauses 1-11, independent of the step function) and then   *)
(* against the step function of TtyIOCore run on the same schedule.  Steps  *)
(* are total; the verdict names the law, the disagreeing field, the event.  *)
(***************************************************************************)
EXTENDS TtyIOCore, Json, IOUtils

Traces == JsonDeserialize(IOEnv.TRACE_FILE)

VARIABLES tid, l, m, verdict, at, laws
vars == <<tid, l, m, verdict, at, laws>>

Tr == Traces[tid]
Ev == Tr.ev
N == Len(Ev)

Tup(x) == [i \in 1..Len(x) |-> x[i]]
OpOf(o) == [op |-> o.op, min |-> o.min, tmo |-> o.tmo, echo |-> o.echo, mk |-> o.mk, mn |-> o.mn,
            mt |-> Tup(o.mt), data |-> Tup(o.data), plan |-> Tup(o.plan)]
ObsOf(x) == [now |-> x.now, q |-> Tup(x.q), echo |-> x.echo, elog |-> Tup(x.elog), taken |-> Tup(x.taken),
             wbuf |-> Tup(x.wbuf), wire |-> Tup(x.wire)]
SchedOf(tr) == [i \in 1..Len(tr.sched) |-> [at |-> tr.sched[i].at, data |-> Tup(tr.sched[i].data)]]

M0(tr) == InitState(tr.tty, tr.techo, SchedOf(tr), <<>>)
TotalBytes(tr) == Len(Cat([i \in 1..Len(tr.sched) |-> Tup(tr.sched[i].data)]))
Fuel(tr, o) == 6 * (TotalBytes(tr) + Len(tr.sched) + Len(o.data)) + 40

KnownOps == {"read", "readall", "write", "idle"}
KnownMores == {"default", "always", "never", "count", "term"}

\* arrival time of the k-th byte of the stream (0 if k = 0; -1 if it never arrives)
RECURSIVE ArrTime(_, _)
ArrTime(sched, k) ==
  IF k <= 0 THEN 0
  ELSE IF sched = <<>> THEN 0 - 1
  ELSE IF k <= Len(Head(sched).data) THEN Head(sched).at
  ELSE ArrTime(Tail(sched), k - Len(Head(sched).data))

\* [m |-> next monitor state, v |-> verdict of this event, law |-> the law exercised]
Judge(st, e, tr) ==
  IF e.op.op \notin KnownOps \/ e.op.mk \notin KnownMores
  THEN [m |-> st, v |-> "malformed: unknown operation", law |-> ""]
  ELSE
  LET o == OpOf(e.op)
      obs == [i \in 1..Len(e.obs) |-> ObsOf(e.obs[i])]
      res == Tup(e.res)
      sched == SchedOf(tr)
      last == obs[Len(obs)]
  IN
  IF Len(obs) = 0 THEN [m |-> st, v |-> "malformed: no observation", law |-> ""]
  ELSE IF e.err # "" THEN [m |-> st, v |-> "NoException:" \o e.err, law |-> ""]
  ELSE IF obs[1] # Obs(st) THEN
    \* the terminal changed between two calls although the program did nothing
    [m |-> st, v |-> "BetweenCalls:obs", law |-> ""]
  ELSE IF ~st.tty THEN
    [m |-> st, law |-> "NoTerminalNothing",
     v |-> IF ~e.none \/ e.hung THEN "NoTerminalNothing:none"
           ELSE IF Len(obs) # 1 THEN "NoTerminalNothing:obs" ELSE "ok"]
  ELSE IF o.op = "idle" THEN
    IF st.pend = <<>> THEN [m |-> st, v |-> "malformed: idle without pending input", law |-> ""]
    ELSE LET n == DeliverNext(st) IN
         [m |-> n, law |-> "Idle", v |-> IF obs = <<Obs(st), Obs(n)>> THEN "ok" ELSE "Idle:obs"]
  ELSE
  LET run == RunCall(st, o, Fuel(tr, o))
      fin == run[Len(run)]
      \* the model's call: its result is the buffer of the state about to return
      pre == IF Len(run) >= 2 THEN run[Len(run) - 1] ELSE fin
      mres == pre.buf
      t0 == st.now
      before == Len(st.rets)
      A1 == ArrivedBy(sched, e.t1)
      timed == o.tmo # TNone
      dl == t0 + o.tmo
      tmin == Max2(t0, ArrTime(sched, before + o.min))
      cargs == [i \in 1..Len(e.cargs) |-> Tup(e.cargs[i])]
      got == Drop(last.taken, Len(st.taken))        \* bytes this call removed from the queue
      expObs == Dedup(<<Coarse(Obs(st))>> \o [i \in 1..Len(run) |-> Coarse(Obs(run[i]))])
      cobs == Dedup([i \in 1..Len(obs) |-> Coarse(obs[i])])
  IN
  IF fin.pc \notin {"idle", "hung"} THEN [m |-> st, v |-> "malformed: the model call does not end", law |-> ""]
  ELSE IF o.op = "write" THEN
    [m |-> fin, law |-> IF o.plan = <<>> THEN "WriteComplete" ELSE "WriteComplete(partial)",
     v |-> IF e.hung THEN "WriteComplete:hung"
           ELSE IF last.now # st.now \/ last.q # st.inq \/ last.echo # st.echo \/ last.elog # st.elog
                   \/ last.taken # st.taken THEN "WriteTouchesOnlyOutput:input"
           ELSE IF last.wire \o last.wbuf # st.wire \o o.data THEN
             (IF IsPrefix(last.wire \o last.wbuf, st.wire \o o.data) THEN "WriteComplete:data-lost"
              ELSE "WriteInOrder:wire")
           ELSE IF last.wbuf # <<>> THEN "WriteComplete:not-transmitted"
           ELSE IF ~e.none THEN "WriteComplete:return-value"
           ELSE IF cobs # expObs THEN "StepOrder:obs"
           ELSE "ok"]
  ELSE
    \* ---- read_tty / read_tty_all on an active terminal
    [m |-> fin,
     law |-> IF fin.pc = "hung" THEN "BlocksOnlyWhenDocumented"
             ELSE IF ~timed THEN "NonBlocking"
             ELSE IF o.tmo = 0 THEN "ZeroTimeout"
             ELSE IF ~More(o, mres) THEN "StopsWhenToldTo"
             ELSE IF pre.now = dl /\ A1 # ArrivedBy(sched, dl - 1) THEN "DeadlineRace"
             ELSE "WaitBounded",
     v |-> IF e.hung THEN
             (IF fin.pc = "hung" THEN
                (IF cobs = expObs THEN "ok" ELSE "StepOrder:obs")
              ELSE "BlocksOnlyWhenDocumented:hung")
           ELSE IF e.none THEN "NoTerminalNothing:none-with-terminal"
           \* 1-2 nothing lost, duplicated or reordered; the rest stays queued
           ELSE IF ~IsPrefix(st.rets \o res, A1) THEN "NothingLostOrDuplicated:res"
           ELSE IF got # res THEN "NothingLostOrDuplicated:taken"
           ELSE IF last.q # Drop(A1, before + Len(res)) THEN "LeftoverStaysQueued:queue"
           \* 3-4 min, no blocking without a timeout
           ELSE IF timed /\ Len(res) < o.min THEN "MinBytes:res"
           ELSE IF ~timed /\ e.t1 # t0 THEN "NonBlocking:t1"
           ELSE IF ~timed /\ last.q # <<>> THEN "NonBlocking:queue"
           \* 5 the total wait is bounded by the timeout (after the min bytes)
           ELSE IF o.tmo >= 0 /\ e.t1 > Max2(dl, tmin) THEN "WaitBounded:t1"
           \* 6-7 why it returned, and nothing past the point where more() said stop
           ELSE IF timed /\ More(o, res) /\ ~(o.tmo >= 0 /\ e.t1 >= dl) THEN "ReturnReason:res"
           ELSE IF timed /\ \E n \in o.min..(Len(res) - 1) : ~More(o, Take(res, n)) THEN "StopsWhenToldTo:res"
           \* 8 a timed-out call has read everything that arrived before its deadline
           ELSE IF o.tmo > 0 /\ More(o, res) /\ Len(res) >= o.min /\ e.t1 >= dl /\ tmin < dl
                   /\ Len(ArrivedBy(sched, dl - 1)) > before + Len(res) THEN "ReadsWhatArrives:res"
           \* 9 the model knows a call that blocks for ever here
           ELSE IF fin.pc = "hung" THEN "ReturnReason:returned-instead-of-blocking"
           \* 10 exactly the model's result at exactly the model's time (returns as soon as ...)
           ELSE IF res # mres THEN "Minimality:res"
           ELSE IF e.t1 # fin.now THEN "Minimality:t1"
           \* 11 ECHO as requested during the call only
           ELSE IF \E i \in 2..(Len(obs) - 1) : obs[i].echo # o.echo THEN "EchoDuringReadOnly:during"
           ELSE IF last.echo # st.techo THEN "EchoDuringReadOnly:after"
           ELSE IF last.elog # fin.elog THEN "EchoDuringReadOnly:elog"
           \* 12 more() saw the accumulated buffer: bytearrays, growing prefixes of the result of at
           \*    least `min` bytes; only the last answer may be "stop", and a call that returned before
           \*    its timeout was up was told to stop on exactly what it returned
           ELSE IF ~e.cba THEN "ConsultsSeeBuffer:type"
           ELSE IF \E i \in 1..Len(cargs) : ~IsPrefix(cargs[i], res) THEN "ConsultsSeeBuffer:argument"
           ELSE IF \E i \in 1..Len(cargs) : Len(cargs[i]) < o.min THEN "ConsultsSeeBuffer:below-min"
           ELSE IF \E i \in 1..(Len(cargs) - 1) : Len(cargs[i]) > Len(cargs[i + 1]) THEN "ConsultsSeeBuffer:order"
           ELSE IF \E i \in 1..(Len(cargs) - 1) : ~More(o, cargs[i]) THEN "ConsultsSeeBuffer:answer"
           ELSE IF Observable(o) /\ timed /\ ~(o.tmo >= 0 /\ e.t1 >= dl)
                   /\ (cargs = <<>> \/ cargs[Len(cargs)] # res) THEN "ConsultsSeeBuffer:decision"
           ELSE IF last.wire # st.wire \/ last.wbuf # st.wbuf THEN "ReadTouchesOnlyInput:wire"
           ELSE IF cobs # expObs THEN "StepOrder:obs"
           ELSE IF last # Obs(fin) THEN "StepOrder:final"
           ELSE "ok"]

Init ==
  /\ tid \in 1..Len(Traces)
  /\ l = 0
  /\ m = M0(Traces[tid])
  /\ verdict = "ok"
  /\ at = 0
  /\ laws = {}

Consume ==
  /\ l < N
  /\ l' = l + 1
  /\ LET j == Judge(m, Ev[l + 1], Tr)
         v == IF verdict # "ok" THEN verdict ELSE j.v IN
       /\ m' = j.m
       /\ verdict' = v
       /\ at' = IF verdict = "ok" /\ v # "ok" THEN l + 1 ELSE at
       /\ laws' = IF v = "ok" /\ j.law # "" THEN laws \cup {j.law} ELSE laws
  /\ UNCHANGED tid

Finish ==
  /\ l = N
  /\ l' = N + 1
  /\ UNCHANGED <<tid, m, verdict, at, laws>>

Next == Consume \/ Finish
Spec == Init /\ [][Next]_vars

RECURSIVE SetSeq(_)
SetSeq(S) == IF S = {} THEN <<>> ELSE LET x == CHOOSE x \in S : TRUE IN <<x>> \o SetSeq(S \ {x})

Done == l = N + 1
Report ==
  Done => PrintT(<<"VERDICT", ToJson([tid |-> tid, verdict |-> verdict, at |-> at, events |-> N,
                                        laws |-> SetSeq(laws)])>>)
=============================================================================
