SPECIFICATION Spec
CONSTANTS
  Profile = "quick"
  MaxWeight = 5
  MaxWeightRest = 5
VIEW View
CONSTRAINT Bound
ACTION_CONSTRAINT Tally
INVARIANT TypeOK
INVARIANT PlaceholderIsNearestSet
INVARIANT SizeMethodsAgree
INVARIANT SizesLawful
INVARIANT PaddingFills
INVARIANT RenderIgnoresImageSizeSetting
PROPERTY ReuseIffCached
PROPERTY ReuseHasNoEffect
PROPERTY CachedAfterRender
PROPERTY InvalidateForgets
PROPERTY WidgetsIndependent
PROPERTY QueriesChangeNothing
PROPERTY RejectedChangesNothing
PROPERTY ImageSizeSetting
PROPERTY ErrorPath
PROPERTY PlaceholderScope
PROPERTY Construction
PROPERTY FixedModeRejected
CHECK_DEADLOCK FALSE
