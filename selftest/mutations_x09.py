"""Seeded mutations for the extension check X09 (argument / life-cycle state machine of
``term_image.image.ImageIterator``).  Same record format as selftest/mutations.py
({file, old, new} or {edits: [...]}).

    /venv/bin/python -m selftest.mutations_x09 [id ...] [--thorough]

Each mutant is applied to a scratch copy of /repo/src under /tmp (removed afterwards) and
``VERIF_REPO=<copy> ./check X09`` must exit 1 with a signature.
"""

from __future__ import annotations

import os
import shutil
import subprocess
import sys
from pathlib import Path

VERIF = Path(__file__).resolve().parent.parent
F = "image/common.py"

MUTATIONS = {
    # ---- constructor argument validation ---------------------------------------------------
    "x09-image-type-unchecked": dict(
        file=F,
        old="        if not isinstance(image, BaseImage):\n            raise arg_type_error(\"image\", image)\n        if not image._is_animated:",
        new="        if not image._is_animated:",
    ),
    "x09-still-image-accepted": dict(
        file=F,
        old="        if not image._is_animated:\n            raise ValueError(\"'image' is not animated\")\n",
        new="",
    ),
    "x09-repeat-accepts-float": dict(
        file=F,
        old="        if not isinstance(repeat, int):\n            raise arg_type_error(\"repeat\", repeat)",
        new="        if not isinstance(repeat, (int, float)):\n            raise arg_type_error(\"repeat\", repeat)",
    ),
    "x09-zero-repeat-accepted": dict(
        file=F,
        old="        if not repeat:\n            raise arg_value_error(\"repeat\", repeat)\n",
        new="",
    ),
    "x09-zero-repeat-is-typeerror": dict(
        file=F,
        old="        if not repeat:\n            raise arg_value_error(\"repeat\", repeat)\n",
        new="        if not repeat:\n            raise arg_type_error(\"repeat\", repeat)\n",
    ),
    "x09-cached-type-unchecked": dict(
        file=F,
        old="        if not isinstance(cached, int):  # `bool` is a subclass of `int`\n            raise arg_type_error(\"cached\", cached)\n",
        new="        if isinstance(cached, str) or cached is None:\n            raise arg_type_error(\"cached\", cached)\n",
    ),
    "x09-cached-zero-accepted": dict(
        file=F,
        old="        if False is not cached <= 0:",
        new="        if False is not cached < 0:",
    ),
    "x09-style-spec-error-becomes-valueerror": dict(
        file=F,
        old="        *fmt, alpha, style_args = image._check_format_spec(format_spec)\n\n        if not isinstance(cached, int):",
        new="        try:\n            *fmt, alpha, style_args = image._check_format_spec(format_spec)\n"
            "        except StyleError as e:\n            raise ValueError(str(e)) from None\n\n        if not isinstance(cached, int):",
    ),
    "x09-frame-count-read-before-validation": dict(
        # a rejected construction now opens the source file
        file=F,
        old="        if not isinstance(repeat, int):\n            raise arg_type_error(\"repeat\", repeat)",
        new="        n_frames = image.n_frames\n        if not isinstance(repeat, int):\n            raise arg_type_error(\"repeat\", repeat)",
    ),
    # ---- meaning of the arguments ----------------------------------------------------------
    "x09-repeat-1-still-caches": dict(
        file=F,
        old="        self._cached = repeat != 1 and (\n",
        new="        self._cached = (\n",
    ),
    "x09-cached-int-strictly-less": dict(
        file=F,
        old="cached if isinstance(cached, bool) else image.n_frames <= cached",
        new="cached if isinstance(cached, bool) else image.n_frames < cached",
    ),
    "x09-default-cached-false": dict(
        file=F,
        old="        cached: Union[bool, int] = 100,\n    ) -> None:\n        if not isinstance(image, BaseImage):",
        new="        cached: Union[bool, int] = False,\n    ) -> None:\n        if not isinstance(image, BaseImage):",
    ),
    "x09-default-repeat-once": dict(
        file=F,
        old="        repeat: int = -1,\n        format_spec: str = \"\",\n        cached: Union[bool, int] = 100,",
        new="        repeat: int = 1,\n        format_spec: str = \"\",\n        cached: Union[bool, int] = 100,",
    ),
    "x09-iter-image-repeats-for-ever": dict(
        file=F,
        old="        return ImageIterator(self, 1, \"1.1\", False)",
        new="        return ImageIterator(self, -1, \"1.1\", False)",
    ),
    "x09-cache-never-used": dict(
        file=F,
        old="                    if hash(image.rendered_size) != size_hash:\n",
        new="                    if True:\n",
    ),
    # ---- loop_no ----------------------------------------------------------------------------
    "x09-loop-no-set-at-construction": dict(
        file=F,
        old="        self._loop_no = None\n        self._animator = image._renderer(",
        new="        self._loop_no = repeat\n        self._animator = image._renderer(",
    ),
    "x09-loop-no-stale-in-cached-loops": dict(
        file=F,
        old="            image._seek_position = n = 0\n            if repeat > 0:  # Avoid infinitely large negative numbers\n                self._loop_no = repeat = repeat - 1\n\n        # For consistency in behaviour",
        new="            image._seek_position = n = 0\n            if repeat > 0:  # Avoid infinitely large negative numbers\n                repeat = repeat - 1\n\n        # For consistency in behaviour",
    ),
    "x09-countdown-skipped-when-cached": dict(
        # the first loop of a caching iterator does not count: repeat + 1 loops
        file=F,
        old="                    image._seek_position = n = 0\n                    if repeat > 0:  # Avoid infinitely large negative numbers\n                        self._loop_no = repeat = repeat - 1\n                    if cached:\n                        break\n",
        new="                    image._seek_position = n = 0\n                    if cached:\n                        break\n                    if repeat > 0:  # Avoid infinitely large negative numbers\n                        self._loop_no = repeat = repeat - 1\n",
    ),
    "x09-loop-no-writable": dict(
        file=F,
        old="    loop_no = property(\n        lambda self: self._loop_no,\n",
        new="    loop_no = property(\n        lambda self: self._loop_no,\n        lambda self, value: setattr(self, \"_loop_no\", value),\n",
    ),
    # ---- __iter__ / __repr__ -----------------------------------------------------------------
    "x09-iter-returns-the-generator": dict(
        file=F,
        old="    def __iter__(self) -> ImageIterator:\n        return self\n",
        new="    def __iter__(self) -> ImageIterator:\n        return self._animator\n",
    ),
    "x09-repr-shows-base-class-name": dict(
        file=F,
        old="                type(self).__name__,\n                *self.__dict__.values(),",
        new="                \"ImageIterator\",\n                *self.__dict__.values(),",
    ),
    "x09-repr-shows-requested-cached": dict(
        # repr() reads the attributes in insertion order: storing the request first shifts them
        file=F,
        old="        self._format = format_spec\n        self._cached = repeat != 1 and (",
        new="        self._format = format_spec\n        self._requested = cached\n        self._cached = repeat != 1 and (",
    ),
    # ---- seek() -----------------------------------------------------------------------------
    "x09-seek-accepts-float": dict(
        file=F,
        old="        if not isinstance(pos, int):\n            raise arg_type_error(\"pos\", pos)\n        if not 0 <= pos < self._image.n_frames:",
        new="        if not isinstance(pos, (int, float)):\n            raise arg_type_error(\"pos\", pos)\n        if not 0 <= pos < self._image.n_frames:",
    ),
    "x09-seek-no-upper-bound": dict(
        file=F,
        old="        if not 0 <= pos < self._image.n_frames:\n            raise arg_value_error_range(\"pos\", pos, f\"n_frames={self._image.n_frames}\")",
        new="        if not 0 <= pos:\n            raise arg_value_error_range(\"pos\", pos, f\"n_frames={self._image.n_frames}\")",
    ),
    "x09-seek-before-start-ignored": dict(
        file=F,
        old="        except TypeError:\n            raise TermImageError(\"Iteration has not yet started\") from None",
        new="        except TypeError:\n            pass",
    ),
    "x09-seek-after-end-ignored": dict(
        file=F,
        old="        except AttributeError:\n            raise TermImageError(\"Iterator exhausted or closed\") from None",
        new="        except AttributeError:\n            pass",
    ),
    "x09-seek-after-end-is-valueerror": dict(
        file=F,
        old="        except AttributeError:\n            raise TermImageError(\"Iterator exhausted or closed\") from None",
        new="        except AttributeError:\n            raise ValueError(\"Iterator exhausted or closed\") from None",
    ),
    "x09-seek-restarts-the-countdown": dict(
        file=F,
        old="        try:\n            self._animator.send(pos)\n        except TypeError:",
        new="        try:\n            self._animator.send(pos)\n            self._loop_no = self._repeat\n        except TypeError:",
    ),
    "x09-seek-target-off-by-one": dict(
        file=F,
        old="            sent = yield frame\n            n = n + 1 if sent is None else sent - 1\n\n        if cached:\n            n_frames = len(cache)",
        new="            sent = yield frame\n            n = n + 1 if sent is None else sent\n\n        if cached:\n            n_frames = len(cache)",
    ),
    # ---- close() / exhaustion -----------------------------------------------------------------
    "x09-close-resets-frame-number": dict(
        file=F,
        old="        try:\n            self._animator.close()\n            del self._animator\n",
        new="        try:\n            self._animator.close()\n            self._image._seek_position = 0\n            del self._animator\n",
    ),
    "x09-close-twice-raises": dict(
        file=F,
        old="            self._image._close_image(self._img)\n            del self._img\n        except AttributeError:\n            pass\n",
        new="            self._image._close_image(self._img)\n            del self._img\n        except AttributeError:\n            if not hasattr(self, \"_animator\") and self._loop_no is not None:\n                raise\n",
    ),
    "x09-close-zeroes-loop-no": dict(
        file=F,
        old="        try:\n            self._animator.close()\n            del self._animator\n",
        new="        try:\n            self._animator.close()\n            self._loop_no = 0\n            del self._animator\n",
    ),
    "x09-next-after-end-raises-attributeerror": dict(
        file=F,
        old="            if str(e).endswith(\"'_animator'\"):\n                raise StopIteration(\"Iterator exhausted or closed\") from None\n            else:",
        new="            if False:\n                raise StopIteration(\"Iterator exhausted or closed\") from None\n            else:",
    ),
    "x09-exhaustion-does-not-close": dict(
        # seek() on the finished generator then raises StopIteration instead of TermImageError
        file=F,
        old="        except StopIteration:\n            self.close()\n            raise StopIteration(\n                \"Iteration has reached the given repeat count\"",
        new="        except StopIteration:\n            raise StopIteration(\n                \"Iteration has reached the given repeat count\"",
    ),
    # ---- independence from the image's seek position --------------------------------------------
    "x09-first-loop-follows-image-position": dict(
        file=F,
        old="            if sent is None:\n                image._seek_position = n\n                try:\n                    frame = image._format_render(",
        new="            if sent is None:\n                n = image._seek_position = max(n, image._seek_position) if n else n\n                try:\n                    frame = image._format_render(",
    ),
    "x09-cached-loops-follow-image-position": dict(
        file=F,
        old="                if sent is None:\n                    image._seek_position = n\n                    frame, size_hash = cache[n]",
        new="                if sent is None:\n                    n = image._seek_position = min(max(n, image._seek_position), n_frames - 1)\n                    frame, size_hash = cache[n]",
    ),
}


def apply(mid: str) -> Path:
    m = MUTATIONS[mid]
    root = Path(f"/tmp/verif-selftest-{mid}")
    shutil.rmtree(root, ignore_errors=True)
    root.mkdir(parents=True)
    subprocess.run(["rsync", "-a", "/repo/src", str(root) + "/"], check=True)
    for e in m["edits"] if "edits" in m else [m]:
        f = root / "src" / "term_image" / e["file"]
        text = f.read_text()
        if text.count(e["old"]) != 1:
            raise SystemExit(f"{mid}: pattern occurs {text.count(e['old'])} times in {e['file']}")
        f.write_text(text.replace(e["old"], e["new"]))
    subprocess.run([sys.executable, "-m", "compileall", "-q", str(root / "src" / "term_image")], check=True)
    return root


def run(mid: str, tier: str = "quick") -> bool:
    root = apply(mid)
    try:
        env = dict(os.environ, VERIF_REPO=str(root))
        p = subprocess.run([str(VERIF / "check"), "X09", "--tier", tier], env=env, cwd=VERIF,
                           stdout=subprocess.PIPE, stderr=subprocess.STDOUT, text=True, timeout=3600)
    finally:
        shutil.rmtree(root, ignore_errors=True)
    sigs = sorted({l.strip()[len("signature: "):] for l in p.stdout.splitlines() if l.strip().startswith("signature:")})
    ok = p.returncode == 1 and bool(sigs)
    status = "caught" if ok else ("MACHINERY" if p.returncode == 2 else "MISSED")
    print(f"MUT {mid} X09 exit={p.returncode} {status} {sigs[:6]}", flush=True)
    if p.returncode == 2:
        print("\n".join(p.stdout.splitlines()[-15:]))
    return ok


def main() -> int:
    ids = [a for a in sys.argv[1:] if not a.startswith("--")] or list(MUTATIONS)
    tier = "thorough" if "--thorough" in sys.argv else "quick"
    bad = [m for m in ids if not run(m, tier)]
    print(f"{len(ids) - len(bad)}/{len(ids)} caught" + (f"; not: {bad}" if bad else ""))
    return 1 if bad else 0


if __name__ == "__main__":
    sys.exit(main())
