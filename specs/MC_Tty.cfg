SPECIFICATION Spec
CONSTANTS
  MaxDelay = 2
  Tmo = 4
  Table = TRUE
INVARIANT ResultIsReplies
INVARIANT ReportedIsReplied
INVARIANT QueueEmpty
INVARIANT ElapsedWithinTimeout
INVARIANT NeverSelectNone
INVARIANT NeverHangs
INVARIANT Requests
INVARIANT AttrRestored
INVARIANT Terminates
INVARIANT Report
CHECK_DEADLOCK FALSE
