---------------------------- MODULE RenderableSeek ----------------------------
(***************************************************************************)
(* Renderable.seek() / tell() / frame_count (beyond the listed properties:  *)
(* the renderable's own current frame, which C08 requires iterators never   *)
(* to move).                                                                *)
(*   definite N:  seek(off, START) -> off; CURRENT -> frame + off;           *)
(*                END -> N + off - 1; accepted iff 0 <= target < N, else      *)
(*                ValueError and nothing changes; tell() = frame              *)
(*   INDEFINITE:  seek -> IndefiniteSeekError; tell() = 0                    *)
(*   POSTPONED:   the frame count is evaluated by the renderable exactly     *)
(*                once, at the first use, and is definite/indefinite after.  *)
(***************************************************************************)
EXTENDS Naturals, Integers, TLC, Json
CONSTANTS N,        \* frame count, 0 = INDEFINITE
          Postponed, \* BOOLEAN: constructed with FrameCount.POSTPONED
          Offs, MaxDepth
VARIABLES s, out
vars == <<s, out>>
Whences == {"START", "CURRENT", "END"}
Init == /\ s = [frame |-> 0, evals |-> 0]
        /\ out = [op |-> [name |-> "init"], r |-> [res |-> "ok"]]
        /\ PrintT(<<"INIT", ToJson(s)>>)
Evaluated(t) == IF Postponed /\ t.evals = 0 THEN [t EXCEPT !.evals = 1] ELSE t
Target(t, o, wh) == CASE wh = "START" -> o [] wh = "CURRENT" -> t.frame + o [] OTHER -> N + o - 1
DoSeek(t, o, wh) ==
  LET t1 == Evaluated(t) IN
  IF N = 0 THEN <<t1, [res |-> "IndefiniteSeekError"]>>
  ELSE LET f == Target(t1, o, wh) IN
       IF f >= 0 /\ f < N THEN <<[t1 EXCEPT !.frame = f], [res |-> "ok", v |-> f]>>
       ELSE <<t1, [res |-> "ValueError"]>>
Do(op, pair) == s' = pair[1] /\ out' = [op |-> op, r |-> pair[2]]
Seek == \E o \in Offs, wh \in Whences : Do([name |-> "seek", off |-> o, whence |-> wh], DoSeek(s, o, wh))
Tell == Do([name |-> "tell"], <<s, [res |-> "ok", v |-> s.frame]>>)
FrameCount == Do([name |-> "frame_count"], <<Evaluated(s), [res |-> "ok", v |-> N]>>)
Next == Seek \/ Tell \/ FrameCount
Spec == Init /\ [][Next]_vars
Bound == TLCGet("level") <= MaxDepth
View == s
FrameInRange == s.frame \in 0..(IF N = 0 THEN 0 ELSE N - 1)
EvaluatedAtMostOnce == s.evals <= 1
RejectedChangesNothing == [][out'.r.res \in {"ValueError", "IndefiniteSeekError"} => s'.frame = s.frame]_vars
Dump == PrintT(<<"EDGE", ToJson([from |-> s, op |-> out', to |-> s'])>>)
=============================================================================
