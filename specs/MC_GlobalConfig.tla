--------------------------- MODULE MC_GlobalConfig ---------------------------
(* Configurations of GlobalConfig (X03).                                                        *)
(*   MC_GlobalConfig_ratio.cfg / _query.cfg      the laws, decided WITHOUT a VIEW (they read    *)
(*       `out`, so the last operation must be part of the state identity)                        *)
(*   MC_GlobalConfig_all.cfg                     every group together (thorough)                 *)
(*   MC_GlobalConfig_*_dump.cfg                  the same graphs with VIEW View + the edge dump  *)
(*   MC_GlobalConfig_var.cfg                     seeded regressions of the model (VARIANT from   *)
(*       the environment): each must violate a law                                               *)
EXTENDS GlobalConfig, Json, IOUtils

Prof(c, r, x, y, io, xt, d) == [cols |-> c, rows |-> r, xpx |-> x, ypx |-> y, iopx |-> io, xt |-> xt, delay |-> d]

\* 12x20 px cells (swapped window: 10x24), answers the window size quickly
PText == Prof(10, 5, 120, 100, FALSE, "text", 320)
\* the same terminal answering too late for the default timeout (same size in cells: documented caching)
PTextSlow == Prof(10, 5, 120, 100, FALSE, "text", 10240)
\* reports its cell size itself (17x33), later than the short timeout
PCell == Prof(7, 3, 120, 100, FALSE, "cell", 2560)
\* pixel size through TIOCGWINSZ (12x16, swapped 8x24); never answers a query
PIoctl == Prof(8, 4, 96, 64, TRUE, "none", -1)
\* answers DA1 only: the cell size cannot be determined
PNone == Prof(9, 4, 90, 80, FALSE, "none", 320)
\* swapped window gives a zero dimension: 3 \div 5 = 0
PThin == Prof(5, 2, 40, 3, FALSE, "text", 320)

ProfRatioQuick == {PText, PCell, PIoctl}
ProfQueryQuick == {PText, PTextSlow, PIoctl}
ProfAll == {PText, PTextSlow, PCell, PIoctl, PNone, PThin}
ProfRatioThorough == {PText, PCell, PIoctl, PNone, PThin}
ProfTmoThorough == {PText, PTextSlow, PCell, PNone}

F1 == {<<3, 4>>}
F2 == {<<3, 4>>, <<2, 1>>}
T1 == {20480}
T2 == {1280, 20480}
T3 == {1280, 4096, 20480}
Default == 4096

OpsRatio == {"ratio", "support", "cell", "swap", "queries", "switch"}
OpsRatioTmo == {"ratio", "cell", "queries", "timeout", "switch", "odd"}
OpsQuery == {"queries", "timeout", "probe", "memo", "switch", "odd"}
OpsRatioTmoSup == {"ratio", "support", "cell", "queries", "timeout", "switch", "odd"}
OpsAll == {"ratio", "support", "cell", "swap", "queries", "timeout", "probe", "memo", "switch", "odd"}

EnvVariant == IF "VARIANT" \in DOMAIN IOEnv THEN IOEnv.VARIANT ELSE "code"

Dump == PrintT(<<"EDGE", ToJson([from |-> s, op |-> out', to |-> s'])>>)
InitDump == TLCGet("level") = 1 => PrintT(<<"INIT", ToJson(s)>>)
=============================================================================
