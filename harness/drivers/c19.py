"""C19 - format specifiers are accepted and interpreted exactly as documented.

model:   specs/FormatSpec.tla (the documented grammar: LL(1) recogniser, declarative
         derivations, production machine), checked by specs/MC_FormatSpec (unambiguity,
         the three formulations agree, every production reachable).
binding: code -> spec.  EVERY string over the core alphabet up to a length bound, every
         style suffix over the style alphabet attached to representative prefixes,
         directed literals (documentation examples, range boundaries) and seeded random
         sentences / near-sentences are given to the REAL entry points

             cls._check_format_spec(s)   format(image, s)
             ImageIterator(image, format_spec=s)   UrwidImage(image, s)

         for the three render styles; what they did (accept / exception class, denoted
         values, image snapshot unchanged, format() output vs draw() with the explicit
         parameters) is validated by TLC against Parse(style, s) in
         specs/Trace_FormatSpec.tla.  Python never decides whether a string is a sentence.
"""

from __future__ import annotations

import contextlib
import hashlib
import inspect
import io
import itertools
import json
import os
import random
import re
import shutil
import uuid
from concurrent.futures import ThreadPoolExecutor
from decimal import Decimal

from .. import imgs, tlc
from ..core import Report
from ..env import stubs

ASSUMPTIONS = [
    "oracle = docs/source/guide/formatting.rst 'Render Format Specification' + the 'Format "
    "Specification' sections of the KittyImage / ITerm2Image docstrings, transcribed in "
    "specs/FormatSpec.tla; width/height: a digit string; absent = terminal-relative default "
    "(terminal width; terminal height - 2); zero = relative to the terminal with offset 0 as "
    "draw() documents for non-positive values (so '.0' denotes the full terminal height, not "
    "height - 2; for the width absent and zero coincide)",
    "'+' must be followed by a non-empty style specification; BlockImage defines none, so any "
    "'+...' is rejected for block",
    "documented errors: ValueError for an ill-formed specifier and for a z-index outside the "
    "documented range (|z| <= 2**31 - 1; the docstring example z-2147483648 contradicts the "
    "documented range and is taken as a non-sentence), StyleError for an ill-formed style part; "
    "when both the top level and the text after the first '+' are ill-formed either class is "
    "tolerated (the documentation does not order the two checks)",
    "hex colours: exactly six hexadecimal digits of either case, denoted literally",
    "threshold '.ddd' denotes the decimal fraction 0.ddd; literals are limited to 15 digits so "
    "that the observed float can be compared exactly through its shortest round-trip decimal",
    "UrwidImage: padding size and the kitty z-index are documented as ignored and are not "
    "compared there; the internal render parameters it adds (blend, split_cells, z_index) are "
    "not style arguments of a specifier",
    "format() == draw(explicit parameters) is compared only when draw() accepts the padding "
    "(draw additionally documents pad_width <= terminal width); explicit parameters are the "
    "values the real _check_format_spec returned, which TLC validated in the same trace",
    "format()/draw() are not run when the padding the real _check_format_spec returned exceeds "
    "3 000 000 cells (resource guard; counted in the evidence); the other three entry points "
    "still are",
    "settings dimension: a specifier's acceptance and denotation must be the same under every "
    "class-level / instance-level setting of the style (iterm2 jpeg_quality, read_from_file, "
    "native_anim_max_bytes; render method; forced_support): accepted, directed, random and short "
    "bare '+suffix' specifiers are re-observed under three non-default settings states and judged "
    "by the same Parse(style, s); format() == draw() is compared there for every accepted one",
    "near-sentence edits draw from printable ASCII except '\"' and '\\\\'; control characters "
    "and non-ASCII digits are outside the enumerated alphabet",
]

STYLES = ["block", "kitty", "iterm2"]
IDENT = {"block": "other", "kitty": "kitty", "iterm2": "wezterm"}
ENTRIES = ["", "_check_format_spec", "format", "ImageIterator", "UrwidImage"]
MAX_CELLS = 3_000_000  # format()/draw() are not run for a larger padding rectangle
TERM_A = (80, 30)
TERM_B = (57, 19)
CORE = "<|>^-_.#+015af"
STYLE_ALPHA = "LWAzmc-019"
# six representative prefixes for the style suffixes; "1." is a bare dot (finding F9)
PREFIXES = ["", ">1", "1.", ".5#", "<5._1#.5", "##"]
EDIT_ALPHA = "".join(chr(c) for c in range(0x20, 0x7F) if chr(c) not in '"\\')
MC_ACTIONS = [
    "PHAlign", "PWidthDigit", "PDot", "PVAlign", "PHeightDigit", "PHash", "PThresholdPoint",
    "PThresholdDigit", "PTermBg", "PHexDigit", "PPlus", "PMethod", "PZKey", "PZSign", "PZDigit",
    "PMixKey", "PMixVal", "PCompressKey", "PCompressVal", "PJunk",
]

DIRECTED = [
    # documentation examples
    "", "#.0", "#.325043", "#.999", "#ffffff", "#7faa52", "##", "#", "|200.^70#ffffff",
    "+z0", "+z1", "+z-1", "+z2147483647", "+z-2147483648", "+m0", "+m1", "+c0", "+c9", "+c4",
    "+L", "+W", "+A", "+Lz5m1c9", "+Wm1c0", "+Am0c4",
    # boundaries of the documented z-index range, judged as literals
    "+z-2147483647", "+z2147483648", "+z-2147483649", "+z4294967295", "+z4294967296",
    "+z99999999999999999999", "+z-99999999999999999999", "+z0000000002147483647",
    "+z0000000002147483648", "+z-0", "+z00", "+z-00012", "+z2147483646", "+z1999999999",
    "+z2147483639", "+z2147483657", "+z3000000000", "+z-", "+z", "+zz1", "+z1z2",
    # hexadecimal colours: length and case
    "#FFFFFF", "#AbCdEf", "#012345", "#abcde", "#abcdef0", "#abcdeg", "#ABCDEF+L", "#abcdef+A",
    "#aaa", "#aaaa", "#aaaaa", "#aaaaaaa", "#aaaaaaaa", "##ffffff", "#ffffff#", "###",
    # threshold
    "#.5", "#.50", "#.05", "#.00001", "#.123456789012345", "#.", "#.5.5", "#5", "#0.5", "#.5e1",
    "#1", "#1.0", "#.9", "#.99999999",
    # dot group
    ".", ".^", ".5", ".^5", "5.", "5.5", "<5.", "<.", ".#", ".##", ".+L", "5.##", "1.+W", ".#.5",
    ".#ffffff", ".##+L", ".#+L", ".^#", ".1#", "..", ".^^", ".-", "._", ".^-", "0.0", "00.00", "0",
    "000", "010.010", "<0", ".0", ".^0",
    # order / repetition
    "<<", "<|", "5<", "^", "-", "_", "^5", "#.5#", "+", "++", "+L+L", "+LL", "+LW", "+m1m0", "+c1c2",
    "+m2", "+m", "+c", "+ca", "+c10", "+m10", "+m1L", "+c1m1", "+m1z1", "+z1L", "+Lz1", "+Lm1",
    "+Lc1", "+z1m1", "+z1c1", "+m1c1", "+z1m1c1", "+Lz1m1c1", "+Wz-1m0c4", "+l", "+w", "+a", "+Z1",
    "+M1", "+C1", "+L ", " ", " 5", "5 ", "<5.^5#ffffff+Lz1m1c1", ">80._28#.4",
]


# ----------------------------------------------------------------------------------------
# inputs
# ----------------------------------------------------------------------------------------
def all_strings(alphabet: str, maxlen: int):
    yield ""
    for n in range(1, maxlen + 1):
        for t in itertools.product(alphabet, repeat=n):
            yield "".join(t)


def _num(rng: random.Random, maxdigits: int) -> str:
    n = rng.randint(1, maxdigits)
    s = "".join(rng.choice("0123456789") for _ in range(n))
    if rng.random() < 0.15:
        s = "0" * rng.randint(1, 2) + s
    return s[: maxdigits + 1]


_Z_EDGE = [2**31 - 1, 2**31, -(2**31) + 1, -(2**31), -(2**31) - 1, 2**32 - 1, 2**32, 2**31 - 2, 10**10]


def gen_style(rng: random.Random, style: str) -> str:
    if style == "block":
        return rng.choice(["L", "m1", "c3", "z1", "x"])
    out = ""
    while not out:
        if rng.random() < 0.5:
            out += rng.choice("LW" if style == "kitty" else "LWA")
        if style == "kitty" and rng.random() < 0.5:
            r = rng.random()
            if r < 0.35:
                z = rng.choice(_Z_EDGE) + rng.choice([0, 0, 0, -1, 1])
            elif r < 0.5:
                z = rng.randrange(-(2**33), 2**33)
            else:
                z = rng.randrange(-300, 300)
            lit = str(abs(z))
            if rng.random() < 0.15:
                lit = "0" * rng.randint(1, 3) + lit
            out += "z" + ("-" if z < 0 or rng.random() < 0.05 else "") + lit
        if rng.random() < 0.5:
            out += "m" + rng.choice("01")
        if rng.random() < 0.5:
            out += "c" + rng.choice("0123456789")
    return out


def gen_sentence(rng: random.Random, style: str) -> str:
    s = ""
    if rng.random() < 0.5:
        s += rng.choice("<|>")
    if rng.random() < 0.5:
        s += _num(rng, 3)
    if rng.random() < 0.5:
        v = rng.choice(["^", "-", "_", ""])
        h = _num(rng, 2) if (not v or rng.random() < 0.5) else ""
        s += "." + v + h
    if rng.random() < 0.6:
        k = rng.random()
        if k < 0.2:
            s += "#"
        elif k < 0.4:
            s += "##"
        elif k < 0.7:
            s += "#." + "".join(rng.choice("0123456789") for _ in range(rng.randint(1, 8)))
        else:
            s += "#" + "".join(rng.choice("0123456789abcdefABCDEF") for _ in range(6))
    if rng.random() < 0.6:
        s += "+" + gen_style(rng, style)
    return s[:24]


def near(rng: random.Random, s: str) -> str:
    """One-character edit of s (delete / insert / replace / transpose)."""
    op = rng.randrange(4)
    alpha = EDIT_ALPHA if rng.random() < 0.5 else CORE + STYLE_ALPHA + "ABCDEFabcdef23456789 xg"
    if op == 0 and s:
        i = rng.randrange(len(s))
        return s[:i] + s[i + 1 :]
    if op == 1 or not s:
        i = rng.randrange(len(s) + 1)
        return (s[:i] + rng.choice(alpha) + s[i:])[:24]
    if op == 2:
        i = rng.randrange(len(s))
        return s[:i] + rng.choice(alpha) + s[i + 1 :]
    if len(s) >= 2:
        i = rng.randrange(len(s) - 1)
        return s[:i] + s[i + 1] + s[i] + s[i + 2 :]
    return s


def input_chunks(rep: Report, chunk: int):
    """Yields (kind, list of strings).  Enumerated spaces are complete; no duplicates."""
    quick = rep.tier == "quick"
    n_core = 4 if quick else 5
    n_suf = 4 if quick else 5
    n_rand = 2500 if quick else 60000
    seen: set[str] = set()
    buf: list[str] = []

    def push(kind, it):
        nonlocal buf
        for s in it:
            if s in seen:
                continue
            seen.add(s)
            buf.append(s)
            if len(buf) >= chunk:
                yield kind, buf
                buf = []
        if buf:
            yield kind, buf
            buf = []

    counts = {}
    before = 0
    yield from push("core", all_strings(CORE, n_core))
    counts["core"] = len(seen) - before
    before = len(seen)
    sufs = [t for t in all_strings(STYLE_ALPHA, n_suf) if t]
    yield from push("style-suffix", (p + "+" + t for p in PREFIXES for t in sufs))
    counts["style-suffix"] = len(seen) - before
    before = len(seen)
    yield from push("directed", DIRECTED)
    counts["directed"] = len(seen) - before
    before = len(seen)
    rng = random.Random(rep.seed * 1000003 + 19)

    def rand():
        for i in range(n_rand):
            style = STYLES[i % 3]
            s = gen_sentence(rng, style)
            yield s
            for _ in range(2):
                yield near(rng, s)

    yield from push("random", rand())
    counts["random"] = len(seen) - before
    rep.extra["inputs"] = dict(
        counts, core_alphabet=CORE, core_maxlen=n_core, style_alphabet=STYLE_ALPHA,
        suffix_maxlen=n_suf, prefixes=PREFIXES, random_sentences=n_rand,
    )


# ----------------------------------------------------------------------------------------
# the real code
# ----------------------------------------------------------------------------------------
class Real:
    """The real objects of one render style and the observation functions."""

    def __init__(self, style: str, gif: str):
        from PIL import Image
        from term_image.image import BaseImage, BlockImage, ImageIterator, ITerm2Image, KittyImage
        from term_image.widget import UrwidImage

        self.style = style
        self.cls = {"block": BlockImage, "kitty": KittyImage, "iterm2": ITerm2Image}[style]
        self.ImageIterator = ImageIterator
        self.UrwidImage = UrwidImage
        self.default_alpha = inspect.signature(BaseImage.draw).parameters["alpha"].default
        stubs.set_identity(IDENT[style])
        stubs.set_term(size=TERM_A, cell=(8, 16) if style != "block" else None)
        pil = Image.new("RGBA", (2, 4))
        pil.putdata(
            [(200, 10, 10, 255), (10, 200, 10, 0), (10, 10, 200, 100), (250, 250, 0, 200),
             (0, 0, 0, 255), (255, 255, 255, 30), (90, 90, 90, 41), (7, 8, 9, 128)]
        )
        self.img = self.cls(pil, width=2)
        self._gif = Image.open(gif)
        self.anim = self.cls(self._gif, width=2)
        # the classes whose attributes an operation could disturb
        self._classes = [
            c for c in (*self.cls.__mro__, UrwidImage) if c.__module__.startswith("term_image")
        ]
        self._snaps = {}
        self.skipped = 0

    # -- snapshots -----------------------------------------------------------------
    @staticmethod
    def _freeze(d):
        # containers are copied (one level) so that mutation in place is seen as well as
        # rebinding; everything else is compared by identity-or-equality
        return {k: (v.copy() if isinstance(v, (dict, list, set)) else v) for k, v in d.items()}

    def _take(self, image):
        return self._freeze(vars(image)), [(vars(c), self._freeze(vars(c))) for c in self._classes]

    def unchanged(self, image) -> bool:
        """True iff no attribute of the image or of its classes (and UrwidImage) differs from
        the last snapshot; a changed state becomes the new reference."""
        key = id(image)
        snap = self._snaps.get(key)
        if snap is None:
            self._snaps[key] = self._take(image)
            return True
        inst, classes = snap
        ok = vars(image) == inst
        if ok:
            for cur, ref in classes:
                if cur != ref:
                    ok = False
                    break
        if not ok:
            self._snaps[key] = self._take(image)
        return ok

    def prime(self):
        for im in (self.img, self.anim):
            self._snaps[id(im)] = self._take(im)

    # -- encoding of denoted values ------------------------------------------------
    def _alpha(self, a):
        if a is None:
            return "none", ""
        if isinstance(a, float):
            if a == self.default_alpha:
                return "default", ""
            return "float", format(Decimal(repr(a)), "f")
        if isinstance(a, str):
            return "str", a
        return "other", repr(a)

    @staticmethod
    def _sargs(sa: dict, internal=()):
        def one(k):
            v = sa.get(k)
            if v is None:
                return ""
            if isinstance(v, bool):
                return "true" if v else "false"
            return str(v)

        extra = sorted(k for k in sa if k not in ("method", "z_index", "mix", "compress") + tuple(internal))
        return one("method"), one("z_index"), one("mix"), one("compress"), ",".join(extra)

    @staticmethod
    def _al(x):
        return "none" if x is None else str(x)

    # -- entry points --------------------------------------------------------------
    def check(self, s: str):
        """cls._check_format_spec under terminal A (and B when accepted).  Returns (obs, raw)."""
        img = self.img
        try:
            raw = self.cls._check_format_spec(s)
        except Exception as e:
            return [type(e).__name__, self.unchanged(img)], None
        same = self.unchanged(img)
        h, w, v, ht, alpha, sa = raw
        stubs.ENV.term_size = TERM_B
        try:
            rb = self.cls._check_format_spec(s)
            wb, hb = str(rb[1]), str(rb[3])
            if (rb[0], rb[2], rb[4], rb[5]) != (h, v, alpha, sa):
                wb = hb = "differs"
        except Exception as e:
            wb = hb = "raise:" + type(e).__name__
        finally:
            stubs.ENV.term_size = TERM_A
        ak, av = self._alpha(alpha)
        m, z, x, c, extra = self._sargs(sa)
        obs = ["ok", same, self._al(h), str(w), wb, self._al(v), str(ht), hb, ak, av, m, z, x, c, extra]
        return obs, raw

    def fmt(self, s: str, raw, with_draw: bool):
        img = self.img
        if raw is not None and raw[1] * raw[3] > MAX_CELLS:
            # resource guard: a padding of millions of cells (a one-character edit can turn a
            # threshold or a colour into a height) would build a gigabyte string
            self.skipped += 1
            return ["unobserved", True]
        try:
            out = format(img, s)
        except Exception as e:
            return [type(e).__name__, self.unchanged(img)]
        same = self.unchanged(img)
        fd = _digest(out)
        dk, dd = "~", ""
        if with_draw and raw is not None:
            h, w, v, ht, alpha, sa = raw
            buf = io.StringIO()
            try:
                with contextlib.redirect_stdout(buf):
                    img.draw(h, w, v, ht, alpha, **dict(sa))
                got = buf.getvalue()
                dk = "out"
                m = _TRAILER.search(got)  # draw's own epilogue: SGR reset + newline
                dd = _digest(got[: m.start()]) if m else "no-trailer"
            except Exception as e:
                dk, dd = "raise", type(e).__name__
            self.unchanged(img)
        return ["ok", same, fd, dk, dd]

    def iterator(self, s: str):
        img = self.anim
        try:
            it = self.ImageIterator(img, format_spec=s)
        except Exception as e:
            return [type(e).__name__, self.unchanged(img)]
        same = self.unchanged(img)
        try:
            loc = it._animator.gi_frame.f_locals
            (h, w, v, ht), alpha, sa = loc["fmt"], loc["alpha"], loc["style_args"]
        except Exception as e:  # the seam moved
            raise tlc.MachineryError(f"ImageIterator internals not observable: {e!r}")
        finally:
            it.close()
        ak, av = self._alpha(alpha)
        m, z, x, c, extra = self._sargs(sa)
        return ["ok", same, self._al(h), str(w), "~", self._al(v), str(ht), "~", ak, av, m, z, x, c, extra]

    def urwid(self, s: str):
        img = self.img
        try:
            w = self.UrwidImage(img, s)
        except Exception as e:
            return [type(e).__name__, self.unchanged(img)]
        try:
            h, v, alpha, sa = w._ti_h_align, w._ti_v_align, w._ti_alpha, dict(w._ti_style_args)
        except AttributeError as e:
            raise tlc.MachineryError(f"UrwidImage internals not observable: {e!r}")
        del w
        same = self.unchanged(img)
        ak, av = self._alpha(alpha)
        sa.pop("z_index", None)  # documented: ignored, used internally
        m, z, x, c, extra = self._sargs(sa, internal=("blend", "split_cells"))
        return ["ok", same, self._al(h), "~", "~", self._al(v), "~", "~", ak, av, m, "~", x, c, extra]


# ----------------------------------------------------------------------------------------
# settings environments: what a specifier denotes must not depend on class-level or
# instance-level settings of the render style (jpeg_quality, read_from_file,
# native_anim_max_bytes, render method, forced_support).  Parse(style, s) has no such
# parameter, so every observation made under a non-default setting is judged against the
# very same denotation.
# ----------------------------------------------------------------------------------------
ENV_NAMES = ["class-settings", "instance-settings", "class+instance-settings"]


def _restore_forced_support(cls):
    cls.forced_support = False
    if "_forced_support" in vars(cls):
        del cls._forced_support


def settings_env(real: "Real", k: int):
    """Returns (apply, restore) putting the style's settings into non-default state k:
    0 = every class-level setting non-default, instances untouched;
    1 = classes untouched, every instance-level setting non-default;
    2 = class-level non-default and the instances overriding it back (opt-out)."""
    cls, images = real.cls, (real.img, real.anim)
    st = real.style

    def apply():
        if st == "block":
            cls.forced_support = True
            return
        if k in (0, 2):
            cls.forced_support = True
            cls.set_render_method("whole")
            if st == "iterm2":
                cls.jpeg_quality = 80
                cls.read_from_file = False
                cls.native_anim_max_bytes = 1 << 18
        if k == 1:
            for im in images:
                im.set_render_method("whole")
                if st == "iterm2":
                    im.jpeg_quality = 75
                    im.read_from_file = False
        if k == 2:
            for im in images:
                im.set_render_method("lines")
                if st == "iterm2":
                    im.jpeg_quality = -1
                    im.read_from_file = True

    def restore():
        _restore_forced_support(cls)
        if st == "block":
            return
        cls.set_render_method()
        for im in images:
            im.set_render_method()
        if st == "iterm2":
            del cls.jpeg_quality
            del cls.read_from_file
            del cls.native_anim_max_bytes
            for im in images:
                del im.jpeg_quality
                del im.read_from_file

    return apply, restore


_TRAILER = re.compile(r"\x1b\[0?m\n\Z")


def _digest(text: str) -> str:
    return hashlib.blake2b(text.encode("utf-8", "surrogatepass"), digest_size=8).hexdigest()


def observe(real: Real, s: str, with_draw: bool):
    c, raw = real.check(s)
    return [c, real.fmt(s, raw, with_draw), real.iterator(s), real.urwid(s)]


def intern(per_style: list[list]) -> tuple[list, list]:
    """Lossless: the distinct observations `u` and the style x entry matrix `x` of (1-based)
    indices into it."""
    u: list = []
    x = []
    for obs4 in per_style:
        row = []
        for o in obs4:
            try:
                k = u.index(o)
            except ValueError:
                u.append(o)
                k = len(u) - 1
            row.append(k + 1)
        x.append(row)
    return u, x


# ----------------------------------------------------------------------------------------
def run_models(rep: Report):
    """The design-level checks (spec only).  Returns a callable that joins and reports."""
    quick = rep.tier == "quick"
    jobs = [
        ("all", "MC_FormatSpec_all.cfg", False),
        ("pruned", "MC_FormatSpec.cfg" if quick else "MC_FormatSpec_thorough.cfg", False),
        ("hex", "MC_FormatSpec_hex.cfg", False),
        *([] if quick else [("all-core4", "MC_FormatSpec_all4.cfg", False)]),
        ("coverage", "MC_FormatSpec_cov.cfg", True),
    ]
    ex = ThreadPoolExecutor(max_workers=5)
    futs = [
        (name, cfg, ex.submit(tlc.run, "MC_FormatSpec", cfg, workers=2, timeout=840,
                              coverage=cov, deadlock=False, jvm=JVM))
        for name, cfg, cov in jobs
    ]

    def join():
        for name, cfg, f in futs:
            res = f.result()
            rep.add_tlc(res)
            rep.extra.setdefault("mc", {})[name] = {
                "cfg": cfg, "states": res.distinct, "generated": res.generated, "depth": res.depth,
                "wall_s": round(res.wall_s, 1),
            }
            if res.violated:
                rep.violation(
                    f"design:FormatSpec:{res.violated}",
                    f"the three formulations of the documented grammar disagree ({cfg}): "
                    + res.violated + "\n" + res.error_text[:1500],
                    {"kind": "design", "cfg": cfg},
                )
            if res.distinct < 100:
                raise tlc.MachineryError(f"{cfg}: only {res.distinct} states explored")
            if name == "coverage":
                missing = [a for a in MC_ACTIONS if res.coverage.get(a, (0, 0))[1] == 0]
                if missing:
                    raise tlc.MachineryError(f"vacuous productions in MC_FormatSpec: {missing}")
                rep.extra["mc"]["productions"] = {a: res.coverage[a][1] for a in MC_ACTIONS}
        ex.shutdown()

    return join


CANARY = [
    # (style index, specifier, entry, field position or action, expected verdict)
    (2, "<5.^3#.5+Lz7m1c9", 1, 2, "denotes:h_align"),
    (2, "<5.^3#.5+Lz7m1c9", 1, 3, "denotes:width"),
    (2, "<5.^3#.5+Lz7m1c9", 1, 5, "denotes:v_align"),
    (2, "<5.^3#.5+Lz7m1c9", 1, 6, "denotes:height"),
    (2, "<5.^3#.5+Lz7m1c9", 3, 9, "denotes:alpha"),
    (2, "<5.^3#.5+Lz7m1c9", 1, 10, "denotes:method"),
    (2, "<5.^3#.5+Lz7m1c9", 1, 11, "denotes:z_index"),
    (2, "<5.^3#.5+Lz7m1c9", 4, 12, "denotes:mix"),
    (2, "<5.^3#.5+Lz7m1c9", 3, 13, "denotes:compress"),
    (1, "|.-#", 4, 8, "denotes:alpha-kind"),
    (3, ">7+Am1", 2, "reject", "rejects-sentence"),
    (3, ">7+Am1", 2, "digest", "format-differs-from-draw"),
    (1, ">7+L", 1, "accept", "accepts-non-sentence"),
    (2, "5.", 3, "accept", "accepts-bare-dot:other"),
    (2, "+z2147483648", 1, "class", "wrong-error"),
    (3, "#12345", 4, "effect", "side-effect-on-reject"),
]


def canary(reals) -> int:
    """Corrupted traces must be rejected with the right clause, else the binding is deaf."""
    traces, expect = [], []
    for si, s, ei, what, verdict in CANARY:
        per = []
        for st in STYLES:
            stubs.set_identity(IDENT[st])
            stubs.set_term(size=TERM_A, cell=(8, 16) if st != "block" else None)
            reals[st].prime()
            per.append(observe(reals[st], s, True))
        base = {"s": list(s), "e": "default", "t": [*TERM_A, *TERM_B]}
        base["u"], base["x"] = intern(per)
        traces.append(base)
        expect.append("ok")
        bad = json.loads(json.dumps(per))
        o = bad[si - 1][ei - 1]
        accepted = o[0] == "ok"
        if accepted != (isinstance(what, int) or what in ("reject", "digest")) or (
            isinstance(what, int) and len(o) != 15
        ):
            # the real code already deviates on the base specifier (a mutation under
            # test): nothing to corrupt here, the main check reports the deviation
            traces.append(base)
            expect.append("ok")
            continue
        if isinstance(what, int):
            o[what] = o[what] + "9" if o[what] not in ("none", "", "default") else "x"
        elif what == "reject":
            bad[si - 1][ei - 1] = ["ValueError", True]
        elif what == "digest":
            if o[3] != "out":
                traces.append(base)
                expect.append("ok")
                continue
            o[2] = "0" * 16
        elif what == "accept":
            bad[si - 1][ei - 1] = ["ok", True, "none", "80", "57", "none", "28", "17", "default", "",
                                   "", "", "", "", ""]
            if ei == 3:
                bad[si - 1][ei - 1][4] = bad[si - 1][ei - 1][7] = "~"
        elif what == "class":
            o[0] = "StyleError"
        elif what == "effect":
            o[1] = False
        t = {"s": list(s), "e": "default", "t": [*TERM_A, *TERM_B]}
        t["u"], t["x"] = intern(bad)
        traces.append(t)
        expect.append(verdict)
    verdicts, _, _ = validate(traces, len(traces), 1)
    n = 0
    for i in range(0, len(traces), 2):
        if verdicts[i]["verdict"] != "ok" or expect[i + 1] == "ok":
            continue  # the real code already deviates here: the main check reports it
        got = verdicts[i + 1]["verdict"]
        if got != expect[i + 1]:
            raise tlc.MachineryError(
                f"corrupted trace not rejected as expected: {CANARY[i // 2]} gave {got!r}"
            )
        n += 1
    return n


MAX_FIELDS = 250_000
JVM = ["-Xmx3g", "-XX:ParallelGCThreads=2", "-XX:CICompilerCount=2"]


def validate(traces: list, batch: int, parallel: int) -> tuple[list[dict], int, int]:
    """tlc.validate_traces with lean JVMs (many short runs: GC / JIT threads kept few)."""
    rundir = tlc.OUT / "traces" / f"c19-{uuid.uuid4().hex[:8]}"
    rundir.mkdir(parents=True, exist_ok=True)
    jobs, spans = [], []
    # a batch holds at most `batch` traces and at most MAX_FIELDS observation fields: traces of
    # accepted specifiers (the settings passes are almost only those) are ~40 times heavier
    # than rejections, and a JVM fed 20 000 of them thrashes its heap
    cuts, start, weight = [], 0, 0
    for i, t in enumerate(traces):
        w = sum(len(o) for o in t["u"])
        if i > start and (i - start >= batch or weight + w > MAX_FIELDS):
            cuts.append((start, i))
            start, weight = i, 0
        weight += w
    if traces:
        cuts.append((start, len(traces)))
    for i, j in cuts:
        part = traces[i:j]
        f = tlc.write_json(rundir / f"b{i}.json", part)
        spans.append((i, len(part)))
        jobs.append(dict(spec="Trace_FormatSpec", cfg="Trace_FormatSpec.cfg", workers=2, timeout=840,
                         env={"TRACE_FILE": str(f)}, deadlock=False, jvm=JVM))
    try:
        results = tlc.run_many(jobs, parallel=parallel)
    finally:
        shutil.rmtree(rundir, ignore_errors=True)
    verdicts: list = [None] * len(traces)
    st = tr = 0
    for (base, n), res in zip(spans, results):
        if res.violated:
            raise tlc.MachineryError(f"Trace_FormatSpec itself failed ({res.violated}):\n{res.error_text[:3000]}")
        st += res.distinct
        tr += res.generated
        for v in res.tagged("VERDICT"):
            if not 1 <= v["tid"] <= n:
                raise tlc.MachineryError(f"verdict with tid {v['tid']} outside batch of {n}")
            verdicts[base + v["tid"] - 1] = v
    missing = [i for i, v in enumerate(verdicts) if v is None]
    if missing:
        raise tlc.MachineryError(f"{len(missing)} traces got no verdict (first: #{missing[0]})")
    return verdicts, st, tr


def main(rep: Report, replay: dict | None) -> None:
    rep.assumptions += ASSUMPTIONS
    rep.rule = (
        "inputs: every string over the core alphabet up to the length bound, every non-empty style "
        "suffix over the style alphabet up to the bound attached to 6 prefixes, directed literals, "
        "seeded sentences and one-character edits (<= 24 chars); each string goes to 4 entry points "
        "x 3 render styles; traces = strings (one TLC verdict each); distinct_nontrivial = distinct "
        "(style, string) pairs that the documented grammar accepts"
    )
    quick = rep.tier == "quick"
    join_models = run_models(rep) if not replay else (lambda: None)

    stubs.install()
    tmp = imgs.tmpdir(f"c19-{os.getpid()}")  # per process: checks may run concurrently
    try:
        gif = imgs.make_animation(random.Random(1), tmp / "anim.gif", 2, 2, 4)
        reals = {st: Real(st, str(gif)) for st in STYLES}  # the GIF stays open in the images
    finally:
        shutil.rmtree(tmp, ignore_errors=True)

    if replay:
        chunks = iter([("replay", [replay["scenario"]["s"]])])
    else:
        chunks = input_chunks(rep, 40000 if quick else 120000)

    draw_budget = 8000 if quick else 150000
    drng = random.Random(rep.seed * 31 + 7)
    stats = {"accepted_by_spec": [0, 0, 0], "real_calls": 0, "draw_compared": 0, "kinds": {}}

    def digest_verdicts(kind, strings, traces, verdicts, nst, ntr):
        rep.states += nst
        rep.transitions += ntr
        rep.traces_validated += len(traces)
        stats["kinds"][kind] = stats["kinds"].get(kind, 0) + len(traces)
        for s, tr, v in zip(strings, traces, verdicts):
            for si in v["sentence"]:
                stats["accepted_by_spec"][si - 1] += 1
                rep.distinct.add((si, s))
            if v["verdict"] == "ok":
                continue
            if v["verdict"] == "pending":
                raise tlc.MachineryError(f"no judgement for {s!r}")
            entry = ENTRIES[v["entry"]]
            if v["verdict"].startswith("accepts-bare-dot:"):
                sig = v["verdict"]  # ONE family, whatever the style / entry point
            else:
                sig = f"{entry}:{v['verdict']}:{v['style']}"
            if tr["e"] != "default":
                sig += "@" + tr["e"]  # observed under non-default class / instance settings
            rep.violation(
                sig,
                f"specifier {s!r}, render style {v['style']}, {entry}: {v['verdict']}"
                f" (settings: {tr['e']})\n"
                f"documented grammar (FormatSpec.tla) expects {v['exp']!r}, the code gave {v['got']!r}\n"
                f"observations (block, kitty, iterm2 x _check_format_spec, format, ImageIterator, "
                f"UrwidImage): x={tr['x']} u={json.dumps(tr['u'])[:500]}",
                {"s": s, "style": v["style"], "entry": entry, "kind": kind, "settings": tr["e"]},
            )
        if len(rep.samples) < 5:
            for s, tr in zip(strings, traces):
                if any(o[0] == "ok" for o in tr["u"]) and len(s) > 2:
                    rep.sample({"s": s, "u": tr["u"], "x": tr["x"]})
                    break

    pool = ThreadPoolExecutor(max_workers=1)  # TLC validates chunk k while chunk k+1 is observed
    pending = []
    try:
        for kind, strings in chunks:
            per_string: list[list] = [[] for _ in strings]
            for st in STYLES:
                real = reals[st]
                stubs.set_identity(IDENT[st])
                stubs.set_term(size=TERM_A, cell=(8, 16) if st != "block" else None)
                real.prime()
                for i, s in enumerate(strings):
                    # draw() comparison: every accepted directed / replayed string, a seeded
                    # sample of the others (it is the slow part)
                    wd = kind in ("directed", "replay") or (draw_budget > 0 and drng.random() < 0.5)
                    o = observe(real, s, wd)
                    if o[1][0] == "ok" and o[1][3] != "~":
                        draw_budget -= 1
                        stats["draw_compared"] += 1
                    per_string[i].append(o)
                stats["real_calls"] += 4 * len(strings)
            traces = []
            for i, s in enumerate(strings):
                u, x = intern(per_string[i])
                traces.append({"s": list(s), "e": "default", "t": [*TERM_A, *TERM_B], "u": u, "x": x})
            # the settings dimension: every specifier the real code accepted for some style, the
            # directed / random / replayed ones and the short bare style suffixes are observed
            # again under three non-default settings states (same judgement: Parse knows no
            # settings); quick takes every 3rd random string and, of the
            # prefixed style suffixes, only those with the empty prefix
            sub = [
                i for i, s in enumerate(strings)
                if kind in ("directed", "replay")
                or (kind == "random" and (not quick or i % 3 == 0))
                or (any(o[0][0] == "ok" for o in per_string[i])
                    and not (quick and (kind == "random" or kind == "style-suffix" and s[:1] != "+")))
                or (kind == "style-suffix" and s[:1] == "+" and len(s) <= (4 if quick else 5))
            ]
            del per_string
            strings = list(strings)
            for k, ename in enumerate(ENV_NAMES):
                per_env: list[list] = [[] for _ in sub]
                for st in STYLES:
                    real = reals[st]
                    stubs.set_identity(IDENT[st])
                    stubs.set_term(size=TERM_A, cell=(8, 16) if st != "block" else None)
                    apply, restore = settings_env(real, k)
                    apply()
                    try:
                        real.prime()
                        for j, i in enumerate(sub):
                            o = observe(real, strings[i], kind in ("directed", "replay") or (i + k) % 2 == 0)
                            if o[1][0] == "ok" and o[1][3] != "~":
                                stats["draw_compared"] += 1
                            per_env[j].append(o)
                    finally:
                        restore()
                        real.prime()
                    stats["real_calls"] += 4 * len(sub)
                for j, i in enumerate(sub):
                    u, x = intern(per_env[j])
                    strings.append(strings[i])
                    traces.append({"s": list(strings[i]), "e": ename, "t": [*TERM_A, *TERM_B],
                                   "u": u, "x": x})
                stats["settings_traces"] = stats.get("settings_traces", 0) + len(sub)
            batch = 10000 if quick else 20000
            pending.append((kind, strings, traces, pool.submit(validate, traces, batch, 6)))
            while len(pending) > 1:
                k, ss, trs, fut = pending.pop(0)
                digest_verdicts(k, ss, trs, *fut.result())
        while pending:
            k, ss, trs, fut = pending.pop(0)
            digest_verdicts(k, ss, trs, *fut.result())
    finally:
        pool.shutdown(wait=True, cancel_futures=True)

    rep.evaluations = stats["real_calls"]
    rep.extra["accepted_by_spec"] = dict(zip(STYLES, stats["accepted_by_spec"]))
    rep.extra["draw_compared"] = stats["draw_compared"]
    rep.extra["format_not_run_padding_too_large"] = sum(r.skipped for r in reals.values())
    rep.extra["strings_by_kind"] = stats["kinds"]
    rep.extra["traces_under_non_default_settings"] = stats.get("settings_traces", 0)
    rep.extra["settings_environments"] = ENV_NAMES
    rep.exhaustive = not replay
    if not replay:
        for st, n in zip(STYLES, stats["accepted_by_spec"]):
            if n == 0:
                raise tlc.MachineryError(f"vacuous: no sentence of the grammar was exercised for {st}")
        if stats["draw_compared"] == 0:
            raise tlc.MachineryError("vacuous: format() was never compared with draw()")
        if not stats.get("settings_traces"):
            raise tlc.MachineryError("vacuous: nothing was observed under non-default settings")
    if not replay:
        rep.extra["corrupted_traces_rejected"] = canary(reals)
    join_models()
