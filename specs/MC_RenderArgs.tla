---------------------------- MODULE MC_RenderArgs ----------------------------
(***************************************************************************)
(* C16 - heap layer over RenderArgs.tla and the exhaustive model.           *)
(*                                                                          *)
(* State: tr (index of the class tree, chosen in Init), the heap            *)
(* obj[id] -> [k, c, v] (ids are allocation order), dflt[c + 1] = id of the *)
(* shared default set of class c (0 = not created yet), steps, and out =    *)
(* the last operation with its arguments, its result (id / allowed          *)
(* exception classes) and the construction request it stands for.           *)
(*                                                                          *)
(* One named action per API operation, split into accepted / rejected       *)
(* variants so that -coverage shows both.  Every action goes through Do(),  *)
(* which can only APPEND to the heap; HeapImmutable is nevertheless checked *)
(* as an action property, as are the laws below.                            *)
(*                                                                          *)
(* Identity: the result id is the one the implementation returns today      *)
(* (shared default set when nothing but defaults went in; the initial set   *)
(* itself when it has the target class and no namespace is given; self for  *)
(* convert-to-same-class and for a namespace update without fields;         *)
(* otherwise a fresh object).  The binding treats identity as permitted     *)
(* nondeterminism between "fresh" and "an existing object with the same     *)
(* record"; values are compared strictly.                                   *)
(***************************************************************************)
EXTENDS RenderArgs, TLC, Json

CONSTANTS TreeSel, Part, NParts, Sub, NSub, MaxOps, MaxHeap, MaxNss, DumpEdges, UvalOps

(* ---- class trees -------------------------------------------------------- *)
Depth(par, c) == Cardinality(Anc([par |-> par, has |-> {}], c)) - 1
Kids(par, p) == Cardinality({i \in 1..Len(par) : par[i] = p})
Shape(n) ==
  {par \in [1..n -> 0..(n - 1)] :
     /\ \A i \in 1..n : par[i] < i
     /\ \A i \in 1..(n - 1) : par[i] <= par[i + 1]        \* breadth-first numbering
     /\ \A i \in 1..n : Depth(par, i) <= 3
     /\ \A p \in 0..n : Kids(par, p) <= 2}
RECURSIVE Pick(_, _, _, _)
Pick(sq, n, p, i) ==
  IF i > Len(sq) THEN <<>> ELSE (IF i % n = p THEN <<sq[i]>> ELSE <<>>) \o Pick(sq, n, p, i + 1)
SelectSeq2(sq, n, p) == Pick(sq, n, p, 1)

RECURSIVE SetToSeq(_)
SetToSeq(S) ==
  IF S = {} THEN <<>> ELSE LET x == CHOOSE y \in S : TRUE IN <<x>> \o SetToSeq(S \ {x})

WithHas(par, minHas) ==
  {[par |-> par, has |-> hs] : hs \in {x \in SUBSET (1..Len(par)) : Cardinality(x) >= minHas}}

\* quick: the chain of 3 classes with four owner sets and the fork with two
TreesQuick ==
  {[par |-> <<0, 1, 2>>, has |-> hs] : hs \in {{1, 2, 3}, {1, 3}, {2, 3}, {2}}}
  \cup {[par |-> <<0, 1, 1>>, has |-> hs] : hs \in {{1, 2, 3}, {2, 3}}}
\* thorough: every shape with <= 4 classes (depth <= 3, branching <= 2) x every non-empty
\* owner set, and every 5-class shape with all / alternating owners
TreesThorough ==
  UNION {UNION {WithHas(p, 1) : p \in Shape(n)} : n \in 1..4}
  \cup UNION {{[par |-> p, has |-> {1, 2, 3, 4, 5}], [par |-> p, has |-> {1, 3, 4}],
               [par |-> p, has |-> {2, 4, 5}]} : p \in Shape(5)}

\* the smallest tree on which every action, accepted and rejected, can fire (two unrelated
\* owners): used for the -coverage run of the quick tier
TreesCover == {[par |-> <<0, 1, 1>>, has |-> {2, 3}]}
AllTrees == SetToSeq(CASE TreeSel = "quick" -> TreesQuick
                       [] TreeSel = "cover" -> TreesCover
                       [] OTHER -> TreesThorough)
\* partition Part of NParts (so that edge dumps, which need one worker, can run side by side)
Trees == SelectSeq2(AllTrees, NParts, Part)

VARIABLES tr, obj, dflt, steps, out
vars == <<tr, obj, dflt, steps, out>>
View == <<tr, obj, dflt, steps>>

T == Trees[tr]
N == NCls(T)
Ids == 1..Len(obj)
NsIds == {i \in Ids : obj[i].k = "ns"}
RaIds == {i \in Ids : obj[i].k = "ra"}

KW == {<<>>} \cup {<<<<f, x>>>> : f \in 1..2, x \in {0, 1}}
        \cup {<<<<1, x>>, <<2, y>>>> : x \in {0, 1}, y \in {0, 1}}
\* one more assignment gives field f1 the UNHASHABLE value (a list): a legal value.  UvalOps
\* (subset of {"NsNew", "NsUpdate", "Update"}) = the operations that may be GIVEN it as a
\* keyword (bound of the tier); every operation meets it through the objects on the heap.
KWU(name) == IF name \in UvalOps THEN KW \cup {<<<<1, UVal>>>>} ELSE KW
\* namespace operands: heap namespaces, and namespaces EXTRACTED from a live set (set[cls] /
\* iteration).  A call takes at most one extracted operand (bounds the branching); the same
\* operand may be given twice.
Refs == UNION {{Ref(i, k) : k \in AMRO(T, obj[i].c)} : i \in RaIds}
NsOps == NsIds \cup Refs
NssOf(lo) ==
  {s \in UNION {[1..n -> NsOps] : n \in lo..MaxNss} :
     Cardinality({j \in DOMAIN s : s[j] < 0}) <= 1}

MkOp(name, a, b, cls, nss, kw) ==
  [op |-> name, a |-> a, b |-> b, cls |-> cls, nss |-> nss, kw |-> kw]

(* ---- identity of the result ---------------------------------------------- *)
Fresh == Len(obj) + 1
IsShared(id) == id # 0 /\ dflt[obj[id].c + 1] = id
Shared(c) == IF dflt[c + 1] # 0 THEN dflt[c + 1] ELSE Fresh
R(id, sh) == [id |-> id, sh |-> sh]
Intern(cls, init, empty) ==
  IF ~empty THEN R(Fresh, FALSE)
  ELSE IF init = 0 \/ IsShared(init) THEN R(Shared(cls), TRUE)
  ELSE IF obj[init].c = cls THEN R(init, FALSE)
  ELSE R(Fresh, FALSE)

ResultId(op, e) ==
  CASE op.op = "NsUpdate" -> IF op.kw = <<>> THEN R(op.a, FALSE) ELSE R(Fresh, FALSE)
    [] op.op = "New" -> Intern(op.cls, op.a, op.nss = <<>>)
    [] op.op = "Convert" ->
         IF op.cls = obj[op.a].c THEN R(op.a, FALSE)
         ELSE IF IsSub(T, op.cls, obj[op.a].c) THEN Intern(op.cls, op.a, TRUE)
         ELSE Intern(op.cls, 0, e.req.nss = <<>>)
    [] OTHER -> R(Fresh, FALSE)

(* ---- the single state transformer ---------------------------------------- *)
\* sub-partition of one tree's histories by their FIRST operation (big trees, 4 operations)
FirstCode(op) ==
  op.cls + 5 * Len(op.kw) + (IF Len(op.kw) >= 1 THEN op.kw[1][1] + 2 * op.kw[1][2] ELSE 0)
         + (IF Len(op.kw) >= 2 THEN 3 * op.kw[2][2] ELSE 0)

Do(op, accepted) ==
  LET e == Expected(T, obj, op) IN
  /\ steps < MaxOps
  /\ (steps = 0 => FirstCode(op) % NSub = Sub)
  /\ Len(obj) < MaxHeap
  /\ (e.rej = {}) = accepted
  /\ steps' = steps + 1
  /\ tr' = tr
  /\ IF e.rej # {}
     THEN /\ UNCHANGED <<obj, dflt>>
          /\ out' = [op |-> op, id |-> 0, exc |-> e.rej, req |-> e.req, hold |-> <<>>]
     ELSE LET r == ResultId(op, e) IN
          /\ obj' = IF r.id = Fresh THEN Append(obj, e.rec) ELSE obj
          /\ dflt' = IF r.sh /\ dflt[e.rec.c + 1] = 0 THEN [dflt EXCEPT ![e.rec.c + 1] = r.id]
                     ELSE dflt
          /\ out' = [op |-> op, id |-> r.id, exc |-> {}, req |-> e.req, hold |-> e.hold]

Init ==
  /\ tr \in 1..Len(Trees)
  /\ obj = <<>>
  /\ dflt = [c \in 1..(NCls(Trees[tr]) + 1) |-> 0]
  /\ steps = 0
  /\ out = [op |-> MkOp("Init", 0, 0, 0, <<>>, <<>>), id |-> 0, exc |-> {}, req |-> NoReq,
            hold |-> <<>>]

(* ---- one named action per API operation (accepted / rejected) ------------- *)
\* b = 1: instantiate a SUBCLASS of the namespace class (inherits fields and association)
\* (bounded: only for the topmost owner class and two field assignments)
SubKW == {<<>>, <<<<1, 1>>>>}
SubOK(c, kw, sb) ==
  /\ sb = 1 => (kw \in SubKW /\ \A k \in T.has : c <= k)
  \* bound: unless "AllClasses" \in UvalOps only the topmost owner class is CONSTRUCTED with the
  \* unhashable value
  /\ (kw = <<<<1, UVal>>>> /\ "AllClasses" \notin UvalOps) => \A k \in T.has : c <= k
NsNew ==
  \E c \in T.has, kw \in KWU("NsNew"), sb \in {0, 1} :
    SubOK(c, kw, sb) /\ Do(MkOp("NsNew", 0, sb, c, <<>>, kw), TRUE)
NsNewRejected ==
  \E c \in T.has, kw \in KWU("NsNew"), sb \in {0, 1} :
    SubOK(c, kw, sb) /\ Do(MkOp("NsNew", 0, sb, c, <<>>, kw), FALSE)

New ==
  \E c \in 0..N, i \in RaIds \cup {0}, nss \in NssOf(0) : Do(MkOp("New", i, 0, c, nss, <<>>), TRUE)
NewRejected ==
  \E c \in 0..N, i \in RaIds \cup {0}, nss \in NssOf(0) : Do(MkOp("New", i, 0, c, nss, <<>>), FALSE)

\* (when set[cls] itself fails, two field assignments are enough: the fields play no role)
KWFor(a, c) == IF GetItem(T, obj[a], c) = "ok" THEN KWU("Update") ELSE {<<>>, <<<<2, 1>>>>}
Update == \E a \in RaIds, c \in 0..N : \E kw \in KWFor(a, c) : Do(MkOp("Update", a, 0, c, <<>>, kw), TRUE)
UpdateRejected ==
  \E a \in RaIds, c \in 0..N : \E kw \in KWFor(a, c) : Do(MkOp("Update", a, 0, c, <<>>, kw), FALSE)

UpdateNs == \E a \in RaIds, nss \in NssOf(1) : Do(MkOp("UpdateNs", a, 0, 0, nss, <<>>), TRUE)
UpdateNsRejected == \E a \in RaIds, nss \in NssOf(1) : Do(MkOp("UpdateNs", a, 0, 0, nss, <<>>), FALSE)

Convert == \E a \in RaIds, c \in 0..N : Do(MkOp("Convert", a, 0, c, <<>>, <<>>), TRUE)
ConvertRejected == \E a \in RaIds, c \in 0..N : Do(MkOp("Convert", a, 0, c, <<>>, <<>>), FALSE)

Or == \E a \in NsOps, b \in Ids : Do(MkOp("Or", a, b, 0, <<>>, <<>>), TRUE)
OrRejected == \E a \in NsOps, b \in Ids : Do(MkOp("Or", a, b, 0, <<>>, <<>>), FALSE)

Ror == \E a \in NsOps, b \in Ids : Do(MkOp("Ror", a, b, 0, <<>>, <<>>), TRUE)
RorRejected == \E a \in NsOps, b \in Ids : Do(MkOp("Ror", a, b, 0, <<>>, <<>>), FALSE)

Pos == \E a \in NsIds : Do(MkOp("Pos", a, 0, 0, <<>>, <<>>), TRUE)

NsUpdate == \E a \in NsIds, kw \in KWU("NsUpdate") : Do(MkOp("NsUpdate", a, 0, 0, <<>>, kw), TRUE)
NsUpdateRejected == \E a \in NsIds, kw \in KWU("NsUpdate") : Do(MkOp("NsUpdate", a, 0, 0, <<>>, kw), FALSE)

ToRenderArgs ==
  \E a \in NsIds, c \in (0..N) \cup {0 - 1} : Do(MkOp("ToRenderArgs", a, 0, c, <<>>, <<>>), TRUE)
ToRenderArgsRejected ==
  \E a \in NsIds, c \in (0..N) \cup {0 - 1} : Do(MkOp("ToRenderArgs", a, 0, c, <<>>, <<>>), FALSE)

Next ==
  \/ NsNew \/ NsNewRejected \/ New \/ NewRejected \/ Update \/ UpdateRejected
  \/ UpdateNs \/ UpdateNsRejected \/ Convert \/ ConvertRejected \/ Or \/ OrRejected
  \/ Ror \/ RorRejected \/ Pos \/ NsUpdate \/ NsUpdateRejected
  \/ ToRenderArgs \/ ToRenderArgsRejected

Spec == Init /\ [][Next]_vars

(* ---- properties ----------------------------------------------------------- *)
\* no operation alters an existing object (only appends)
HeapImmutable ==
  [][/\ Len(obj') >= Len(obj)
     /\ \A i \in DOMAIN obj : obj'[i] = obj[i]
     /\ Len(obj') <= Len(obj) + 1]_vars

HeapWellFormed == \A i \in Ids : WellFormed(T, obj[i])

\* the shared default set of a class, once created, is (and stays) the default set
DefaultsPristine ==
  \A c \in 0..N : dflt[c + 1] # 0 => obj[dflt[c + 1]] = DefaultSet(T, c)

\* the directional Value agrees with the operational reading of the constructor docs
\* ("defaults, overlaid by the initial set, overlaid by the namespaces in order")
FoldAgrees ==
  (out.id # 0 /\ out.req.cls # 0 /\ obj[out.id].k = "ra") =>
     /\ Accepts(T, out.req)
     /\ Fold(T, out.req) = Value(T, out.req)
     /\ obj[out.id] = RaRec(out.req.cls, Value(T, out.req))

\* a result is associated with the documented class
ResultClass ==
  out.id # 0 =>
    CASE out.op.op \in {"New", "Convert"} -> obj[out.id].c = out.op.cls
      [] out.op.op \in {"Update", "UpdateNs", "Pos", "NsUpdate"} -> obj[out.id].c = At(obj, out.op.a).c
      [] out.op.op \in {"Or", "Ror"} ->
           /\ IsSub(T, obj[out.id].c, At(obj, out.op.a).c) /\ IsSub(T, obj[out.id].c, obj[out.op.b].c)
           /\ obj[out.id].c \in {At(obj, out.op.a).c, obj[out.op.b].c}
      [] OTHER -> TRUE

\* a namespace combined into a set is contained in it, unless a later one replaced it
OperandsContained ==
  out.id # 0 =>
    CASE out.op.op \in {"Pos", "ToRenderArgs"} -> Contains(obj[out.id], At(obj, out.op.a))
      [] out.op.op = "Or" ->
           /\ (obj[out.op.b].k = "ns" => Contains(obj[out.id], obj[out.op.b]))
           /\ (obj[out.op.b].k = "ra" \/ obj[out.op.b].c # At(obj, out.op.a).c
                 => Contains(obj[out.id], At(obj, out.op.a)))
      [] out.op.op = "Ror" -> Contains(obj[out.id], At(obj, out.op.a))
      [] out.op.op \in {"New", "UpdateNs"} ->
           out.op.nss # <<>> => Contains(obj[out.id], At(obj, out.op.nss[Len(out.op.nss)]))
      [] OTHER -> TRUE

\* IDENTITY: a resulting set holds the very namespace OBJECTS it was given.  out.hold[k] is
\* the token of the object required for class k (heap id, or Ref(set, k) = the object that
\* live set holds for k, or 0 = a default / an object made by the operation: unconstrained).
\* Every token names a live object, that object has the value required for k, and the
\* operand given last for a class is the one held (whatever equal objects exist elsewhere).
TokLive(i) ==
  \/ i > 0 /\ i \in NsIds
  \/ i < 0 /\ RefRa(i) \in RaIds /\ RefK(i) \in AMRO(T, obj[RefRa(i)].c)
HeldIsGiven ==
  (out.id # 0 /\ obj[out.id].k = "ra") =>
    /\ Len(out.hold) = N
    /\ \A k \in 1..N :
         out.hold[k] # 0 =>
           /\ k \in AMRO(T, obj[out.id].c)
           /\ TokLive(out.hold[k])
           /\ At(obj, out.hold[k]).c = k
           /\ At(obj, out.hold[k]).v = obj[out.id].v[k]
    /\ CASE out.op.op \in {"Pos", "ToRenderArgs", "Ror"} -> out.hold[At(obj, out.op.a).c] = out.op.a
         [] out.op.op \in {"New", "UpdateNs"} /\ out.op.nss # <<>> ->
              LET last == out.op.nss[Len(out.op.nss)] IN out.hold[At(obj, last).c] = last
         [] out.op.op = "Or" /\ obj[out.op.b].k = "ns" -> out.hold[obj[out.op.b].c] = out.op.b
         [] out.op.op = "Convert" ->
              \A k \in AMRO(T, obj[out.id].c) \cap AMRO(T, obj[out.op.a].c) :
                 out.hold[k] = Ref(out.op.a, k)
         [] OTHER -> TRUE

\* rejection is exactly non-acceptance, with a documented exception class
RejectionDocumented ==
  out.id = 0 /\ out.op.op # "Init" =>
    /\ out.exc # {}
    /\ out.exc \subseteq {"IncompatibleRenderArgsError", "IncompatibleArgsNamespaceError",
                          "ValueError", "NoArgsNamespaceError", "UnknownArgsFieldError"}

\* Eq is an equivalence; identical ids are equal (equal sets hash equal: the hash key of
\* an object IS its record, so Eq => same key by construction)
EqIsEquivalence ==
  \A i, j, k \in Ids :
    /\ Eq(obj[i], obj[i])
    /\ (Eq(obj[i], obj[j]) => Eq(obj[j], obj[i]))
    /\ (Eq(obj[i], obj[j]) /\ Eq(obj[j], obj[k]) => Eq(obj[i], obj[k]))

\* the hash key of an object is Proj (class + values): whatever path built two objects and
\* whichever namespace (sub)class their constituents are instances of, equal => same key
EqualHashEqual ==
  \A i, j \in Ids : Eq(obj[i], obj[j]) <=> Proj(obj[i]) = Proj(obj[j])

\* update with no fields / convert to the same class / re-wrapping leave the VALUE unchanged
NeutralOps ==
  out.id # 0 =>
    CASE out.op.op \in {"Update", "NsUpdate"} /\ out.op.kw = <<>> -> Eq(obj[out.id], At(obj, out.op.a))
      [] out.op.op = "Convert" /\ out.op.cls = obj[out.op.a].c -> out.id = out.op.a
      [] out.op.op = "New" /\ out.op.nss = <<>> /\ out.op.a # 0 /\ obj[out.op.a].c = out.op.cls ->
           Eq(obj[out.id], obj[out.op.a])
      [] OTHER -> TRUE

(* ---- observation / edge dump ---------------------------------------------- *)
SetSeq(S) == SetToSeq(S)
\* Edges are compact arrays <<tree, from-heap, from-dflt, step, op, result id, allowed
\* exceptions, appended record or <<>> >>; the successor is the source plus the appended
\* record.  The judgement of a state (relations every live object must satisfy) is
\* printed once per distinct state by StateDump.
HeapKey(o) == [i \in 1..Len(o) |-> <<o[i].k, o[i].c, o[i].v, o[i].s>>]
OpArr(op) == <<op.op, op.a, op.b, op.cls, op.nss, op.kw>>
Judge(o) ==
  [eq |-> SetSeq(EqPairs(o)), hd |-> SetSeq(ClassOnlyPairs(o)),
   he |-> SetSeq(HashEqPairs(o)), uh |-> SetSeq(Unhashables(o)),
   gi |-> [i \in 1..Len(o) |-> GetItems(T, o[i])],
   ct |-> SetSeq({p \in (1..Len(o)) \X (1..Len(o)) :
                    o[p[1]].k = "ra" /\ o[p[2]].k = "ns" /\ Contains(o[p[1]], o[p[2]])})]

Dump ==
  DumpEdges =>
    PrintT(<<"EDGE", ToJson(<<tr, HeapKey(obj), dflt, steps, OpArr(out'.op), out'.id,
                              SetSeq(out'.exc), dflt',
                              IF Len(obj') > Len(obj) THEN HeapKey(obj')[Len(obj')] ELSE <<>>,
                              out'.hold>>)>>)

StateDump ==
  DumpEdges => PrintT(<<"STATE", ToJson([t |-> tr, h |-> HeapKey(obj), j |-> Judge(obj)])>>)

TreeInfo ==
  \A i \in 1..Len(Trees) :
    PrintT(<<"TREE", ToJson([t |-> i, par |-> Trees[i].par, has |-> SetSeq(Trees[i].has),
                             nf |-> [c \in 1..NCls(Trees[i]) |-> NF(c)],
                             dv |-> [c \in 1..NCls(Trees[i]) |-> DefVals(c)],
                             ds |-> [c \in 1..(NCls(Trees[i]) + 1) |-> DefMap(Trees[i], c - 1)]])>>)
ASSUME TreeInfo

\* the namespace-class acceptance table, printed once (Part 0 only)
RuleInfo ==
  Part = 0 =>
    /\ \A d \in ClassDefs :
         PrintT(<<"CLASSRULE", ToJson([d |-> d, broken |-> SetSeq(ClassRuleBroken(d)),
                                       associated |-> ClassAssociated(d),
                                       after |-> ClassAfter(d)])>>)
    /\ \A r \in InstanceRules : PrintT(<<"INSTRULE", ToJson(r)>>)
ASSUME RuleInfo
\* sanity of the table itself: a plain associated definition and plain inheritance are accepted
ASSUME \A k \in {"args", "data"} :
  /\ ClassRuleBroken([kind |-> k, nbases |-> 1, depth |-> 0, defines |-> TRUE,
                      defaults |-> TRUE, assoc |-> TRUE, taken |-> FALSE]) = {}
  /\ \A n \in 1..3 :
       /\ ClassRuleBroken([kind |-> k, nbases |-> 1, depth |-> n, defines |-> FALSE,
                           defaults |-> TRUE, assoc |-> FALSE, taken |-> FALSE]) = {}
       \* re-association is rejected at every depth below an associated namespace class
       /\ ClassRuleBroken([kind |-> k, nbases |-> 1, depth |-> n, defines |-> FALSE,
                           defaults |-> TRUE, assoc |-> TRUE, taken |-> FALSE]) # {}
  /\ ClassRuleBroken([kind |-> k, nbases |-> 1, depth |-> 0, defines |-> FALSE,
                      defaults |-> TRUE, assoc |-> FALSE, taken |-> FALSE]) = {}
=============================================================================
