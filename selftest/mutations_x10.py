"""Seeded mutations for X10 (same record format as selftest/mutations_x08.py).

    /venv/bin/python -m selftest.mutations_x10 [id ...] [--thorough]

Every mutant is applied to a scratch copy of /repo/src under /tmp (removed afterwards) and counts as
caught when the quick check exits 1 with at least one VIOLATION signature.  The unchanged tree exits 0
(id `baseline`): finding B of notes/X10.md (`draw(z_index=True)` wrote the control key `z=True`) was
repaired in /repo by f386f57; its revert is the mutant `x10-z-index-bool-not-coerced`.  Mutants with
`expect_exit=0` are legitimate changes the check must tolerate (named deviations D2, D4).
"""

from __future__ import annotations

import os
import shutil
import subprocess
import sys
from pathlib import Path

VERIF = Path(__file__).resolve().parent.parent
_TYPE_OLD = "                lambda x: isinstance(x, str),\n                \"Render method must be a string\",\n"
_TYPE_NEW = "                lambda x: x is None or isinstance(x, str),\n                \"Render method must be a string\",\n"
_VAL_OLD = "                lambda x: x.lower() in __class__._render_methods,\n"
_VAL_NEW = "                lambda x: x is None or x.lower() in __class__._render_methods,\n"

CHECK_TAIL = "            if value == default:\n                del style_args[name]\n\n        return style_args\n"
DRAW_CHECK = "                style_args = self._check_style_args(style)\n"

MUTATIONS = {
    "baseline": dict(edits=[], expect_exit=0),
    # ---- the validation table -------------------------------------------------------------------
    "x10-z-range-includes-int32-min": dict(
        file="image/kitty.py",
        old="                lambda x: -(2**31) < x < 2**31,\n",
        new="                lambda x: -(2**31) <= x < 2**31,\n",
    ),
    "x10-z-range-includes-2-to-31": dict(
        file="image/kitty.py",
        old="                lambda x: -(2**31) < x < 2**31,\n",
        new="                lambda x: -(2**31) < x <= 2**31,\n",
    ),
    "x10-kitty-compress-accepts-10": dict(
        file="image/kitty.py",
        old="                lambda x: 0 <= x <= 9,\n",
        new="                lambda x: 0 <= x <= 10,\n",
    ),
    "x10-iterm2-compress-rejects-0": dict(
        file="image/iterm2.py",
        old="                lambda x: 0 <= x <= 9,\n",
        new="                lambda x: 1 <= x <= 9,\n",
    ),
    "x10-kitty-mix-accepts-int": dict(
        file="image/kitty.py",
        old="                lambda x: isinstance(x, bool),\n                \"Inter-mix policy must be a boolean\",\n",
        new="                lambda x: isinstance(x, int),\n                \"Inter-mix policy must be a boolean\",\n",
    ),
    "x10-iterm2-mix-accepts-none": dict(
        file="image/iterm2.py",
        old="                lambda x: isinstance(x, bool),\n",
        new="                lambda x: x is None or isinstance(x, bool),\n",
    ),
    "x10-wrong-type-raises-valueerror": dict(
        file="image/common.py",
        old="                raise TypeError(f\"{type_msg} (got: {type(value).__name__})\")\n",
        new="                raise ValueError(f\"{type_msg} (got: {type(value).__name__})\")\n",
    ),
    "x10-wrong-value-raises-typeerror": dict(
        file="image/common.py",
        old="                raise ValueError(f\"{value_msg} (got: {value!r})\")\n",
        new="                raise TypeError(f\"{value_msg} (got: {value!r})\")\n",
    ),
    "x10-unknown-arg-raises-typeerror": dict(
        file="image/common.py",
        old="                    if other_cls is __class__:\n                        raise StyleError(\n",
        new="                    if other_cls is __class__:\n                        raise TypeError(\n",
    ),
    "x10-kitty-blend-made-public": dict(
        # the private `blend` parameter of _render_image becomes a style argument
        file="image/kitty.py",
        old="        \"compress\": (\n            4,\n",
        new="        \"blend\": (True, (lambda x: isinstance(x, bool), \"\"), (lambda _: True, \"\")),\n"
            "        \"compress\": (\n            4,\n",
    ),
    "x10-styles-without-args-ignore-all": dict(
        # a style that documents no argument (block) silently drops whatever it is given
        file="image/common.py",
        old="            except KeyError:\n                for other_cls in cls.__mro__:\n",
        new="            except KeyError:\n                if not cls._style_args:\n                    del style_args[name]\n"
            "                    continue\n                for other_cls in cls.__mro__:\n",
    ),
    "x10-kitty-method-case-sensitive": dict(
        file="image/kitty.py",
        old=_VAL_OLD,
        new="                lambda x: x in __class__._render_methods,\n",
    ),
    "x10-kitty-method-none-accepted": dict(
        # D5 the other way round: the code follows the docstring ("None | str") against its own test-suite.
        # The spec pins the tested behaviour, so this alarms; flip StyleArgsCore!MethodNoneRefused if it is ever wanted
        file="image/kitty.py",
        old=_TYPE_OLD,
        new=_TYPE_NEW,
        more=[dict(file="image/kitty.py", old=_VAL_OLD, new=_VAL_NEW)],
    ),
    "x10-kitty-accepts-anim": dict(
        file="image/kitty.py",
        old="    _render_methods: Set[str] = {LINES, WHOLE}\n",
        new="    _render_methods: Set[str] = {LINES, WHOLE, \"anim\"}\n",
    ),
    "x10-invalid-args-ignored-by-draw": dict(
        # draw() swallows the validation error and draws with the defaults
        file="image/common.py",
        old=DRAW_CHECK,
        new="                try:\n                    style_args = self._check_style_args(style)\n"
            "                except (TypeError, ValueError):\n                    style_args = {}\n",
    ),
    "x10-format-route-skips-validation": dict(
        file="image/kitty.py",
        old="        return cls._check_style_args(args)\n",
        new="        return args\n",
    ),
    # ---- normalisation -----------------------------------------------------------------------------
    "x10-defaults-kept": dict(
        file="image/common.py",
        old=CHECK_TAIL,
        new="            if value == default:\n                pass\n\n        return style_args\n",
    ),
    "x10-truthy-values-dropped": dict(
        # `if not value` instead of `== default`: z_index=0 / mix=False / compress=0 (!) are dropped
        file="image/common.py",
        old=CHECK_TAIL,
        new="            if not value or value == default:\n                del style_args[name]\n\n        return style_args\n",
    ),
    "x10-check-lowercases-method": dict(
        # D4: canonicalising the spelling in the returned mapping is NOT a regression (exit 0)
        expect_exit=0,
        file="image/common.py",
        old=CHECK_TAIL,
        new="            if value == default:\n                del style_args[name]\n"
            "            elif name == \"method\":\n                style_args[name] = value.lower()\n\n        return style_args\n",
    ),
    # ---- state-freeness -------------------------------------------------------------------------------
    "x10-kitty-method-override-persists": dict(
        file="image/kitty.py",
        old="        render_method = (method or self._render_method).lower()\n",
        new="        if method:\n            self._render_method = method\n"
            "        render_method = (method or self._render_method).lower()\n",
    ),
    "x10-iterm2-method-override-persists-on-class": dict(
        file="image/iterm2.py",
        old="        render_method = (method or self._render_method).lower()\n",
        new="        if method:\n            type(self)._render_method = method\n"
            "        render_method = (method or self._render_method).lower()\n",
    ),
    "x10-style-args-accumulate-on-instance": dict(
        # draw() remembers the arguments of earlier calls and merges them into later ones
        file="image/common.py",
        old=DRAW_CHECK,
        new="                style_args = self._check_style_args(style)\n"
            "                style_args = self._prev_style = {**getattr(self, \"_prev_style\", {}), **style_args}\n",
    ),
    "x10-style-args-accumulate-one-call": dict(
        # ... only into the NEXT call (consumed there): needs direct succession or the probe
        file="image/common.py",
        old=DRAW_CHECK,
        new="                style_args = self._check_style_args(style)\n"
            "                style_args, type(self)._carry = {**getattr(type(self), \"_carry\", {}), **style_args}, style_args\n",
    ),
    "x10-style-args-accumulate-in-module-global": dict(
        # the memory lives where no attribute snapshot sees it: only the behaviour of later calls shows it
        file="image/common.py",
        old=DRAW_CHECK,
        new="                style_args = self._check_style_args(style)\n"
            "                style_args = {**_STYLE_CARRY, **style_args}\n"
            "                _STYLE_CARRY.update(style_args)\n",
        more=[dict(file="image/common.py", old="_TEMP_DIR = mkdtemp()\n",
                   new="_TEMP_DIR = mkdtemp()\n_STYLE_CARRY: dict = {}\n")],
    ),
    "x10-style-args-carried-into-next-call-only": dict(
        # ... and only the NEXT draw sees the arguments of the previous one
        file="image/common.py",
        old=DRAW_CHECK,
        new="                style_args = self._check_style_args(style)\n"
            "                carried = dict(style_args)\n"
            "                style_args = {**_STYLE_CARRY, **style_args}\n"
            "                _STYLE_CARRY.clear()\n"
            "                _STYLE_CARRY.update(carried)\n",
        more=[dict(file="image/common.py", old="_TEMP_DIR = mkdtemp()\n",
                   new="_TEMP_DIR = mkdtemp()\n_STYLE_CARRY: dict = {}\n")],
    ),
    "x10-check-remembers-last-args": dict(
        file="image/common.py",
        old=CHECK_TAIL,
        new="            if value == default:\n                del style_args[name]\n\n        cls._last_style_args = style_args\n        return style_args\n",
    ),
    "x10-rejected-set-writes-attribute": dict(
        # the instance-level setter stores the value before validating it
        file="image/common.py",
        old="        if method is not None and method.lower() not in type(self)._render_methods:\n",
        new="        if isinstance(method, str):\n            self._render_method = method\n"
            "        if method is not None and method.lower() not in type(self)._render_methods:\n",
    ),
    "x10-rejected-draw-writes-nothing": dict(
        # D2 repaired (arguments validated before anything is written): NOT a regression (exit 0)
        expect_exit=0,
        file="image/common.py",
        old="        def render(image: PIL.Image.Image) -> None:\n            try:\n",
        new="        self._check_style_args(dict(style))\n\n        def render(image: PIL.Image.Image) -> None:\n            try:\n",
    ),
    "x10-rejected-draw-draws-default-picture": dict(
        file="image/common.py",
        old=DRAW_CHECK,
        new="                try:\n                    style_args = self._check_style_args(style)\n"
            "                except Exception:\n                    print(self._format_render(self._render_image(image, alpha), *fmt), end=\"\")\n"
            "                    raise\n",
    ),
    # ---- what an accepted argument does ----------------------------------------------------------------
    "x10-kitty-mix-ignored": dict(
        file="image/kitty.py",
        old="        fill = (\"\" if mix else ERASE_CHARS % r_width) + (CURSOR_FORWARD % r_width)\n",
        new="        fill = (ERASE_CHARS % r_width) + (CURSOR_FORWARD % r_width)\n",
    ),
    "x10-iterm2-mix-default-true": dict(
        file="image/iterm2.py",
        old="        method: Optional[str] = None,\n        mix: bool = False,\n",
        new="        method: Optional[str] = None,\n        mix: bool = True,\n",
    ),
    "x10-kitty-compress-ignored-first-line": dict(
        file="image/kitty.py",
        old="                trans = Transmission(\n                    control_data, raw_image.read(bytes_per_line), compress\n                )\n"
            "                blend or buffer.write(KITTY_DELETE_CURSOR)\n                for chunk in trans.get_chunks():\n"
            "                    buffer.write(chunk)\n                for _ in range(r_height - 1):\n",
        new="                trans = Transmission(\n                    control_data, raw_image.read(bytes_per_line)\n                )\n"
            "                blend or buffer.write(KITTY_DELETE_CURSOR)\n                for chunk in trans.get_chunks():\n"
            "                    buffer.write(chunk)\n                for _ in range(r_height - 1):\n",
    ),
    "x10-iterm2-compress-ignored-whole": dict(
        file="image/iterm2.py",
        old="                img.save(\n                    compressed_image,\n                    format,\n"
            "                    compress_level=compress,  # PNG\n                    quality=jpeg_quality,\n                )\n\n        # clean up",
        new="                img.save(\n                    compressed_image,\n                    format,\n"
            "                    compress_level=4,  # PNG\n                    quality=jpeg_quality,\n                )\n\n        # clean up",
    ),
    "x10-kitty-z-index-magnitude-only-in-spec-route": dict(
        # format(image, "+z-1") denotes z_index=1: keyword route and specifier route disagree
        file="image/kitty.py",
        old="            args[\"z_index\"] = int(z_index[1:])\n",
        new="            args[\"z_index\"] = abs(int(z_index[1:]))\n",
    ),
    "x10-animation-drops-style-args": dict(
        file="image/common.py",
        old="        image_it._animator = image_it._animate(img, alpha, fmt, style_args)\n",
        new="        image_it._animator = image_it._animate(img, alpha, fmt, {})\n",
    ),
    "x10-z-index-bool-not-coerced": dict(
        # revert of f386f57 (finding B): draw(z_index=True) writes `z=True` again
        file="image/kitty.py",
        old="        control_data = ControlData(f=format, s=width, c=r_width, z=int(z_index))\n",
        new="        control_data = ControlData(f=format, s=width, c=r_width, z=z_index)\n",
    ),
}


def _apply_edit(root: Path, e: dict, mid: str) -> None:
    f = root / "src" / "term_image" / e["file"]
    text = f.read_text()
    if text.count(e["old"]) != 1:
        shutil.rmtree(root, ignore_errors=True)
        raise SystemExit(f"{mid}: pattern occurs {text.count(e['old'])} times in {e['file']}")
    f.write_text(text.replace(e["old"], e["new"]))


def apply(mid: str, m: dict) -> Path:
    root = Path(f"/tmp/verif-selftest-{mid}")
    shutil.rmtree(root, ignore_errors=True)
    root.mkdir(parents=True)
    subprocess.run(["rsync", "-a", "/repo/src", str(root) + "/"], check=True)
    edits = list(m["edits"]) if "edits" in m else [m] + list(m.get("more", []))
    for e in edits:
        _apply_edit(root, e, mid)
    if subprocess.run([sys.executable, "-m", "compileall", "-q", str(root / "src" / "term_image")]).returncode:
        shutil.rmtree(root, ignore_errors=True)
        raise SystemExit(f"{mid}: the mutant does not compile")
    return root


def run(mid: str, tier: str = "quick") -> bool:
    m = MUTATIONS[mid]
    root = apply(mid, m)
    try:
        env = dict(os.environ, VERIF_REPO=str(root))
        p = subprocess.run([str(VERIF / "check"), "X10", "--tier", tier], env=env, cwd=VERIF,
                           stdout=subprocess.PIPE, stderr=subprocess.STDOUT, text=True, timeout=3600)
    finally:
        shutil.rmtree(root, ignore_errors=True)
    sigs = sorted({l.strip()[len("signature: "):] for l in p.stdout.splitlines() if l.strip().startswith("signature:")})
    want = m.get("expect_exit", 1)
    ok = p.returncode == want and (want == 0 or bool(sigs))
    status = ("as expected" if want == 0 else "caught") if ok else ("MACHINERY" if p.returncode == 2 else "MISSED")
    print(f"MUT {mid} X10 exit={p.returncode} {status} {sigs}", flush=True)
    if p.returncode == 2 or (want == 0 and not ok):
        print("\n".join(p.stdout.splitlines()[-15:]))
    return ok


def main() -> int:
    args = [a for a in sys.argv[1:] if not a.startswith("--")]
    tier = "thorough" if "--thorough" in sys.argv else "quick"
    ids = args or list(MUTATIONS)
    bad = [m for m in ids if not run(m, tier)]
    print(f"{len(ids) - len(bad)}/{len(ids)} as expected" + (f"; not: {bad}" if bad else ""))
    return 1 if bad else 0


if __name__ == "__main__":
    sys.exit(main())
