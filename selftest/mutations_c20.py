"""Seeded mutations for C20 (same record format as selftest/mutations.py; kept in a file of its
own so that concurrent builders do not edit the shared registry - merge at will).

    /venv/bin/python -m selftest.mutations_c20 [id ...]     # runs ./check C20 on each mutant
    /venv/bin/python -m selftest.mutations_c20 --raw [id ...]   # without the F2 repair underneath

The unchanged tree already violates C20 through finding F2 (class-level
``set_render_method(None)`` writes the default).  Every mutant is therefore applied on top of
the F2 repair (F2_FIX) and counts as caught only if the check exits 1 with a signature OTHER
than F2's.  ``f2-fixed`` is the repaired tree itself: it must exit 0 (nothing else alarms).
With ``--raw`` the mutants are applied to the unchanged tree instead (F2 still fires; a mutant
counts as caught if another signature appears next to F2's).
"""

from __future__ import annotations

import os
import shutil
import subprocess
import sys
from pathlib import Path

VERIF = Path(__file__).resolve().parent.parent
F2_SIG = "render_method:class-unset-writes-default"

F2_FIX = dict(
    file="image/common.py",
    old="""        if not method:
            if cls._render_methods:
                cls._render_method = cls._default_render_method
        else:
            cls._render_method = method
""",
    new="""        if not method:
            if cls._render_methods:
                if "_default_render_method" in vars(cls):  # a root style class
                    cls._render_method = cls._default_render_method
                elif "_render_method" in vars(cls):
                    del cls._render_method
        else:
            cls._render_method = method
""",
)

MUTATIONS = {
    # ---- DESIGN.md "Must catch" -----------------------------------------------------------
    "c20-jpeg-deleter-writes-minus-one": dict(
        file="image/iterm2.py",
        old="""    @jpeg_quality.deleter
    def jpeg_quality(self) -> None:
        try:
            del self._jpeg_quality
        except AttributeError:
            pass
""",
        new="""    @jpeg_quality.deleter
    def jpeg_quality(self) -> None:
        self._jpeg_quality = -1
""",
    ),
    "c20-instance-setter-writes-class": dict(
        file="image/iterm2.py",
        old="""        ITerm2ImageMeta.jpeg_quality.fget,
        ITerm2ImageMeta.jpeg_quality.fset,
""",
        new="""        ITerm2ImageMeta.jpeg_quality.fget,
        lambda self, quality: ITerm2ImageMeta.jpeg_quality.fset(type(self), quality),
""",
    ),
    "c20-read-from-file-getter-type-self": dict(
        file="image/iterm2.py",
        old="""        ITerm2ImageMeta.read_from_file.fget,
        ITerm2ImageMeta.read_from_file.fset,
""",
        new="""        lambda self: getattr(type(self), "_read_from_file", True),
        ITerm2ImageMeta.read_from_file.fset,
""",
    ),
    "c20-kitty-method-precedence-reversed": dict(
        file="image/kitty.py",
        old="        render_method = (method or self._render_method).lower()",
        new="        render_method = (self._render_method or method).lower()",
    ),
    "c20-iterm2-method-precedence-reversed": dict(
        file="image/iterm2.py",
        old="        render_method = (method or self._render_method).lower()",
        new="        render_method = (self._render_method or method).lower()",
    ),
    # ---- seeded/C20-t1: data sized for the effective method, transmitted with the override ----
    "c20-kitty-size-from-effective-method": dict(
        file="image/kitty.py",
        old="""            self._get_minimal_render_size()
            if render_method == WHOLE
            else self._get_render_size()
        )

        frame_img = img if frame else None""",
        new="""            self._get_minimal_render_size()
            if self._render_method == WHOLE
            else self._get_render_size()
        )

        frame_img = img if frame else None""",
    ),
    "c20-iterm2-size-from-effective-method": dict(
        file="image/iterm2.py",
        old="""            self._get_minimal_render_size()
            if render_method == WHOLE
            else self._get_render_size()
        )

        if (  # Read directly from file""",
        new="""            self._get_minimal_render_size()
            if self._render_method == WHOLE
            else self._get_render_size()
        )

        if (  # Read directly from file""",
    ),
    # ---- seeded/C20-v2: the global limit addressed through type(self): one value per metaclass ----
    "c20-anim-max-bytes-per-metaclass": dict(
        file="image/iterm2.py",
        edits=[
            dict(file="image/iterm2.py",
                 old="        lambda self: __class__._native_anim_max_bytes,",
                 new="        lambda self: type(self)._native_anim_max_bytes,"),
            dict(file="image/iterm2.py",
                 old="        __class__._native_anim_max_bytes = max_bytes\n",
                 new="        type(self)._native_anim_max_bytes = max_bytes\n"),
            dict(file="image/iterm2.py",
                 old="        __class__._native_anim_max_bytes = __class__.__native_anim_max_bytes\n",
                 new="        type(self)._native_anim_max_bytes = type(self).__native_anim_max_bytes\n"),
        ],
    ),
    # ---- F16 reverted: a falsy instance (class defines __len__ -> 0) is dispatched as the class ----
    "c20-classinstancemethod-falsy-instance-as-class": dict(
        file="utils.py",
        old="        if instance is not None:\n            return self.f_instance.__get__(instance, owner)",
        new="        if instance:\n            return self.f_instance.__get__(instance, owner)",
    ),
    # ---- seeded/C20-y2: ITerm2Image is born with an own forced_support value ----
    "c20-iterm2-own-forced-support-slot": dict(
        file="image/iterm2.py",
        old='    _TERM: str = ""\n    _TERM_VERSION: str = ""\n\n    jpeg_quality = ClassInstanceProperty(',
        new='    _forced_support: bool = False\n    _TERM: str = ""\n    _TERM_VERSION: str = ""\n\n'
            '    jpeg_quality = ClassInstanceProperty(',
    ),
    # ---- seeded/C20-y1: KittyImage.clear() guards on KittyImage's forcing, not the invoking class' ----
    "c20-kitty-clear-guard-reads-own-class": dict(
        file="image/kitty.py",
        old="        if not (cls._forced_support or cls.is_supported()):\n            return\n",
        new="        if not (__class__._forced_support or cls.is_supported()):\n            return\n",
    ),
    # ---- own ------------------------------------------------------------------------------
    "c20-instance-unset-writes-default": dict(
        file="image/common.py",
        old="""            try:
                del self._render_method
            except AttributeError:
                pass
""",
        new="""            self._render_method = type(self)._default_render_method
""",
    ),
    "c20-anim-max-bytes-per-class": dict(
        file="image/iterm2.py",
        edits=[
            dict(file="image/iterm2.py",
                 old="        lambda self: __class__._native_anim_max_bytes,",
                 new="        lambda self: self._native_anim_max_bytes,"),
            dict(file="image/iterm2.py",
                 old="        __class__._native_anim_max_bytes = max_bytes\n",
                 new="        self._native_anim_max_bytes = max_bytes\n"),
        ],
    ),
    "c20-jpeg-quality-accepts-96-to-100": dict(
        file="image/iterm2.py",
        old="        if quality > 95:\n",
        new="        if quality > 100:\n",
    ),
    "c20-forced-support-set-on-metaclass": dict(
        file="image/common.py",
        old="            raise arg_type_error(\"forced_support\", status)\n\n        self._forced_support = status\n",
        new="            raise arg_type_error(\"forced_support\", status)\n\n        type(self)._forced_support = status\n",
    ),
    "c20-new-gate-ignores-subclass-forcing": dict(
        file="image/common.py",
        old="        if not (cls.is_supported() or cls._forced_support):",
        new="        if not (cls.is_supported() or __class__._forced_support):",
    ),
    "c20-class-method-not-lowercase-checked": dict(
        # class-wide method validated case-sensitively: "WHOLE" is rejected although documented
        # as case-insensitive
        file="image/common.py",
        old="        if method is not None and method.lower() not in cls._render_methods:",
        new="        if method is not None and method not in cls._render_methods:",
    ),
    "c20-read-from-file-unset-only-on-instances": dict(
        # deleting the class-wide policy silently does nothing
        file="image/iterm2.py",
        old="""    @read_from_file.deleter
    def read_from_file(self) -> None:
        try:
            del self._read_from_file
""",
        new="""    @read_from_file.deleter
    def read_from_file(self) -> None:
        try:
            if not isinstance(self, type):
                del self._read_from_file
""",
    ),
}


def apply(mid: str, edits) -> Path:
    root = Path(f"/tmp/verif-selftest-{mid}")
    shutil.rmtree(root, ignore_errors=True)
    root.mkdir(parents=True)
    subprocess.run(["rsync", "-a", "/repo/src", str(root) + "/"], check=True)
    for e in edits:
        f = root / "src" / "term_image" / e["file"]
        text = f.read_text()
        if e is F2_FIX and e["old"] not in text:
            continue  # /repo already carries the F2 repair (872f437)
        if text.count(e["old"]) != 1:
            raise SystemExit(f"{mid}: pattern occurs {text.count(e['old'])} times in {e['file']}")
        f.write_text(text.replace(e["old"], e["new"]))
    subprocess.run([sys.executable, "-m", "compileall", "-q", str(root / "src" / "term_image")], check=True)
    return root


def run(mid: str, tier: str = "quick", raw: bool = False) -> bool:
    edits = [] if raw else [F2_FIX]
    if mid != "f2-fixed":
        m = MUTATIONS[mid]
        edits += m["edits"] if "edits" in m else [m]
    root = apply(mid, edits)
    try:
        env = dict(os.environ, VERIF_REPO=str(root))
        p = subprocess.run([str(VERIF / "check"), "C20", "--tier", tier], env=env, cwd=VERIF,
                           stdout=subprocess.PIPE, stderr=subprocess.STDOUT, text=True, timeout=3600)
    finally:
        shutil.rmtree(root, ignore_errors=True)
    sigs = sorted({l.strip()[len("signature: "):] for l in p.stdout.splitlines()
                   if l.strip().startswith("signature:")} - {F2_SIG})
    if mid == "f2-fixed":
        ok = p.returncode == 0
        print(f"MUT {mid} C20 exit={p.returncode} {'clean' if ok else 'ALARMS'} {sigs}", flush=True)
    else:
        ok = p.returncode == 1 and bool(sigs)
        status = "caught" if ok else ("MACHINERY" if p.returncode == 2 else "MISSED")
        print(f"MUT {mid} C20 exit={p.returncode} {status} {sigs}", flush=True)
    if p.returncode == 2:
        print("\n".join(p.stdout.splitlines()[-15:]))
    return ok


def main() -> int:
    args = [a for a in sys.argv[1:] if not a.startswith("--")]
    raw = "--raw" in sys.argv
    tier = "thorough" if "--thorough" in sys.argv else "quick"
    ids = args or (["f2-fixed"] if not raw else []) + list(MUTATIONS)
    bad = [m for m in ids if not run(m, tier, raw)]
    print(f"{len(ids) - len(bad)}/{len(ids)} as expected" + (f"; not: {bad}" if bad else ""))
    return 1 if bad else 0


if __name__ == "__main__":
    sys.exit(main())
