#!/bin/sh
# Re-run every claimed quick check against /repo itself so that evidence/ holds what the checks
# found on the unchanged tree (runs aimed at scratch copies never write there).
cd "$(dirname "$0")/.." || exit 2
unset VERIF_REPO
rc=0
for id in $(/venv/bin/python -c "import json;print(' '.join(c['property_id'] for c in json.load(open('MANIFEST.json'))['checks']))"); do
  ./check "$id" --tier "${1:-quick}" | tail -1
  [ $? -eq 0 ] || rc=1
done
exit $rc
