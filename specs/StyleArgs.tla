----------------------------- MODULE StyleArgs -----------------------------
(***************************************************************************)
(* X10: histories of set_render_method, draw(style keywords), format(+style), *)
(* _check_style_args calls, valid and invalid, on ONE user subclass U of a   *)
(* style class and two instances of it (1: a still image, 2: an animated    *)
(* one), in which nothing leaks from one call into the next.                *)
(*                                                                         *)
(* State: the class-wide render method of U, the instance-specific ones,    *)
(* and `prev`, the kind of the previous operation (a history variable: it   *)
(* influences NOTHING - that is the law - but makes every (kind of previous  *)
(* call, next call) pair an edge of the dumped graph).                      *)
(***************************************************************************)
EXTENDS StyleArgsCore, TLC, Json

CONSTANTS
  Rich,         \* TRUE: larger alphabets (thorough tier)
  MaxWeight,    \* explore the states with at most this many render methods set (class + instances)
                \* and ALL transitions between them (histories of any length)
  PrevByRoute   \* TRUE: `prev` also remembers the route of the previous operation

NI == 2
MaxRows == 3
NF == 2
Animated(i) == i = 2

VARIABLES fam, cm, im, prev, out
vars == <<fam, cm, im, prev, out>>
View == <<fam, cm, im, prev>>

A(k, v) == [k |-> k, v |-> v]
S_WHOLE == <<87, 72, 79, 76, 69>>         \* "WHOLE"
S_Whole == <<87, 104, 111, 76, 101>>      \* "WhoLe"
S_LINES == <<76, 73, 78, 69, 83>>         \* "LINES"
S_Anim == <<65, 110, 105, 109>>           \* "Anim"
S_bogus == <<98, 111, 103, 117, 115>>     \* "bogus"
S_1 == <<49>>                             \* "1"
S_4 == <<52>>                             \* "4"
S_block == <<98, 108, 111, 99, 107>>      \* "block"

(* ---- boundary alphabets, one per documented argument -------------------- *)
MethodVals ==
  {NoneV, StrV(S_lines), StrV(S_WHOLE), StrV(S_anim), StrV(<<>>), Nat16(3)}
  \cup (IF Rich THEN {StrV(S_Whole), StrV(S_LINES), StrV(S_Anim), StrV(S_bogus), StrV(S_block),
                      BoolV(TRUE), FloatV(FALSE, 0, 1)}
        ELSE {})
ZVals ==
  {IntV(TRUE, 32768, 1), I32Min, IntV(TRUE, 32767, 65535), Neg16(1), Nat16(0), Nat16(1), Nat16(5),
   I32Max, IntV(FALSE, 32768, 0),
   BoolV(TRUE), BoolV(FALSE), FloatV(FALSE, 0, 1), StrV(S_1), NoneV}
  \cup (IF Rich THEN {IntV(TRUE, 16384, 1), IntV(FALSE, 1, 0), IntV(FALSE, 65536, 0), FloatV(FALSE, 0, 0)}
        ELSE {})
MixVals ==
  {BoolV(FALSE), BoolV(TRUE), Nat16(0), Nat16(1), NoneV, StrV(S_1)}
  \cup (IF Rich THEN {FloatV(FALSE, 0, 1), StrV(<<>>)} ELSE {})
CompVals ==
  {Neg16(1), Nat16(0), Nat16(3), Nat16(4), Nat16(9), Nat16(10), BoolV(TRUE), FloatV(FALSE, 0, 4),
   StrV(S_4), NoneV}
  \cup (IF Rich THEN {Nat16(1), Nat16(5), Nat16(6), BoolV(FALSE), IntV(FALSE, 1, 4)} ELSE {})
ValsOf(k) == CASE k = "method" -> MethodVals [] k = "z_index" -> ZVals
               [] k = "mix" -> MixVals [] k = "compress" -> CompVals

\* names no style documents (private parameters of _render_image, parameters of later versions)
Undocumented == {A("blend", BoolV(FALSE)), A("frame", BoolV(TRUE)), A("bogus", Nat16(1)),
                 A("native", BoolV(TRUE))}

Singles == {<<A(k, v)>> : k \in {"method"}, v \in MethodVals}
           \cup {<<A("z_index", v)>> : v \in ZVals}
           \cup {<<A("mix", v)>> : v \in MixVals}
           \cup {<<A("compress", v)>> : v \in CompVals}
           \cup {<<u>> : u \in Undocumented}

\* combinations: everything valid (both orders), everything explicitly at its default (without and
\* with method=None, which is refused: D5), a default
\* next to a real value, one wrong argument among valid ones (type / value / unknown), two wrong
\* arguments (either error is allowed), an unknown next to a wrong one
FullK == <<A("method", StrV(S_lines)), A("z_index", Nat16(5)), A("mix", BoolV(TRUE)), A("compress", Nat16(3))>>
FullI == <<A("method", StrV(S_WHOLE)), A("mix", BoolV(TRUE)), A("compress", Nat16(3))>>
Rev(s) == [i \in 1..Len(s) |-> s[Len(s) + 1 - i]]
Combos ==
  {FullK, Rev(FullK), FullI, Rev(FullI),
   <<A("z_index", Nat16(0)), A("mix", BoolV(FALSE)), A("compress", Nat16(4))>>,
   <<A("mix", BoolV(FALSE)), A("compress", Nat16(4))>>,
   <<A("method", NoneV), A("z_index", Nat16(0)), A("mix", BoolV(FALSE)), A("compress", Nat16(4))>>,
   <<A("method", NoneV), A("mix", BoolV(FALSE)), A("compress", Nat16(4))>>,
   <<A("z_index", Nat16(0)), A("compress", Nat16(9))>>,
   <<A("mix", BoolV(FALSE)), A("compress", Nat16(0))>>,
   <<A("method", StrV(S_WHOLE)), A("mix", Nat16(1)), A("compress", Nat16(3))>>,
   <<A("method", StrV(S_lines)), A("mix", BoolV(TRUE)), A("compress", Nat16(10))>>,
   <<A("mix", BoolV(TRUE)), A("bogus", Nat16(1))>>,
   <<A("z_index", IntV(FALSE, 32768, 0)), A("mix", Nat16(1))>>,
   <<A("mix", Nat16(1)), A("z_index", IntV(FALSE, 32768, 0))>>,
   <<A("bogus", Nat16(1)), A("compress", Nat16(10))>>,
   <<A("method", StrV(S_anim)), A("compress", Nat16(9))>>}

\* thorough: the full product of small per-argument alphabets (absent = not given)
Opt(k, vals) == {<<>>} \cup {<<A(k, v)>> : v \in vals}
Product ==
  IF Rich
  THEN {a \o b \o c \o d :
          a \in Opt("method", {StrV(S_WHOLE), NoneV, Nat16(3)}),
          b \in Opt("z_index", {Nat16(0), Nat16(5), I32Min}),
          c \in Opt("mix", {BoolV(TRUE), Nat16(1)}),
          d \in Opt("compress", {Nat16(4), Nat16(9), Nat16(10)})}
  ELSE {}

ArgSets == {<<>>} \cup Singles \cup Combos \cup Product
ASSUME \A s \in ArgSets : WFArgs(s)

\* argument sets drawn as an animation (instance 2, animate=True)
AnimSets == {<<>>, FullK, FullI, <<A("mix", BoolV(TRUE))>>, <<A("method", StrV(S_WHOLE))>>,
             <<A("method", StrV(S_anim))>>, <<A("compress", Nat16(10))>>, <<A("compress", Nat16(9))>>,
             <<A("z_index", Nat16(5))>>, <<A("bogus", Nat16(1))>>, <<A("method", NoneV)>>}
\* argument sets also used on the second (animated) instance as still draws
SecondSets == IF Rich THEN ArgSets ELSE {<<>>} \cup Combos \cup {<<A("method", v)>> : v \in MethodVals}

SetVals == {NoneV, StrV(S_whole), StrV(S_LINES), StrV(S_anim), StrV(S_bogus), Nat16(3)}
           \cup (IF Rich THEN {StrV(S_Whole), StrV(<<>>), BoolV(TRUE)} ELSE {})

(* ---- the machine ----------------------------------------------------------- *)
MethodStates(f) == {"unset"} \cup Methods(f)

NoOp == [r |-> "init", i |-> 0, an |-> FALSE, args |-> <<>>]
Init ==
  /\ fam \in Families
  /\ cm = "unset"
  /\ im = [i \in 1..NI |-> "unset"]
  /\ prev = [r |-> IF PrevByRoute THEN "init" ELSE "any", c |-> "plain"]
  /\ out = [op |-> NoOp, exp |-> ExpOf(fam, NoOp, "lines", FALSE, MaxRows, NF)]

MethOf(c, m, i) == IF i = 0 THEN Resolved(fam, c, "unset") ELSE Resolved(fam, c, m[i])

\* the kind of an operation, as remembered in `prev`
KindOf(op, ok) ==
  [r |-> IF PrevByRoute THEN op.r ELSE "any",
   c |-> IF ~ok THEN "rejected" ELSE IF op.r = "set" \/ Kept(op.args) = <<>> THEN "plain" ELSE "args"]

Do(op) ==
  LET exp == ExpOf(fam, op, MethOf(cm, im, op.i), op.i > 0 /\ Animated(op.i), MaxRows, NF)
      ok == exp.res = {"ok"}
  IN
  /\ cm' = IF op.r = "set" /\ ok /\ op.i = 0 THEN SetValue(op.args[1].v) ELSE cm
  /\ im' = IF op.r = "set" /\ ok /\ op.i > 0 THEN [im EXCEPT ![op.i] = SetValue(op.args[1].v)] ELSE im
  /\ prev' = KindOf(op, ok)
  /\ out' = [op |-> op, exp |-> exp]
  /\ UNCHANGED fam

Weight == (IF cm = "unset" THEN 0 ELSE 1) + Cardinality({i \in 1..NI : im[i] # "unset"})
Bound == Weight <= MaxWeight

Op(r, i, an, args) == [r |-> r, i |-> i, an |-> an, args |-> args]
SetOp(i, v) == Op("set", i, FALSE, <<A("method", v)>>)

\* --- one named action per API operation (split by outcome, so that coverage shows each) ---
SetClassMethod == \E v \in SetVals :
  SetVerdict(fam, v) = "ok" /\ Do(SetOp(0, v))
SetInstanceMethod == \E i \in 1..NI, v \in SetVals :
  SetVerdict(fam, v) = "ok" /\ Do(SetOp(i, v))
SetMethodRejected == \E i \in 0..NI, v \in SetVals :
  SetVerdict(fam, v) # "ok" /\ Do(SetOp(i, v))

Targets(args) == {1} \cup (IF args \in SecondSets THEN {2} ELSE {})

\* D5: None given as the `method` of a call whose other arguments are fine - documented as "the
\* effective render method", refused with TypeError by the code and by its test-suite
NoneMethod(args) == Given(args, "method") /\ ValOf(args, "method").t = "none"
OnlyNoneIsWrong(f, args) ==
  /\ NoneMethod(args) /\ "method" \in Known(f)
  /\ BadArgs(f, args) = {i \in DOMAIN args : args[i].k = "method"}
MethodNoneRefusedCall == \E args \in ArgSets : \E r \in {"draw", "check"} :
  /\ MethodNoneRefused /\ OnlyNoneIsWrong(fam, args)
  /\ Do(Op(r, IF r = "draw" THEN 1 ELSE 0, FALSE, args))

DrawPlain == \E i \in 1..NI : i > 0 /\ Do(Op("draw", i, FALSE, <<>>))
DrawWithArgs == \E args \in ArgSets \ {<<>>} : \E i \in Targets(args) :
  Accepted(fam, args) /\ Do(Op("draw", i, FALSE, args))
DrawRejected == \E args \in ArgSets : \E i \in Targets(args) :
  ~Accepted(fam, args) /\ ~(i = 1 /\ OnlyNoneIsWrong(fam, args)) /\ Do(Op("draw", i, FALSE, args))
DrawAnimation == \E args \in AnimSets :
  Accepted(fam, args) /\ Do(Op("draw", 2, TRUE, args))
DrawAnimationRejected == \E args \in AnimSets :
  ~Accepted(fam, args) /\ Do(Op("draw", 2, TRUE, args))

FormatWithSpec == \E args \in ArgSets : \E i \in Targets(args) :
  Expressible(args) /\ FormatVerdicts(fam, args) = {"ok"} /\ Do(Op("format", i, FALSE, args))
FormatRejected == \E args \in ArgSets : \E i \in Targets(args) :
  Expressible(args) /\ FormatVerdicts(fam, args) # {"ok"} /\ Do(Op("format", i, FALSE, args))

CheckArgs == \E args \in ArgSets :
  Accepted(fam, args) /\ Do(Op("check", 0, FALSE, args))
CheckArgsRejected == \E args \in ArgSets :
  ~Accepted(fam, args) /\ ~OnlyNoneIsWrong(fam, args) /\ Do(Op("check", 0, FALSE, args))

Next == \/ SetClassMethod \/ SetInstanceMethod \/ SetMethodRejected
        \/ DrawPlain \/ DrawWithArgs \/ DrawRejected \/ DrawAnimation \/ DrawAnimationRejected
        \/ FormatWithSpec \/ FormatRejected \/ CheckArgs \/ CheckArgsRejected \/ MethodNoneRefusedCall
Spec == Init /\ [][Next]_vars

(* ---- state invariants ------------------------------------------------------- *)
TypeOK ==
  /\ fam \in Families
  /\ cm \in MethodStates(fam)
  /\ \A i \in 1..NI : im[i] \in MethodStates(fam)
  /\ out.exp.res \subseteq {"ok", "TypeError", "ValueError", "StyleError"} /\ out.exp.res # {}
  /\ WFArgs(out.op.args)

\* whatever happened before, a plain call denotes the documented defaults and the method the
\* target resolves to (nothing of an earlier call is part of a later call's meaning)
PlainCallDenotesDefaults ==
  \A i \in 1..NI :
    Den(MethOf(cm, im, i), <<>>) = [m |-> MethOf(cm, im, i), z |-> Nat16(0), x |-> FALSE, c |-> 4]

BlockAcceptsNothing ==
  fam = "block" /\ out.op.r \in {"draw", "format", "check"} /\ out.op.args # <<>>
    => out.exp.res = {"StyleError"}

RejectedDrawsNoPicture ==
  out.exp.res # {"ok"} => "picture" \notin out.exp.wrote

AcceptedRenderDenotes ==
  out.exp.res = {"ok"} /\ out.op.r \in {"draw", "format"} =>
    /\ out.exp.wrote = {"picture"}
    /\ out.exp.den.m \in (IF fam = "block" THEN {"none"} ELSE Methods(fam))
    /\ InZRange(out.exp.den.z)
    /\ out.exp.den.c \in 0..9
    /\ fam # "kitty" => out.exp.den.z = Nat16(0)

\* the minimal argument set contains no default and only documented names
MinimalArgsAreMinimal ==
  out.op.r = "check" /\ out.exp.res = {"ok"} =>
    /\ \A j \in DOMAIN out.exp.kept : ~EqDefault(out.exp.kept[j]) /\ out.exp.kept[j].k \in Known(fam)
    /\ Kept(out.exp.kept) = out.exp.kept
    /\ Den("lines", out.exp.kept) = Den("lines", out.op.args)

(* ---- action properties -------------------------------------------------------- *)
\* draw / format / _check_style_args never change a render method, whatever their arguments
CallsChangeNothing == [][out'.op.r \in {"draw", "format", "check"} => cm' = cm /\ im' = im]_vars
\* ... in particular a per-call `method` override does not persist
OverrideDoesNotPersist ==
  [][out'.op.r \in {"draw", "format"} /\ Given(out'.op.args, "method")
       => \A i \in 1..NI : MethOf(cm', im', i) = MethOf(cm, im, i)]_vars
RejectedChangesNothing == [][out'.exp.res # {"ok"} => cm' = cm /\ im' = im]_vars
\* an instance-level set touches that instance only; a class-level set no instance-specific value
SetScope ==
  [][out'.op.r = "set" =>
       /\ out'.op.i = 0 => im' = im
       /\ out'.op.i > 0 => cm' = cm /\ \A j \in 1..NI : j # out'.op.i => im'[j] = im[j]]_vars
\* the expectation of an operation does not depend on `prev`
OutIsFunctionOfState ==
  [][out'.exp = ExpOf(fam, out'.op, MethOf(cm, im, out'.op.i), out'.op.i > 0 /\ Animated(out'.op.i),
                      MaxRows, NF)]_vars

(* ---- table laws: the verdict function over the whole argument space ------------ *)
\* (checked in the one-state-per-family configuration MC_StyleArgs_table.cfg)
AllArgs == {s[1] : s \in Singles}
Spellings == {S_lines, S_LINES, S_whole, S_WHOLE, S_Whole, S_anim, S_Anim}

\* every documented default is itself an acceptable value and is dropped - except method=None,
\* which is refused as an inappropriate type (D5)
DefaultsAreAccepted ==
  \A k \in Known(fam) :
    /\ EqDefault(A(k, DefaultOf(k)))
    /\ ArgVerdict(fam, A(k, DefaultOf(k))) = (IF k = "method" /\ MethodNoneRefused THEN "TypeError" ELSE "ok")
\* D5 stated as a law: None is never an acceptable `method`, in any company; an omitted `method`
\* is how a call gets the method its target resolves to
MethodNoneIsRefused ==
  MethodNoneRefused =>
    /\ \A s \in ArgSets : NoneMethod(s) => ~Accepted(fam, s)
    /\ "method" \in Known(fam) => CallVerdicts(fam, <<A("method", NoneV)>>) = {"TypeError"}
    /\ \A res \in Methods(fam) : Den(res, <<>>).m = res

\* the z-index range, said in two ways
ZRangeFormulationsAgree ==
  \A v \in ZVals : IntLike(v) => (InZRange(v) <=> InZRangeByMagnitude(v))
ZRangeBoundaries ==
  /\ InZRange(I32Max) /\ ~InZRange(IntV(FALSE, 32768, 0))
  /\ InZRange(IntV(TRUE, 32767, 65535)) /\ ~InZRange(I32Min) /\ ~InZRange(IntV(TRUE, 32768, 1))

\* exactly one of ok / StyleError / TypeError / ValueError per argument; unknown beats everything
VerdictIsTotal ==
  \A a \in AllArgs :
    /\ ArgVerdict(fam, a) \in {"ok", "StyleError", "TypeError", "ValueError"}
    /\ (a.k \notin Known(fam)) <=> (ArgVerdict(fam, a) = "StyleError")

\* the order of the keyword arguments is irrelevant
OrderIrrelevant ==
  \A s \in Combos \cup Product :
    /\ CallVerdicts(fam, Rev(s)) = CallVerdicts(fam, s)
    /\ Accepted(fam, s) => /\ Den("lines", Rev(s)) = Den("lines", s)
                           /\ IsKeptOf(Kept(Rev(s)), s)

\* dropping defaults and giving defaults explicitly change neither verdict nor meaning
NormalisationPreservesMeaning ==
  \A s \in ArgSets :
    Accepted(fam, s) =>
      /\ Accepted(fam, Kept(s))
      /\ Kept(Kept(s)) = Kept(s)
      /\ \A res \in Methods(fam) : Den(res, Kept(s)) = Den(res, s)
      /\ Kept(s) = <<>> <=> \A res \in Methods(fam) : Den(res, s) = Den(res, <<>>)

\* render-method names are case-insensitive, in draw(method=) and in set_render_method()
CaseInsensitive ==
  \A s \in Spellings :
    /\ ArgVerdict(fam, A("method", StrV(s))) = ArgVerdict(fam, A("method", StrV(LowerS(s))))
    /\ SetVerdict(fam, StrV(s)) = SetVerdict(fam, StrV(LowerS(s)))
    /\ Den("lines", <<A("method", StrV(s))>>) = Den("lines", <<A("method", StrV(LowerS(s)))>>)

\* keyword route and specifier route: an expressible argument set is accepted by both or by
\* neither, and (Den being the same function for both) denotes the same
RoutesAgree ==
  \A s \in ArgSets :
    Expressible(s) => (FormatVerdicts(fam, s) = {"ok"} <=> Accepted(fam, s))

\* set_render_method and draw(method=) accept the same names
SetAndOverrideAgree ==
  \A v \in MethodVals \cup SetVals :
    v.t = "str" => (SetVerdict(fam, v) = "ok" <=> (fam # "block" /\ ArgVerdict(fam, A("method", v)) = "ok"))

TableSpec == Init /\ [][UNCHANGED vars]_vars

(* ---- edge dump (spec -> code replay) ------------------------------------------- *)
Key(f, c, m, p) == [fam |-> f, cm |-> c, im |-> m, prev |-> p]
Dump == PrintT(<<"EDGE", ToJson([from |-> Key(fam, cm, im, prev),
                                 op |-> [op |-> out'.op, exp |-> out'.exp],
                                 to |-> Key(fam, cm', im', prev')])>>)
\* after every operation a plain still draw of each instance must show the documented defaults and
\* the method the instance resolves to: one table row per render-method state
Plain(c, m) == [i \in 1..NI |->
                  ExpOf(fam, Op("draw", i, FALSE, <<>>), MethOf(c, m, i), Animated(i), MaxRows, NF)]
PlainTable == {[cm |-> c, im |-> m, plain |-> Plain(c, m)] :
                 c \in MethodStates(fam), m \in [1..NI -> MethodStates(fam)]}
InitDump ==
  TLCGet("level") = 1 =>
    /\ PrintT(<<"INIT", ToJson(Key(fam, cm, im, prev))>>)
    /\ PrintT(<<"GEO", ToJson([fam |-> fam, ni |-> NI, maxrows |-> MaxRows, nf |-> NF,
                               animated |-> [i \in 1..NI |-> Animated(i)],
                               terms |-> Terms(fam), plain |-> PlainTable])>>)
=============================================================================
