SPECIFICATION Spec
CONSTANTS
  TtySizes <- SizesOne
  Decoys <- DecoysThree
INVARIANT ActiveWins
INVARIANT DecoyOnlyWithoutTerminal
CHECK_DEADLOCK FALSE
