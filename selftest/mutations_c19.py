"""Seeded mutations for C19 (same record format as selftest/mutations.py; kept in a file of its
own so that concurrent builders do not edit the shared registry - merge at will).

    /venv/bin/python -m selftest.mutations_c19 [id ...]     # runs ./check C19 on each mutant
    /venv/bin/python -m selftest.mutations_c19 f9-fixed      # the repaired tree must be clean

While finding F9 (signature family ``accepts-bare-dot:hash-bg`` / ``accepts-bare-dot:style``)
was still in /repo, every mutant was applied on top of the F9 repair (F9_FIX); F9 has since been
fixed in /repo (212ec59), so F9_FIX is applied only if its pattern is still found.  A mutant
counts as caught only if the check exits 1; ``f9-fixed`` (= the current tree once F9 is
repaired) must exit 0: the check demands nothing else of the current code.
"""

from __future__ import annotations

import os
import shutil
import subprocess
import sys
from concurrent.futures import ThreadPoolExecutor
from pathlib import Path

VERIF = Path(__file__).resolve().parent.parent

F9_FIX = dict(
    file="image/common.py",
    old='''    r"(([<|>])?(\\d+)?)?\\.(#(\\.\\d+|[0-9a-fA-F]{6})?)?", re.ASCII''',
    new='''    r"(([<|>])?(\\d+)?)?\\.(#(\\.\\d+|[0-9a-fA-F]{6}|#)?)?(\\+(.+))?", re.ASCII''',
)

MUTATIONS = {
    # ---- DESIGN.md "Must catch" -----------------------------------------------------------
    "c19-hex-3-to-6": dict(
        file="image/common.py", props=["C19"],
        old='''    r"(([<|>])?(\\d+)?)?(\\.([-^_])?(\\d+)?)?(#(\\.\\d+|[0-9a-fA-F]{6}|#)?)?(\\+(.+))?",''',
        new='''    r"(([<|>])?(\\d+)?)?(\\.([-^_])?(\\d+)?)?(#(\\.\\d+|[0-9a-fA-F]{3,6}|#)?)?(\\+(.+))?",''',
    ),
    "c19-absent-height-zero": dict(
        file="image/common.py", props=["C19"],
        old="int(height) if height else -2,",
        new="int(height) if height else 0,",
    ),
    "c19-kitty-pattern-order": dict(
        props=["C19"],
        edits=[
            dict(file="image/kitty.py",
                 old='''r"[LW] z-?\\d+ m[01] c[0-9]"''', new='''r"[LW] m[01] z-?\\d+ c[0-9]"'''),
            dict(file="image/kitty.py",
                 old="parent, (method, z_index, mix, compress) = cls._get_style_format_spec(",
                 new="parent, (method, mix, z_index, compress) = cls._get_style_format_spec("),
        ],
    ),
    "c19-kitty-mix-any-digit": dict(
        file="image/kitty.py", props=["C19"],
        old='''r"[LW] z-?\\d+ m[01] c[0-9]"''', new='''r"[LW] z-?\\d+ m\\d c[0-9]"''',
    ),
    # ---- own ------------------------------------------------------------------------------
    "c19-iterm2-mix-any-digit": dict(
        file="image/iterm2.py", props=["C19"],
        old='''"[LWA] m[01] c[0-9]"''', new='''r"[LWA] m\\d c[0-9]"''',
    ),
    "c19-style-defaults-kept": dict(
        file="image/common.py", props=["C19"],
        old="            if value == default:\n                del style_args[name]\n",
        new="            if value == default:\n                pass\n",
    ),
    "c19-z-range-includes-int32-min": dict(   # only the directed boundary literals reach it
        file="image/kitty.py", props=["C19"],
        old="lambda x: -(2**31) < x < 2**31,", new="lambda x: -(2**31) <= x < 2**31,",
    ),
    "c19-iterator-drops-style-part": dict(     # visible at the ImageIterator entry point only
        file="image/common.py", props=["C19"],
        old="        *fmt, alpha, style_args = image._check_format_spec(format_spec)\n\n        if not isinstance(cached, int)",
        new="        *fmt, alpha, style_args = image._check_format_spec(format_spec.partition('+')[0])\n\n        if not isinstance(cached, int)",
    ),
    "c19-format-termbg-as-no-alpha": dict(     # visible only as format() != draw()
        file="image/common.py", props=["C19"],
        old="            self._renderer(self._render_image, alpha, **style_args),\n            h_align,",
        new="            self._renderer(self._render_image, alpha if alpha != '#' else None, **style_args),\n            h_align,",
    ),
    "c19-reject-leaves-class-attribute": dict(  # side effect on rejection
        file="image/common.py", props=["C19"],
        old="        parent, invalid = spec[:start], spec[end:]\n        if invalid:\n",
        new="        parent, invalid = spec[:start], spec[end:]\n        if invalid:\n            cls._last_invalid = invalid\n",
    ),
    "c19-termbg-keeps-both-hashes": dict(
        file="image/common.py", props=["C19"],
        old='''                    "#" + threshold_or_bg.lstrip("#")
                    if _ALPHA_BG_FORMAT''',
        new='''                    "#" + threshold_or_bg
                    if _ALPHA_BG_FORMAT''',
    ),
    "c19-bare-dot-accepted": dict(
        file="image/common.py", props=["C19"],
        old="if not match_ or _NO_VERTICAL_SPEC.fullmatch(spec):", new="if not match_:",
    ),
    "c19-urwid-default-h-align-centre": dict(  # visible at the UrwidImage entry point only
        file="widget/_urwid.py", props=["C19"],
        old="self._ti_h_align, _, self._ti_v_align, _ = fmt",
        new="self._ti_h_align, _, self._ti_v_align, _ = fmt[0] or '|', 0, fmt[2], 0",
    ),
    "c19-width-leading-zero-octal": dict(
        file="image/common.py", props=["C19"],
        old="int(width) if width else 0,",
        new="int(width, 8) if width and width[0] == '0' and len(width) > 1 and not set(width) & set('89') else int(width) if width else 0,",
    ),
    # ---- settings dimension (seeded regression C19-y2 and a sibling) ----------------------
    "c19-iterm2-compress-depends-on-class-jpeg": dict(   # = seeded/C19-y2
        file="image/iterm2.py", props=["C19"],
        old='        if compress:\n            args["compress"] = int(compress[-1])\n',
        new='        if compress and cls.jpeg_quality < 0:\n            args["compress"] = int(compress[-1])\n',
    ),
    "c19-kitty-method-dropped-when-class-method": dict(   # 'W' denotes nothing once the class is WHOLE
        file="image/kitty.py", props=["C19"],
        old='        if method:\n            args["method"] = LINES if method == "L" else WHOLE\n',
        new='        if method and not (cls._render_method != cls._default_render_method and (LINES if method == "L" else WHOLE) == cls._render_method):\n'
            '            args["method"] = LINES if method == "L" else WHOLE\n',
    ),
    "c19-threshold-percent": dict(
        file="image/common.py", props=["C19"],
        old="                    else float(threshold_or_bg)\n",
        new="                    else float(threshold_or_bg) if len(threshold_or_bg) != 3 else float('.0' + threshold_or_bg[1:])\n",
    ),
}


def apply(mid: str, edits) -> Path:
    root = Path(f"/tmp/verif-selftest-{mid}")
    shutil.rmtree(root, ignore_errors=True)
    root.mkdir(parents=True)
    subprocess.run(["rsync", "-a", "/repo/src", str(root) + "/"], check=True)
    for e in edits:
        f = root / "src" / "term_image" / e["file"]
        text = f.read_text()
        if e is F9_FIX and text.count(e["old"]) == 0:
            continue  # already repaired in /repo
        if text.count(e["old"]) != 1:
            raise SystemExit(f"{mid}: pattern occurs {text.count(e['old'])} times in {e['file']}")
        f.write_text(text.replace(e["old"], e["new"]))
    return root


def run(mid: str, tier: str = "quick") -> bool:
    edits = [F9_FIX]
    if mid != "f9-fixed":
        m = MUTATIONS[mid]
        edits += m["edits"] if "edits" in m else [m]
    root = apply(mid, edits)
    try:
        env = dict(os.environ, VERIF_REPO=str(root))
        p = subprocess.run([str(VERIF / "check"), "C19", "--tier", tier], env=env, cwd=VERIF,
                           stdout=subprocess.PIPE, stderr=subprocess.STDOUT, text=True, timeout=3600)
    finally:
        shutil.rmtree(root, ignore_errors=True)
    sigs = sorted({l.strip()[len("signature: "):] for l in p.stdout.splitlines()
                   if l.strip().startswith("signature:")})
    if mid == "f9-fixed":
        ok = p.returncode == 0
        print(f"BASE f9-fixed exit={p.returncode} {'clean' if ok else 'NOT CLEAN ' + str(sigs)}", flush=True)
        if not ok:
            print("\n".join(p.stdout.splitlines()[-15:]))
        return ok
    caught = p.returncode == 1 and bool(sigs)
    status = "caught" if caught else ("MACHINERY" if p.returncode == 2 else "MISSED")
    print(f"MUT {mid} C19 exit={p.returncode} {status} {sigs}", flush=True)
    if p.returncode == 2:
        print("\n".join(p.stdout.splitlines()[-15:]))
    return caught


def main():
    ids = sys.argv[1:] or ["f9-fixed", *MUTATIONS]
    with ThreadPoolExecutor(max_workers=int(os.environ.get("C19_PAR", "2"))) as ex:
        res = list(ex.map(run, ids))
    sys.exit(0 if all(res) else 1)


if __name__ == "__main__":
    main()
