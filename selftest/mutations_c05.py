"""Seeded mutations for C05 (same record format as selftest/mutations.py; kept in a file of its
own so that concurrent builders do not edit the shared registry - merge at will).

    /venv/bin/python -m selftest.mutations_c05 [id ...]     # runs ./check C05 on each mutant

When the tree still has finding F10 (it violates C05 by itself), every mutant is applied on top of
the F10 repair (F10_FIX, skipped if the tree already has it) and counts as caught only if the
check reports a signature OTHER than F10's.
"""

from __future__ import annotations

import os
import shutil
import subprocess
import sys
from concurrent.futures import ThreadPoolExecutor
from pathlib import Path

VERIF = Path(__file__).resolve().parent.parent
F10_SIG = "old-api:_format_render:pad-lines-narrower-than-render"

F10_FIX = dict(
    file="image/common.py",
    old="""            top = f"{' ' * width}\\n" * top
            bottom = f"\\n{' ' * width}" * bottom""",
    new="""            top = f"{' ' * max(width, cols)}\\n" * top
            bottom = f"\\n{' ' * max(width, cols)}" * bottom""",
)

MUTATIONS = {
    # ---- independently seeded regression /verif/seeded/C05-w2 -----------------------------
    # left/right padding sliced (by code points) from one padding line: wrong for one-column
    # fills made of several code points (SGR-wrapped blank/glyph, base + combining character)
    "c05-pad-sides-sliced-from-line": dict(
        file="padding.py", props=["C05"],
        old="""            left_padding = fill * left
            right_padding = fill * right
""",
        new="""            left_padding = (fill * width)[:left]
            right_padding = (fill * width)[:right]
""",
    ),
    # finding F10 brought back (the tree has it repaired): must ring with F10's own signature
    "c05-f10-reintroduced": dict(
        file="image/common.py", props=["C05"], expect_f10=True,
        old="""            top = f"{' ' * max(width, cols)}\\n" * top
            bottom = f"\\n{' ' * max(width, cols)}" * bottom""",
        new="""            top = f"{' ' * width}\\n" * top
            bottom = f"\\n{' ' * width}" * bottom""",
    ),
    # ---- DESIGN.md "Must catch" -----------------------------------------------------------
    "c05-right-off-by-one": dict(
        file="padding.py", props=["C05"],
        old="            right = padding_width - left\n",
        new="            right = padding_width - left - 1\n",
    ),
    "c05-centre-ceil": dict(
        file="padding.py", props=["C05"],
        old="            left = padding_width * numerator // denominator\n",
        new="            left = -(-padding_width * numerator // denominator)\n",
    ),
    "c05-pad-left-right-swapped-at-newline": dict(
        file="padding.py", props=["C05"],
        old='render.replace("\\n", f"{right_padding}\\n{left_padding}")',
        new='render.replace("\\n", f"{left_padding}\\n{right_padding}")',
    ),
    "c05-resolve-max-zero": dict(
        file="padding.py", props=["C05"],
        old="            height = max(terminal_height + height, 1)\n",
        new="            height = max(terminal_height + height, 0)\n",
    ),
    "c05-old-top-from-width": dict(
        file="image/common.py", props=["C05"],
        old="                top = (height - lines) // 2\n",
        new="                top = (width - lines) // 2\n",
    ),
    # ---- own ------------------------------------------------------------------------------
    "c05-render-reports-unpadded-size": dict(
        file="renderable/_renderable.py", props=["C05"],
        old="""                frame.duration,
                padded_size,
                padding.pad(frame.render_output, frame.render_size),""",
        new="""                frame.duration,
                frame.render_size,
                padding.pad(frame.render_output, frame.render_size),""",
    ),
    "c05-empty-fill-top-lines-written": dict(
        file="padding.py", props=["C05"],
        old='            top_padding = f"{cursor_forward(width)}\\n" * top if top else ""',
        new='            top_padding = f"{\' \' * width}\\n" * top if top else ""',
    ),
    "c05-init-render-resolves-against-swapped-terminal": dict(
        file="renderable/_renderable.py", props=["C05"],
        old="                padding = padding.resolve(terminal_size)\n",
        new="                padding = padding.resolve(terminal_size[::-1])\n",
    ),
    "c05-old-height-relative-to-columns": dict(
        file="image/common.py", props=["C05"],
        old="max(terminal_size.lines + height, 1)",
        new="max(terminal_size.columns + height, 1)",
    ),
    "c05-iterator-set-padding-stale-size": dict(
        file="render/_iterator.py", props=["C05"],
        old="        self._padded_size = self._padding.get_padded_size(self._renderable_data.size)\n",
        new="",
    ),
    "c05-to-exact-drops-fill": dict(
        file="padding.py", props=["C05"],
        old="ExactPadding(*self._get_exact_dimensions_(render_size), self.fill)",
        new="ExactPadding(*self._get_exact_dimensions_(render_size))",
    ),
    "c05-exact-accepts-minus-one": dict(
        file="padding.py", props=["C05"],
        old="            if value < 0:\n",
        new="            if value < -1:\n",
    ),
    "c05-aligned-padded-size-ignores-render": dict(
        file="padding.py", props=["C05"],
        old="return _Size(max(self.width, render_size[0]), max(self.height, render_size[1]))",
        new="return _Size(max(self.width, render_size[0]), self.height)",
    ),
    "c05-old-centre-ceil": dict(
        file="image/common.py", props=["C05"],
        old='                left = " " * ((width - cols) // 2)\n',
        new='                left = " " * (-(-(width - cols) // 2))\n',
    ),
    "c05-bottom-lines-one-column-short": dict(
        file="padding.py", props=["C05"],
        old='            bottom_padding = f"\\n{fill * width}" * bottom if bottom else ""',
        new='            bottom_padding = f"\\n{fill * (width - (right > 1))}" * bottom if bottom else ""',
    ),
}


def apply(mid: str, edits) -> Path:
    root = Path(f"/tmp/verif-selftest-{mid}")
    shutil.rmtree(root, ignore_errors=True)
    root.mkdir(parents=True)
    subprocess.run(["rsync", "-a", "/repo/src", str(root) + "/"], check=True)
    for e in edits:
        f = root / "src" / "term_image" / e["file"]
        text = f.read_text()
        if e is F10_FIX and e["new"] in text:
            continue  # F10 is already repaired in the tree
        if text.count(e["old"]) != 1:
            raise SystemExit(f"{mid}: pattern occurs {text.count(e['old'])} times in {e['file']}")
        f.write_text(text.replace(e["old"], e["new"]))
    return root


def run(mid: str, tier: str = "quick") -> bool:
    if mid == "f10-fixed":
        edits = [F10_FIX]
    elif MUTATIONS[mid].get("expect_f10"):
        edits = [MUTATIONS[mid]]
    else:
        edits = [F10_FIX, MUTATIONS[mid]]
    root = apply(mid, edits)
    try:
        env = dict(os.environ, VERIF_REPO=str(root))
        p = subprocess.run([str(VERIF / "check"), "C05", "--tier", tier], env=env, cwd=VERIF,
                           stdout=subprocess.PIPE, stderr=subprocess.STDOUT, text=True, timeout=3600)
    finally:
        shutil.rmtree(root, ignore_errors=True)
    sigs = {l.strip()[len("signature: "):] for l in p.stdout.splitlines() if l.strip().startswith("signature:")}
    if MUTATIONS.get(mid, {}).get("expect_f10"):
        sigs = sorted(sigs & {F10_SIG})
    else:
        sigs = sorted(sigs - {F10_SIG})
    if mid == "f10-fixed":
        ok = p.returncode == 0
        print(f"BASE f10-fixed exit={p.returncode} {'clean' if ok else 'NOT CLEAN ' + str(sigs)}", flush=True)
        return ok
    caught = p.returncode == 1 and bool(sigs)
    status = "caught" if caught else ("MACHINERY" if p.returncode == 2 else "MISSED")
    print(f"MUT {mid} C05 exit={p.returncode} {status} {sigs}", flush=True)
    if p.returncode == 2:
        print("\n".join(p.stdout.splitlines()[-15:]))
    return caught


def main():
    ids = sys.argv[1:] or list(MUTATIONS)
    with ThreadPoolExecutor(max_workers=int(os.environ.get("C05_PAR", "2"))) as ex:
        res = list(ex.map(run, ids))
    sys.exit(0 if all(res) else 1)


if __name__ == "__main__":
    main()
