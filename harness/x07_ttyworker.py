"""X07 worker: a process that loads term_image.utils with the standard streams / controlling
terminal its parent arranged (see x07_tty.py) and answers get_terminal_size() on request.

argv: <control read fd> <result write fd> [<fd of the terminal to take as controlling terminal>]
Never imports anything of the harness; term_image is imported only on the ``load`` command.
"""

import json
import os
import signal
import sys
import warnings


def main() -> None:
    signal.signal(signal.SIGHUP, signal.SIG_IGN)
    ctl = os.fdopen(int(sys.argv[1]), "r")
    res = os.fdopen(int(sys.argv[2]), "w")
    if len(sys.argv) > 3:
        import fcntl
        import termios

        fd = int(sys.argv[3])
        fcntl.ioctl(fd, termios.TIOCSCTTY, 0)
        os.close(fd)
    sys.path.insert(0, os.environ["X07_SRC"])
    U = None
    loaded = (-1, None)
    for line in ctl:
        c = json.loads(line)
        try:
            if c["op"] == "load":
                with warnings.catch_warnings(record=True) as caught:
                    warnings.simplefilter("always")
                    from term_image import utils as U
                    from term_image.exceptions import TermImageWarning
                warned = any(issubclass(w.category, TermImageWarning)
                             and "not running within a terminal" in str(w.message) for w in caught)
                loaded = (U._tty_fd, os.ttyname(U._tty_fd) if U._tty_fd != -1 else None)
                out = {"size": list(U.get_terminal_size()), "warned": warned, "name": loaded[1]}
            elif c["op"] == "query":
                name = None
                if U._tty_fd != -1:
                    try:
                        name = os.ttyname(U._tty_fd)
                    except OSError:  # hung up: the same descriptor still stands for the same device
                        name = loaded[1] if U._tty_fd == loaded[0] else "?"
                try:
                    out = {"size": list(U.get_terminal_size()), "name": name}
                except Exception as e:  # reported with the terminal's identity, judged by the parent
                    out = {"size": [-1, -1], "name": name, "exc": f"{type(e).__name__}: {e}"}
            elif c["op"] == "env":
                for k in ("COLUMNS", "LINES"):
                    if c.get(k) is None:
                        os.environ.pop(k, None)
                    else:
                        os.environ[k] = str(c[k])
                out = {"ok": True}
            else:
                out = {"machinery": f"unknown command {c!r}"}
        except BaseException as e:  # reported, judged by the parent
            out = {"size": [-1, -1], "name": None, "exc": f"{type(e).__name__}: {e}"}
        res.write(json.dumps(out) + "\n")
        res.flush()


main()
