------------------------------ MODULE MC_KittyCut ------------------------------
(* Every (raw size in Raws) x (cut position in the transmission) run of KittyCut: the delivered *)
(* prefix, then the clean-up, symbol by symbol through the receiving terminal.                   *)
EXTENDS KittyCut

VARIABLES raw, cut, i, t
vars == <<raw, cut, i, t>>

Tx == Transmission(Class(raw).n)
Delivered == SubSeq(Tx, 1, cut) \o CleanUp

CutName == IF cut = 0 THEN [role |-> Tx[1].role, after |-> "nothing"]
           ELSE [role |-> Tx[cut].role, after |-> Tx[cut].s]

Init ==
  /\ raw \in Raws
  /\ cut \in 0..Len(Transmission(Class(raw).n))
  /\ i = 0
  /\ t = Start
  /\ PrintT(<<"CELL", ToJson([n |-> Class(raw).n, fits |-> Class(raw).fits, raw |-> raw,
                              b64 |-> B64Len(raw), chunks |-> NChunks(raw),
                              role |-> CutName.role, after |-> CutName.after,
                              open |-> FeedAll(Start, SubSeq(Tx, 1, cut) \o ST \o ST, 1).rx = 1])>>)

Receive ==
  /\ i < Len(Delivered)
  /\ i' = i + 1
  /\ t' = Feed(t, Delivered[i + 1])
  /\ UNCHANGED <<raw, cut>>

Spec == Init /\ [][Receive]_vars

Done == i = Len(Delivered)
\* the clauses of C07 at the design level
NotSwallowingOutput == Done => t.ps = "ground"
NoTransferLeftOpen == Done => t.rx = 0
\* sanity of the model itself: an uncut transmission leaves the terminal idle without any clean-up
CompleteTransmissionIsClean ==
  LET e == FeedAll(Start, Tx, 1) IN e.ps = "ground" /\ e.rx = 0
\* the classes on both sides of every boundary are present (the grid is not vacuous)
ClassesCovered ==
  {Class(r) : r \in Raws} = {[n |-> 1, fits |-> TRUE], [n |-> 2, fits |-> TRUE],
                             [n |-> 2, fits |-> FALSE], [n |-> 3, fits |-> FALSE]}
=============================================================================
