----------------------------- MODULE Trace_Pad -----------------------------
(***************************************************************************)
(* C05: code -> spec.  One trace = one REAL padding operation:              *)
(*                                                                         *)
(*   itoks/igfx   token stream of the inner (unpadded) render output,       *)
(*                advertised size rw x rh;                                  *)
(*   toks/gfx     token stream of the padded output the library produced    *)
(*                (Padding.pad, Renderable.render(padding=), RenderIterator *)
(*                frames, format(image, spec), BaseImage._format_render,    *)
(*                draw());                                                  *)
(*   pad, api     the padding AS REQUESTED (possibly relative; for the old  *)
(*                API the h_align/width/v_align/height arguments) and the   *)
(*                terminal size tw x th the library saw;                    *)
(*   fill, ftoks  "none" (empty fill) or "cell" + the token stream of the   *)
(*                fill STRING on its own: any string occupying one column   *)
(*                (one code point, an SGR-wrapped glyph, base + combining   *)
(*                character).  What a fill CELL is, is derived here by      *)
(*                interpreting ftoks on a fresh terminal (FillT);           *)
(*   apw, aph     the padded size the library reported (-1: the API does    *)
(*                not report one).                                          *)
(*                                                                         *)
(* WHERE the output has to land is computed here from Padding.tla           *)
(* (Resolve, Dims); the driver supplies no expected geometry.  Two          *)
(* Terminal records are used: A interprets the inner render, B the padded   *)
(* output, both from the same start position of the same screen.  The       *)
(* start positions are enumerated in Init (every position class where the   *)
(* padded box fits; multi-line outputs start in column 0 - DESIGN 2.5,      *)
(* "Newline").  Clauses are evaluated after EVERY token of B and at the     *)
(* end; steps are total and the verdict names the first failing clause.     *)
(***************************************************************************)
EXTENDS Terminal, Json, IOUtils

P == INSTANCE Padding

Traces == JsonDeserialize(IOEnv.TRACE_FILE)

VARIABLES tid, pos, l, A, B, verdict, at
vars == <<tid, pos, l, A, B, verdict, at>>

(* ---- geometry, from the padding specification ------------------------------ *)

Req(tr) == IF tr.api = "old" THEN P!OldApiPadding(tr.pad.ha, tr.pad.w, tr.pad.va, tr.pad.h)
           ELSE tr.pad
Resolved(tr) == P!Resolve(Req(tr), P!Sz(tr.tw, tr.th))
Dm(tr) == P!Dims(Resolved(tr), P!Sz(tr.rw, tr.rh))
PW(tr) == Dm(tr).l + tr.rw + Dm(tr).r
PH(tr) == Dm(tr).t + tr.rh + Dm(tr).b

Pos(cols, rows, r0, c0) == [cols |-> cols, rows |-> rows, r0 |-> r0, c0 |-> c0]

Positions(tr) ==
  LET pw == PW(tr)
      ph == PH(tr)
      tight == {Pos(pw + 2, ph + 2, r, c) : r \in {0, 2}, c \in IF ph = 1 THEN {0, 1, 2} ELSE {0}}
               \cup {Pos(pw, ph, 0, 0), Pos(pw, ph + 1, 1, 0)}
  IN IF tr.screen = "term" /\ pw <= tr.tw /\ ph <= tr.th
       THEN {Pos(tr.tw, tr.th, 0, 0), Pos(tr.tw, tr.th, tr.th - ph, 0)}
       ELSE tight

Cells(r1, c1, h, w) == {<<rr, cc>> : rr \in r1..(r1 + h - 1), cc \in c1..(c1 + w - 1)}

Box(tr, ps) == Cells(ps.r0, ps.c0, PH(tr), PW(tr))
InnerB(tr, ps) == Cells(ps.r0 + Dm(tr).t, ps.c0 + Dm(tr).l, tr.rh, tr.rw)

(* ---- interpreter extension (own to this module; Terminal.tla is shared) ---- *)
(* Terminal cells record glyph and colours.  A fill may also carry non-colour   *)
(* attributes (dim, bold, ...) and combining characters; both are folded into   *)
(* the cell's glyph tag so that cell equality sees them:                        *)
(*   print under attributes S # {}  ->  g = <class> "@" ToString(S)             *)
(*   comb (combining code point m)  ->  appended to the last printed cell        *)
(* `garbled` = a sequence of the padded output that the lexer does not know      *)
(* although the inner render and the fill lex cleanly on their own.              *)
AttrTag(S) == IF S = {} THEN "" ELSE "@" \o ToString(S)

ApplyX(T, t, gfx) ==
  CASE t.k = "comb" ->
         LET p == IF T.pw THEN <<AbsRow(T), T.c>> ELSE <<AbsRow(T), T.c - 1>> IN
         IF p \in DOMAIN T.cells
           THEN [T EXCEPT !.cells[p].g = @ \o "+" \o ToString(t.m), !.ntok = @ + 1]
           ELSE [Fail(T, "combining character without a base cell") EXCEPT !.ntok = @ + 1]
    [] t.k = "print" /\ T.attrs # {} /\ ~T.pw ->
         LET T1 == Apply(T, t, gfx)
             span == RowSpan(AbsRow(T), T.c, Min(T.c + t.n, T.cols) - 1)
         IN [T1 EXCEPT !.cells = [p \in DOMAIN T1.cells |->
                                    IF p \in span THEN [T1.cells[p] EXCEPT !.g = @ \o AttrTag(T.attrs)]
                                    ELSE T1.cells[p]]]
    [] t.k = "garbled" -> [T EXCEPT !.ntok = @ + 1]   \* judged by StepClause
    [] OTHER -> Apply(T, t, gfx)

RECURSIVE Fold(_, _, _, _)
Fold(T, toks, gfx, i) == IF i > Len(toks) THEN T ELSE Fold(ApplyX(T, toks[i], gfx), toks, gfx, i + 1)

(* the fill string on its own, at the left of a fresh 2-column line *)
FillT(tr) == Fold(NewTerminal(2, 1, 0, 0), tr.ftoks, <<>>, 1)
FillCell(tr) == CellAt(FillT(tr), 0, 0)
\* documented precondition: the fill occupies exactly one column (and nothing else)
FillOK(tr) ==
  LET F == FillT(tr) IN
  /\ F.err = "" /\ F.c = 1 /\ F.r = 0 /\ ~F.pw /\ F.lfs = 0 /\ F.wraps = 0
  /\ Touched(F) = {<<0, 0>>}
  /\ \A i \in DOMAIN tr.ftoks : tr.ftoks[i].k \in {"print", "sgr", "comb"}
FillResets(tr) == SgrDefault(FillT(tr))

\* does line i (0-based, within the box) of the padded output end with a fill cell?
EndsWithFill(tr, i) == i < Dm(tr).t \/ i >= Dm(tr).t + tr.rh \/ Dm(tr).r > 0

(* ---- clauses ---------------------------------------------------------------- *)

\* after every token tk of the padded output (S0 = state before it, S = after)
StepClause(tr, ps, S0, S, tk) ==
  IF S.err # "" THEN S.err
  ELSE IF tk.k \in {"abort", "partial", "garbled"} THEN "broken-control-sequence: the padded output contains a cut-open control sequence"
  ELSE IF tk.k = "lf" /\ tr.fill # "none" /\ FillResets(tr) /\ EndsWithFill(tr, S0.r - ps.r0) /\ ~SgrDefault(S0)
    THEN "sgr-leak-after-fill: text attributes are not default after a fill cell that resets them"
  ELSE IF S.wraps > 0 THEN "wrap: padded output wrapped at the right margin"
  ELSE IF S.scrolls > 0 THEN "scroll: padded output scrolled the screen"
  ELSE IF ~(Touched(S) \subseteq Box(tr, ps)) THEN "touched-outside-box: a cell outside the padded box changed"
  ELSE IF ~(S.r \in ps.r0..(ps.r0 + PH(tr) - 1)) THEN "cursor-row-outside-box"
  ELSE IF ~(S.c \in ps.c0..Min(ps.c0 + PW(tr), ps.cols - 1)) THEN "cursor-col-outside-box"
  ELSE "ok"

\* the padded box is covered (non-empty fill) / only the shifted inner box is (empty fill)
CoverClause(tr, ps, S) ==
  LET want == IF tr.fill = "none" THEN InnerB(tr, ps) ELSE Box(tr, ps)
      missing == want \ Touched(S)
      innerRows == (ps.r0 + Dm(tr).t)..(ps.r0 + Dm(tr).t + tr.rh - 1)
  IN IF missing # {} THEN
       IF tr.fill # "none" /\ (\A c \in missing : c[1] \notin innerRows) THEN
         IF Resolved(tr).kind = "aligned" /\ Resolved(tr).w < tr.rw
           THEN "pad-lines-narrower-than-render: top/bottom padding lines are only as wide as the minimum width, which is less than the render width"
           ELSE "pad-lines-short: a top/bottom padding line does not span the padded width"
       ELSE "not-covered: some cell of the padded box was not written"
     ELSE IF Touched(S) \ want # {} THEN "padding-area-touched: an empty fill must leave the padding area untouched"
     ELSE "ok"

\* the original render, unchanged, at the offset dictated by the alignment
InnerClause(tr, ps, Sa, Sb) ==
  LET t == Dm(tr).t
      lf == Dm(tr).l
      same(a, b) == /\ (a \in DOMAIN Sa.cells) = (b \in DOMAIN Sb.cells)
                    /\ (a \in DOMAIN Sa.cells => Sa.cells[a] = Sb.cells[b])
  IN IF ~(\A rr \in 0..(tr.rh - 1), cc \in 0..(tr.rw - 1) :
            same(<<ps.r0 + rr, ps.c0 + cc>>, <<ps.r0 + t + rr, ps.c0 + lf + cc>>))
       THEN "inner-cell-differs: a cell of the original render is not reproduced at its aligned offset"
     ELSE IF Len(Sa.pl) # Len(Sb.pl) THEN "placement-count-differs"
     ELSE IF ~(\A i \in DOMAIN Sa.pl :
                 Sb.pl[i] = [Sa.pl[i] EXCEPT !.row = @ + t, !.col = @ + lf])
       THEN "placement-differs: an image placement of the original render is not reproduced at its aligned offset"
     ELSE "ok"

\* every other cell of the box: the fill cell (the fill string interpreted on its own)
FillClause(tr, ps, S) ==
  IF tr.fill = "none" THEN "ok"
  ELSE LET fc == FillCell(tr)
           cover == PlacementCover(S)
       IN IF \A c \in Box(tr, ps) \ InnerB(tr, ps) :
               c \in DOMAIN S.cells /\ S.cells[c] = fc /\ c \notin cover
            THEN "ok"
            ELSE "fill-cell: a padding cell does not hold exactly one fill cell (the whole fill string)"

EndClause(tr, ps, Sa, Sb) ==
  LET n == Len(tr.toks) IN
  IF CoverClause(tr, ps, Sb) # "ok" THEN CoverClause(tr, ps, Sb)
  ELSE IF InnerClause(tr, ps, Sa, Sb) # "ok" THEN InnerClause(tr, ps, Sa, Sb)
  ELSE IF FillClause(tr, ps, Sb) # "ok" THEN FillClause(tr, ps, Sb)
  ELSE IF Sb.r # ps.r0 + PH(tr) - 1 THEN "cursor-end-row: cursor not on the last line of the padded box"
  ELSE IF Sb.c # Min(ps.c0 + PW(tr), ps.cols - 1) THEN "cursor-end-col: cursor not just past the right edge of the padded box"
  ELSE IF Sb.lfs # PH(tr) - 1 THEN "newline-count: not exactly padded_height-1 newlines"
  ELSE IF tr.fill # "none" /\ FillResets(tr) /\ EndsWithFill(tr, PH(tr) - 1) /\ ~SgrDefault(Sb)
    THEN "sgr-leak-after-fill: text attributes are not default after a fill cell that resets them"
  ELSE IF <<Sb.fg, Sb.bg, Sb.attrs>> # <<Sa.fg, Sa.bg, Sa.attrs>> THEN "sgr-state-differs: text attributes after the padded output differ from those after the render"
  ELSE IF n > 0 /\ tr.toks[n].k = "lf" THEN "ends-with-newline"
  ELSE IF n > 0 /\ tr.toks[n].k = "partial" THEN "incomplete-sequence: output ends inside a control sequence"
  ELSE IF Sb.rx # Sa.rx THEN "kitty-chunking-open"
  ELSE IF tr.apw >= 0 /\ <<tr.apw, tr.aph>> # <<PW(tr), PH(tr)>> THEN "advertised-size: the reported padded size is not max(render, minimum) / render + margins"
  ELSE "ok"

(* ---- the trace machine ------------------------------------------------------- *)

Tr == Traces[tid]
N == Len(Tr.toks)

Init ==
  /\ tid \in 1..Len(Traces)
  /\ pos \in Positions(Traces[tid])
  /\ l = 0
  /\ A = Fold(NewTerminal(pos.cols, pos.rows, pos.r0, pos.c0), Traces[tid].itoks, Traces[tid].igfx, 1)
  /\ B = NewTerminal(pos.cols, pos.rows, pos.r0, pos.c0)
  /\ verdict = IF A.err # "" THEN "inner-render: " \o A.err
               ELSE IF Traces[tid].fill # "none" /\ ~FillOK(Traces[tid])
                 THEN "fill-precondition: the fill string does not occupy exactly one column"
               ELSE "ok"
  /\ at = 0

Consume ==
  /\ l < N
  /\ l' = l + 1
  /\ B' = ApplyX(B, Tr.toks[l + 1], Tr.gfx)
  /\ LET v == IF verdict # "ok" THEN verdict ELSE StepClause(Tr, pos, B, B', Tr.toks[l + 1]) IN
       /\ verdict' = v
       /\ at' = IF verdict = "ok" /\ v # "ok" THEN l + 1 ELSE at
  /\ UNCHANGED <<tid, pos, A>>

Finish ==
  /\ l = N
  /\ l' = N + 1
  /\ LET v == IF verdict # "ok" THEN verdict ELSE EndClause(Tr, pos, A, B) IN
       /\ verdict' = v
       /\ at' = IF verdict = "ok" /\ v # "ok" THEN N + 1 ELSE at
  /\ UNCHANGED <<tid, pos, A, B>>

Next == Consume \/ Finish
Spec == Init /\ [][Next]_vars

Done == l = N + 1
Report ==
  Done => PrintT(<<"VERDICT", ToJson([tid |-> tid, verdict |-> verdict, at |-> at, pos |-> pos,
                                      npos |-> Cardinality(Positions(Tr)),
                                      box |-> <<PW(Tr), PH(Tr)>>,
                                      dims |-> <<Dm(Tr).l, Dm(Tr).t, Dm(Tr).r, Dm(Tr).b>>])>>)
=============================================================================
