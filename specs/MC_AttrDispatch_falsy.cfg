\* X07: falsy
SPECIFICATION Spec
CONSTANTS
  World <- FalsyWorld
  OpKinds <- AllKinds
  MaxWeight = 1
VIEW View
CONSTRAINT Bound
ACTION_CONSTRAINT Dump
INVARIANT InitDump
INVARIANT StateDump
INVARIANT TypeOK
INVARIANT EffectiveIsNearestValue
INVARIANT ShadowHasNoStorage
INVARIANT ShadowShowsItsClass
INVARIANT ReadOnlyIsConstant
INVARIANT OnlyAddressedKindsTouched
INVARIANT ParentDefaultUndisturbed
PROPERTY RejectedChangesNothing
PROPERTY ReadsChangeNothing
PROPERTY OnlyAddressedSlotChanges
PROPERTY SetTakesEffect
PROPERTY DeleteReexposesNext
PROPERTY LocalEffect
PROPERTY ReceiverIsInvoker
PROPERTY DispatchFollowsMro
CHECK_DEADLOCK FALSE
