----------------------------- MODULE MC_Sizing -----------------------------
(***************************************************************************)
(* C04, design level: Algo => SizeRel.  An initial state is an image in a   *)
(* style family with its cell size / cell ratio; one named action per       *)
(* sizing request computes what _valid_size (as transcribed in Sizing!Algo) *)
(* returns under EVERY terminal/frame of the grid and collects the cases    *)
(* where the result fails a clause of the property (none expected).         *)
(*   originals 1..MaxO x 1..MaxO, terminals 1..MaxTC x 1..MaxTL,            *)
(*   frames: every absolute frame 1..MaxTC x 1..MaxTL, relative frames      *)
(*           (0,-2), (0,0) under every terminal (FullTerms) or (0,-2),      *)
(*           (0,0), (-3,-1) under nine boundary terminals, plus mixed       *)
(*           absolute/relative ones,                                        *)
(*   text family:  cell ratio in Ratios, or taken from the cell size,       *)
(*   graphics family: cell size in Cells (none = fallback 1x2).             *)
(***************************************************************************)
EXTENDS Sizing, TLC, FiniteSets, Json

CONSTANTS MaxO, MaxTC, MaxTL, FullTerms

Cells == {<<0, 0>>, <<1, 2>>, <<2, 3>>, <<3, 5>>}
Ratios == {<<1, 4>>, <<1, 3>>, <<1, 2>>, <<3, 5>>, <<1, 1>>, <<2, 1>>}

\* <<tc, tl, fc, fl>>.  Absolute frames do not read the terminal (checked: `frameok`), so they
\* are paired with one terminal.  FullTerms: relative frames under EVERY terminal 1..MaxTC x
\* 1..MaxTL; otherwise under the boundary terminals below (the same combinations
\* harness/drivers/c04.py replays into the real code in the quick tier).
SomeTerms == {<<1, 1>>, <<2, 3>>, <<12, 8>>, <<5, 2>>, <<7, 5>>, <<3, 8>>, <<12, 1>>, <<1, 8>>, <<9, 4>>}
TermFrames ==
  {<<5, 4, fc, fl>> : fc \in 1..MaxTC, fl \in 1..MaxTL}
  \cup (IF FullTerms
        THEN {<<tc, tl, 0, -2>> : tc \in 1..MaxTC, tl \in 1..MaxTL}
             \cup {<<tc, tl, 0, 0>> : tc \in 1..MaxTC, tl \in 1..MaxTL}
        ELSE {<<t[1], t[2], f[1], f[2]>> : t \in SomeTerms, f \in {<<0, -2>>, <<0, 0>>, <<-3, -1>>}})
  \cup {<<tc, tl, -1, 3>> : tc \in {1, 2, 7}, tl \in {1, 5}}
  \cup {<<tc, tl, 4, -1>> : tc \in {1, 9}, tl \in {1, 2, 6}}
OneTermFrame == {<<5, 4, 0, -2>>}

Variants ==
  {[fam |-> "text", cw |-> 0, ch |-> 0, rn |-> r[1], rd |-> r[2]] : r \in Ratios}
  \cup {[fam |-> "text", cw |-> c[1], ch |-> c[2], rn |-> 0, rd |-> 1] : c \in Cells}
  \cup {[fam |-> "gfx", cw |-> c[1], ch |-> c[2], rn |-> 1, rd |-> 2] : c \in Cells}

Images ==
  {[fam |-> v.fam, ow |-> ow, oh |-> oh, cw |-> v.cw, ch |-> v.ch, rn |-> v.rn, rd |-> v.rd] :
      v \in Variants, ow \in 1..MaxO, oh \in 1..MaxO}

ASSUME PrintT(<<"GRID", ToJson([images |-> Cardinality(Images), termframes |-> Cardinality(TermFrames),
                                maxtc |-> MaxTC, maxtl |-> MaxTL])>>)

VARIABLES img, res
vars == <<img, res>>

Env(i, tf) ==
  [fam |-> i.fam, ow |-> i.ow, oh |-> i.oh, tc |-> tf[1], tl |-> tf[2], fc |-> tf[3], fl |-> tf[4],
   cw |-> i.cw, ch |-> i.ch, rn |-> i.rn, rd |-> i.rd]

NoRes == [k |-> "none", bad |-> {}]

\* every (request, terminal/frame) whose Algo result fails a clause of the property
Failing(ms, tfs) ==
  {x \in {LET e == Env(img, tf)
              d == Derive(e)
              r == AlgoD(m, d)
          IN [m |-> m, tf |-> tf, w |-> r.w, h |-> r.h, br |-> r.br,
              clause |-> SizeClauseD(m, d, r.w, r.h),
              frameok |-> /\ (e.fc > 0 => FC(e) = e.fc) /\ (e.fl > 0 => FL(e) = e.fl)
                          /\ (e.fc <= 0 => FC(e) = MaxI(e.tc + e.fc, 1))
                          /\ (e.fl <= 0 => FL(e) = MaxI(e.tl + e.fl, 1)),
              \* requests that do not read the frame must not depend on it
              frameind |-> (m.k \in {"ORIGINAL", "W", "H", "WH"}
                            => <<r.w, r.h>> = AlgoOut(m, Env(img, <<1, 1, 1, 1>>)))]
            : m \in ms, tf \in tfs}
     : x.clause # "ok" \/ ~x.frameok \/ ~x.frameind}

Init == img \in Images /\ res = NoRes
EvalFit ==
  /\ res = NoRes
  /\ res' = [k |-> "FIT", bad |-> Failing({Mode("FIT")}, TermFrames)]
  /\ UNCHANGED img
EvalAuto ==
  /\ res = NoRes
  /\ res' = [k |-> "AUTO", bad |-> Failing({Mode("AUTO")}, TermFrames)]
  /\ UNCHANGED img
EvalOriginal ==
  /\ res = NoRes
  /\ res' = [k |-> "ORIGINAL", bad |-> Failing({Mode("ORIGINAL")}, TermFrames)]
  /\ UNCHANGED img
EvalFitToWidth ==
  /\ res = NoRes
  /\ res' = [k |-> "FIT_TO_WIDTH", bad |-> Failing({Mode("FIT_TO_WIDTH")}, TermFrames)]
  /\ UNCHANGED img
EvalGivenWidth ==
  /\ res = NoRes
  /\ res' = [k |-> "W", bad |-> Failing({GivenW(a) : a \in 1..MaxTC}, OneTermFrame)]
  /\ UNCHANGED img
EvalGivenHeight ==
  /\ res = NoRes
  /\ res' = [k |-> "H", bad |-> Failing({GivenH(a) : a \in 1..MaxTL}, OneTermFrame)]
  /\ UNCHANGED img
EvalManual ==
  /\ res = NoRes
  /\ res' = [k |-> "WH", bad |-> Failing({Manual(a, b) : a \in 1..3, b \in 1..3}, OneTermFrame)]
  /\ UNCHANGED img

Next == EvalFit \/ EvalAuto \/ EvalOriginal \/ EvalFitToWidth \/ EvalGivenWidth
        \/ EvalGivenHeight \/ EvalManual
Spec == Init /\ [][Next]_vars

\* THE theorem: whatever the algorithm returns satisfies the property (the counterexample's
\* `res.bad` lists request, terminal/frame, result and failing clause)
AlgoSatisfiesProperty == res.bad = {}
=============================================================================
