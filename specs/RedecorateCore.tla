--------------------------- MODULE RedecorateCore ---------------------------
(***************************************************************************)
(* X07: `term_image.utils.no_redecorate` - "Prevents a decorator from        *)
(* re-decorating objects."  Functional core.                                *)
(*                                                                         *)
(* Decorators of the probe:                                                 *)
(*   "a", "b"  guarded: wrapped with no_redecorate; each adds one layer      *)
(*             built with functools.wraps (as every decorator of the library)*)
(*   "r"       unguarded, wraps-based: decorates every time                  *)
(*   "q"       unguarded and OPAQUE: returns a plain new function (no wraps) *)
(* A function's state: the layers around it, innermost first.               *)
(*                                                                         *)
(* Documented law: a guarded decorator decorates a function at most once     *)
(* however often it is applied, re-application returns the object unchanged, *)
(* and function / decorator metadata survive.  Named deviation (mechanism,   *)
(* not documented): the guard is a marker attribute that travels outwards    *)
(* through `wraps`; an OPAQUE layer hides it, so a guarded decorator applied *)
(* above an opaque layer decorates again (action RedecorateAboveOpaque).     *)
(***************************************************************************)
EXTENDS Naturals, Sequences, FiniteSets

Guarded == {"a", "b"}
Decorators == {"a", "b", "r", "q"}

LastOpaque(ls) == LET I == {i \in 1..Len(ls) : ls[i] = "q"} IN
                  IF I = {} THEN 0 ELSE CHOOSE i \in I : \A j \in I : j <= i
Visible(ls) == SubSeq(ls, LastOpaque(ls) + 1, Len(ls))      \* the layers above the last opaque one
Count(ls, d) == Cardinality({i \in 1..Len(ls) : ls[i] = d})
Marks(ls) == {d \in Guarded : Count(Visible(ls), d) > 0}    \* markers visible on the outermost object

Blocked(ls, d) == d \in Guarded /\ d \in Marks(ls)
Decorate(ls, d) == IF Blocked(ls, d) THEN ls ELSE Append(ls, d)

Reverse(s) == [i \in 1..Len(s) |-> s[Len(s) + 1 - i]]
\* what a call of the outermost object logs: every layer outermost first, then the function
CallLog(ls) == Reverse(ls) \o <<"f">>
MetaKept(ls) == LastOpaque(ls) = 0                          \* __name__, __qualname__, __doc__, __module__
WrappedDepth(ls) == Len(Visible(ls))                        \* length of the __wrapped__ chain

ObsFn(ls) == [log |-> CallLog(ls), marks |-> [d \in Guarded |-> d \in Marks(ls)],
              apps |-> [d \in Decorators |-> Count(ls, d)], meta |-> MetaKept(ls), wd |-> WrappedDepth(ls)]
=============================================================================
