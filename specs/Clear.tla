--------------------------------- MODULE Clear ---------------------------------
(***************************************************************************)
(* KittyImage.clear() / ITerm2Image.clear() (beyond the listed properties;  *)
(* the urwid screen of C18 relies on them): the documented argument table   *)
(* and the effect of the emitted delete command on the terminal's           *)
(* placements (Terminal.tla semantics).                                     *)
(*                                                                         *)
(* kitty:  nothing at all if the style is neither supported nor forced;     *)
(*         cursor must be a bool, z_index None or an int in the signed      *)
(*         32-bit range, now a bool (TypeError / ValueError otherwise);      *)
(*         cursor=True together with a z_index -> ValueError;                *)
(*         cursor -> delete placements intersecting the cursor cell;        *)
(*         z_index -> delete placements with that z; neither -> delete all. *)
(* iterm2: only acts on Konsole: cursor -> intersecting, else all.          *)
(* now=True writes straight to the terminal, otherwise to standard output.  *)
(***************************************************************************)
EXTENDS Terminal, Json

\* a fixed scene: three placements on a 8x4 screen, cursor at (1, 2)
Scene ==
  LET T0 == NewTerminal(8, 4, 1, 2)
      P(row, col, w, h, z) == [row |-> row, col |-> col, w |-> w, h |-> h, z |-> z, x |-> 0, proto |-> "kitty"]
  IN [T0 EXCEPT !.pl = <<P(0, 0, 3, 2, 0), P(1, 4, 2, 1, 5), P(2, 0, 8, 1, -7)>>]

ZVals == {-7, 0, 5, 9}

KittyCases ==
  [style : {"kitty"}, supported : BOOLEAN, forced : BOOLEAN, cursor : {"F", "T", "bad"},
   z : {"none", "bad", "toobig"} \cup {"z"}, zv : ZVals, now : {"F", "T", "bad"}]
ITermCases ==
  [style : {"iterm2"}, supported : {TRUE}, forced : {FALSE}, cursor : {"F", "T", "bad"},
   z : {"none"}, zv : {0}, now : {"F", "T", "bad"}, konsole : BOOLEAN]

KittyVerdict(c) ==
  IF ~c.supported /\ ~c.forced THEN "nothing"
  ELSE IF c.cursor = "bad" THEN "TypeError"
  ELSE IF c.z = "bad" THEN "TypeError"
  ELSE IF c.z = "toobig" THEN "ValueError"
  ELSE IF c.now = "bad" THEN "TypeError"
  ELSE IF c.cursor = "T" /\ c.z = "z" THEN "ValueError"
  ELSE IF c.cursor = "T" THEN "cursor"
  ELSE IF c.z = "z" THEN "z"
  ELSE "all"

ITermVerdict(c) ==
  IF c.cursor = "bad" \/ c.now = "bad" THEN "TypeError"
  ELSE IF ~c.konsole THEN "nothing"
  ELSE IF c.cursor = "T" THEN "cursor" ELSE "all"

\* placements left after the delete the verdict stands for
Remaining(v, zv) ==
  LET T == Scene IN
  CASE v = "all" -> <<>>
    [] v = "cursor" -> SelectSeq(T.pl, LAMBDA p : ~(<<AbsRow(T), T.c>> \in PlCover(p)))
    [] v = "z" -> SelectSeq(T.pl, LAMBDA p : p.z # zv)
    [] OTHER -> T.pl
=============================================================================
