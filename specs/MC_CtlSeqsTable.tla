--------------------------- MODULE MC_CtlSeqsTable ---------------------------
(***************************************************************************)
(* X05: the TABLE  (name, arguments [, completion]) -> byte string, tokens, *)
(* parser end state, for every name of the vocabulary over a boundary        *)
(* alphabet of arguments.  One TLC state per row; the invariants are the     *)
(* static laws of the vocabulary (law 1 of notes/X05.md), checked on the     *)
(* DOCUMENTED byte strings by VT.tla's parser and the single-sequence lexer  *)
(* of CtlSeqs.tla.  Every row is printed (ROW) and replayed against the real *)
(* module by harness/drivers/x05.py.                                         *)
(***************************************************************************)
EXTENDS CtlSeqsPatterns, Json

VARIABLES row, done
vars == <<row, done>>

Counts == {0, 1, 2, 9, 10, 255, 65535}
BuilderArgs == {-1, 0, 1, 2, 10, 65535}
Chan == {0, 7, 255}
RGBs == {<<r, g, b>> : r \in Chan, g \in Chan, b \in Chan}
ZIdx == {0, 1, 5, -1, 2147483647, -2147483647}
Modes == {1, 25, 1049, 2026}
WinOps == {14, 16, 18}
OscPs == {4, 10, 11}
DelChars == {"A", "a", "C", "c"}
ColourSpecs == {
  <<"r", "g", "b", ":", "0", "/", "0", "/", "0">>,
  <<"r", "g", "b", ":", "f", "/", "F", "/", "8">>,
  <<"r", "g", "b", ":", "f", "f", "/", "0", "0", "/", "8", "0">>,
  <<"r", "g", "b", ":", "f", "f", "f", "/", "7", "f", "f", "/", "0", "0", "1">>,
  <<"r", "g", "b", ":", "f", "f", "f", "f", "/", "0", "0", "0", "0", "/", "8", "0", "8", "0">>,
  <<"r", "g", "b", ":", "8", "/", "8", "0", "/", "8", "0", "0">>,
  <<"r", "g", "b", ":", "F", "F", "F", "F", "/", "A", "b", "C", "d", "/", "1">>,
  <<"r", "g", "b", ":", "e", "/", "f", "e", "/", "f", "f", "f", "e">>}

R(op) == [op |-> op, suf |-> <<>>]

Rows ==
       {R(OpN("Ps", <<k>>)) : k \in {0, 5, 10, 2026, -3}}
  \cup {R(OpS("C", <<<<c>>>>)) : c \in {"A", "z"}}
  \cup {R(OpS("Pt", <<t>>)) : t \in {<<>>, <<"a", "=", "d">>}}
  \cup {R(OpN("Pm", ns)) : ns \in {<<>>, <<1>>, <<1, 2, 3>>, <<255, 0, 7, 9>>}}
  \cup {R(Op0(nm)) : nm \in Fragments \cup Constants}
  \cup {[op |-> Completions[i].op, suf |-> Completions[i].suf] : i \in 1..Len(Completions)}
  \cup {R(OpN(nm, <<k>>)) : nm \in {"ERASE_CHARS", "CURSOR_UP", "CURSOR_DOWN", "CURSOR_FORWARD", "CURSOR_BACKWARD"},
                            k \in Counts}
  \cup {R(OpN(nm, <<k>>)) : nm \in Builders, k \in BuilderArgs}
  \cup {R(OpS("SGR", <<SgrTexts[i].s>>)) : i \in 1..Len(SgrTexts)}
  \cup {R(OpN(nm, c)) : nm \in {"SGR_FG_DIRECT", "SGR_BG_DIRECT", "SGR_FG_DIRECT_2", "SGR_BG_DIRECT_2"}, c \in RGBs}
  \cup {R(OpN(nm, <<k>>)) : nm \in {"DECSET", "DECRST"}, k \in Modes}
  \cup {R(OpN("XTWINOPS_1", <<k>>)) : k \in WinOps}
  \cup {R(Op("TEXT_PARAM_SET", <<SetTexts[i].n>>, <<SetTexts[i].s>>)) : i \in 1..Len(SetTexts)}
  \cup {R(OpN("TEXT_PARAM_QUERY", <<k>>)) : k \in OscPs}
  \cup {R(KittyRows[i].op) : i \in 1..Len(KittyRows)}
  \cup {R(OpS("KITTY_DELETE", <<<<c>>>>)) : c \in DelChars}
  \cup {R(DeleteExtraRows[i].op) : i \in 1..Len(DeleteExtraRows)}
  \cup {R(OpN("KITTY_DELETE_Z_INDEX", <<z>>)) : z \in ZIdx}
  \cup {R(OpS("x_parse_color", <<spec>>)) : spec \in ColourSpecs}

\* the parser event a token kind is dispatched by
EventOf(t) ==
  CASE t.k \in {"kitty", "iterm", "osc", "apc", "dcs"} -> "strend"
    [] t.k = "st" -> "st"
    [] t.k = "bel" -> "exec"
    [] OTHER -> "csid"

Init == row \in Rows /\ done = FALSE
Next == ~done /\ done' = TRUE /\ UNCHANGED row
Spec == Init /\ [][Next]_vars

(* ---- law 1, static part ---------------------------------------------------- *)
\* every sequence is accepted by the VT.tla parser as exactly ONE complete sequence of the
\* intended kind (or nothing at all for a builder with a count <= 0), back in ground state;
\* an introducer dispatches nothing and leaves the parser in the intended state
OneSequenceEach ==
  ~(IsValue(row) \/ IsText(row)) =>
    LET p == ParseVT(RowBytes(row))
        w == RowWant(row) IN
    /\ p.ev = [i \in 1..Len(w.toks) |-> EventOf(w.toks[i])]
    /\ Len(w.toks) <= 1
    /\ [st |-> p.st, k |-> p.k] = RowEnd(row)

\* ... with the intended parameters: the lexer's reading of the documented bytes is the
\* intended token
IntendedParameters ==
  ~(IsValue(row) \/ IsText(row)) =>
    LET l == LexOne(RowBytes(row)) IN
    SameTokens(l, RowWant(row)) /\ l.end = RowEnd(row)

\* the placeholders are plain printf conversions: what they produce is ordinary text for the
\* terminal's parser (so a template's own bytes decide the kind of the sequence)
PlaceholdersArePlainText ==
  IsText(row) => LET p == ParseVT(RowBytes(row)) IN
                 p.st = "ground" /\ \A i \in 1..Len(p.ev) : p.ev[i] = "print"

\* the builder functions: nothing for a count <= 0, else exactly the template
BuildersGuardZero ==
  row.op.name \in Builders =>
    LET k == row.op.n[1]
        tmpl == CASE row.op.name = "cursor_up" -> "CURSOR_UP" [] row.op.name = "cursor_down" -> "CURSOR_DOWN"
                  [] row.op.name = "cursor_forward" -> "CURSOR_FORWARD" [] OTHER -> "CURSOR_BACKWARD" IN
    IF k <= 0 THEN RowBytes(row) = <<>> ELSE RowBytes(row) = Bytes(OpN(tmpl, <<k>>))

\* the specific names are instances of the generic templates they are documented to be
InstancesOfTheirTemplates ==
  /\ Bytes(Op0("SGR_DEFAULT")) = Bytes(OpS("SGR", <<<<>>>>))
  /\ Bytes(Op0("SHOW_CURSOR")) = Bytes(OpN("DECSET", <<25>>))
  /\ Bytes(Op0("HIDE_CURSOR")) = Bytes(OpN("DECRST", <<25>>))
  /\ Bytes(Op0("BEGIN_SYNCED_UPDATE")) = Bytes(OpN("DECSET", <<2026>>))
  /\ Bytes(Op0("END_SYNCED_UPDATE")) = Bytes(OpN("DECRST", <<2026>>))
  /\ Bytes(Op0("TEXT_AREA_SIZE_PX")) = Bytes(OpN("XTWINOPS_1", <<14>>))
  /\ Bytes(Op0("CELL_SIZE_PX")) = Bytes(OpN("XTWINOPS_1", <<16>>))
  /\ Bytes(Op0("TEXT_FG_QUERY")) = Bytes(OpN("TEXT_PARAM_QUERY", <<10>>))
  /\ Bytes(Op0("TEXT_BG_QUERY")) = Bytes(OpN("TEXT_PARAM_QUERY", <<11>>))
  /\ Bytes(Op0("KITTY_DELETE_ALL")) = Bytes(OpS("KITTY_DELETE", <<<<"A">>>>))
  /\ Bytes(Op0("KITTY_DELETE_CURSOR")) = Bytes(OpS("KITTY_DELETE", <<<<"C">>>>))
  /\ Bytes(OpN("KITTY_DELETE_Z_INDEX", <<5>>)) = Bytes(OpS("KITTY_DELETE_EXTRA", <<<<"Z">>, KV("z", Dec(5))>>))
  /\ Bytes(Op0("KITTY_SUPPORT_QUERY")) = Bytes(OpS("KITTY_TRANSMISSION", <<SupportQueryCtl, AAAA>>))
  /\ Bytes(Op0("KITTY_END_CHUNKED")) = Bytes(OpS("KITTY_TRANSMISSION", <<Ctl(<<KV("q", Dec(1)), KV("m", Dec(0))>>), <<>>>>))

\* x_parse_color on the documented syntax
ColourValues ==
  IsValue(row) =>
    LET spec == row.op.s[1]
        c == Components(spec) IN
    /\ RgbShape(spec)
    /\ \A i \in 1..3 : ChannelLo(c[i]) <= ChannelHi(c[i])
    /\ \A i \in 1..3 : (AllIn(c[i], {"f", "F"}) => ChannelLo(c[i]) = 255 /\ ChannelHi(c[i]) = 255)
    /\ \A i \in 1..3 : (AllIn(c[i], {"0"}) => ChannelLo(c[i]) = 0 /\ ChannelHi(c[i]) = 0)
    /\ \A i \in 1..3 : (Len(c[i]) = 2 => ChannelLo(c[i]) = HexNat(c[i]) /\ ChannelHi(c[i]) = HexNat(c[i]))

\* every name of the vocabulary that denotes bytes has a row
ASSUME \A nm \in Placeholders \cup Encoded \cup Functions : \E r \in Rows : r.op.name = nm
ASSUME Names \cap {"type"} = {}
ASSUME PrintT(<<"NAMES", ToJson([nm \in Names |-> Sort(nm)])>>)
ASSUME PrintT(<<"HOW", ToJson([nm \in Names \cup {"type"} |-> How(nm)])>>)

RowJson(r) ==
  LET w == RowWant(r) IN
  [op |-> r.op, suf |-> r.suf, sort |-> Sort(r.op.name), how |-> How(r.op.name),
   bytes |-> RowBytes(r),
   want |-> [toks |-> w.toks, gfx |-> w.gfx, end |-> RowEnd(r)],
   vlo |-> IF IsValue(r) THEN [i \in 1..3 |-> ChannelLo(Components(r.op.s[1])[i])] ELSE <<>>,
   vhi |-> IF IsValue(r) THEN [i \in 1..3 |-> ChannelHi(Components(r.op.s[1])[i])] ELSE <<>>]
Dump == done \/ PrintT(<<"ROW", ToJson(RowJson(row))>>)
=============================================================================
