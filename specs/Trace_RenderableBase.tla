------------------------ MODULE Trace_RenderableBase ------------------------
(***************************************************************************)
(* X06, code -> spec.  Each trace is one history of operations on a REAL    *)
(* instance of a probe render class (a subclass of Renderable that records   *)
(* every hook call), recorded at the return of every call:                  *)
(*   Tr.hook, Tr.w, Tr.h   the class: what `_get_frame_count_` answers, the   *)
(*                         render size of a fresh instance                    *)
(*   ev.op    the operation (RenderableBase!Op)                               *)
(*   ev.r     what was observed of the call, in the shape of RenderableBase!R0 *)
(*   ev.obs   the passive projection of the instance after the call           *)
(*   ev.by    the passive projection of a BYSTANDER instance of the same class *)
(*            (constructed with (3, 7), moved to frame 1) - it must never move *)
(*   Tr.fr    Frame objects seen in the history and copies / variants of      *)
(*            them, with the observed ==, hash, str and mutation outcomes     *)
(* The expected result and successor state come from RenderableBase!Do alone; *)
(* a step is total and the verdict names the first failing clause and event.  *)
(***************************************************************************)
EXTENDS RenderableBase, TLC, Json, IOUtils

Traces == JsonDeserialize(IOEnv.TRACE_FILE)

VARIABLES tid, l, s, verdict, at
vars == <<tid, l, s, verdict, at>>

Tr == Traces[tid]
NEv == Len(Tr.ev)

\* the bystander: Cls(3, 7) moved to frame 1, never touched again
By == LET c == DoConstruct(New(Tr.hook, Tr.w, Tr.h), I(3), I(7)).s IN Passive(DoSeek(c, 1).s)

DataClause(e, g) ==
  IF g.same # e.same THEN "data.identity: `_render_` did not receive the data `_get_render_data_` created"
  ELSE IF g.fin # e.fin THEN "data.finalized-early: the data was already finalized when it was used"
  ELSE IF g.off # e.off THEN "data.frame_offset: not the current frame (tell())"
  ELSE IF g.wh # e.wh THEN "data.seek_whence: not START"
  ELSE IF <<g.w, g.h>> # <<e.w, e.h>> THEN "data.size: not what `_get_render_size_()` answers"
  ELSE IF g.dur # e.dur THEN "data.duration: not the frame_duration setting (uninitialized if non-animated)"
  ELSE IF g.iter # e.iter THEN "data.iteration: wrong kind of render operation"
  ELSE IF g.tag # e.tag THEN "data.args: `_render_` did not receive the render arguments given (defaults if none)"
  ELSE "data: differs"

FrameClause(e, g) ==
  IF g.num # e.num THEN "frame.number: not the current frame"
  ELSE IF g.dur # e.dur THEN "frame.duration: not the duration `_render_` produced for the current setting"
  ELSE IF <<g.bw, g.bh>> # <<e.bw, e.bh>> THEN "frame.output-size: the output is not a render of the current render size"
  ELSE IF g.shown # e.shown THEN "frame.output-frame: the output shows another frame"
  ELSE IF g.tag # e.tag THEN "frame.output-args: the output was rendered with other render arguments"
  ELSE IF g.ml # e.ml THEN "frame.padding: the output is not padded as asked"
  ELSE IF <<g.w, g.h>> # <<e.w, e.h>> THEN "frame.render_size: not the (padded) render size"
  ELSE "frame: differs"

StateClause(e, g) ==
  IF g.anim # e.anim THEN "state.animated"
  ELSE IF g.tell # e.tell THEN "state.tell: the current frame"
  ELSE IF g.dur # e.dur THEN "state.frame_duration"
  ELSE IF <<g.w, g.h>> # <<e.w, e.h>> THEN "state.render_size"
  ELSE IF g.calls # e.calls \/ g.evals # e.evals THEN "state.evaluations: calls of `_get_frame_count_` so far"
  ELSE IF g.live # e.live THEN "state.unfinalized-data: render data created and never finalized"
  ELSE "state: differs"

Clause(st, ev) ==
  IF ~WellFormedOp(st, ev.op) THEN "trace-malformed: operation does not fit the state"
  ELSE
  LET d == Do(st, ev.op)
      e == d.r
      g == ev.r
      p == Passive(d.s)
  IN IF g.res # e.res
       THEN (IF e.res = "ok" THEN "rejected: raised " \o g.res \o " although the operation is documented to succeed"
             ELSE IF g.res = "ok" THEN "accepted: succeeded although " \o e.res \o " is documented"
             ELSE "exception: raised " \o g.res \o ", documented " \o e.res)
     ELSE IF g.val # e.val THEN "value: the returned value"
     ELSE IF g.ncount # e.ncount THEN "count-evaluations: calls of `_get_frame_count_` during the operation"
     ELSE IF g.hooks # e.hooks THEN "protocol: data created / frame rendered / handler / data finalized"
     ELSE IF g.nsize # e.nsize THEN "size-reads: calls of `_get_render_size_` during the operation"
     ELSE IF g.data # e.data THEN DataClause(e.data, g.data)
     ELSE IF g.hdl # e.hdl THEN "handler: `_handle_interrupted_draw_` call (live data, stream, no effect of the base implementation)"
     ELSE IF g.frame # e.frame THEN FrameClause(e.frame, g.frame)
     ELSE IF ev.obs # p THEN (IF Rejected(e) THEN "rejected-changed-" ELSE "") \o StateClause(p, ev.obs)
     ELSE IF ev.by # By THEN "bystander: another instance of the class changed"
     ELSE "ok"

Init ==
  /\ tid \in 1..Len(Traces)
  /\ l = 0
  /\ s = New(Traces[tid].hook, Traces[tid].w, Traces[tid].h)
  /\ verdict = IF ValidHook(Traces[tid].hook) /\ Traces[tid].by0 = By THEN "ok"
               ELSE "bystander: a fresh instance does not show what it was constructed with"
  /\ at = 0

Step ==
  /\ l < NEv
  /\ l' = l + 1
  /\ UNCHANGED tid
  /\ IF verdict # "ok" THEN UNCHANGED <<s, verdict, at>>
     ELSE LET ev == Tr.ev[l + 1]
              v == Clause(s, ev)
          IN /\ verdict' = v
             /\ at' = IF v # "ok" THEN l + 1 ELSE at
             /\ s' = IF v = "ok" THEN Do(s, ev.op).s ELSE s

\* after the last event: the Frame objects of the history as values (L12)
Finish ==
  /\ l = NEv
  /\ l' = NEv + 1
  /\ verdict' = IF verdict # "ok" THEN verdict ELSE FrameLaws(Tr.fr)
  /\ at' = IF verdict = "ok" /\ FrameLaws(Tr.fr) # "ok" THEN NEv + 1 ELSE at
  /\ UNCHANGED <<tid, s>>

Next == Step \/ Finish
Spec == Init /\ [][Next]_vars

Done == l = NEv + 1
Report ==
  Done => PrintT(<<"VERDICT", ToJson([tid |-> tid, verdict |-> verdict, at |-> at, n |-> NEv,
                                      op |-> IF at >= 1 /\ at <= NEv THEN Tr.ev[at].op.name ELSE "frames",
                                      frames |-> Len(Tr.fr.f)])>>)
\* the model state stays sane whatever the trace says
ModelSane == s.evals <= 1 /\ s.nlive = 0
=============================================================================
