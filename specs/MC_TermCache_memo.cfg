SPECIFICATION Spec
CONSTANTS
  Sizes <- S1
  Pixels <- P1
  Ratios <- R1
  XtModes = {"text"}
  IoPx = {FALSE}
  Ops = {"memo"}
  Faults = {"kbd", "exc"}
  Variant = "code"
INVARIANT TypeOK
INVARIANT CellFresh
INVARIANT RatioFresh
INVARIANT FixedSnapshot
INVARIANT MemoFresh
INVARIANT FaultFresh
INVARIANT BodyOnce
CHECK_DEADLOCK FALSE
