------------------------------ MODULE BlockSem ------------------------------
(***************************************************************************)
(* C02: what a character cell of a block-style render SHOWS.               *)
(*                                                                         *)
(* A block render paints every cell with one of three glyphs (classes of   *)
(* harness/lexer.py): "up" = U+2580 UPPER HALF BLOCK, "lo" = U+2584 LOWER   *)
(* HALF BLOCK, "sp" = SPACE.  On a direct-colour terminal (Terminal.tla:   *)
(* a printed cell records the SGR foreground/background in force) the      *)
(* upper half of a cell shows the foreground iff the glyph is the upper    *)
(* block, else the background; the lower half analogously.                 *)
(*                                                                         *)
(* A DISPLAYED VALUE is an RGB triple <<r, g, b>> (an opaque pixel) or     *)
(* DefaultColor = <<>> ("the terminal's own background": a transparent     *)
(* pixel).  Only the default background shows the terminal's own           *)
(* background: an explicit colour that happens to equal the reported       *)
(* background colour does not (background images / opacity), and the       *)
(* default FOREGROUND never does.                                          *)
(*                                                                         *)
(* Documented deviation (DESIGN 2.5): the kitty terminal does not paint a  *)
(* background colour equal to its default background, therefore ON KITTY,  *)
(* with the terminal background known, a half that is shown through the    *)
(* cell BACKGROUND and whose value equals the terminal background must be  *)
(* emitted with the red component moved by one (r+1, or r-1 for r = 255).  *)
(* kitty = FALSE or tbg = <<>> (unknown) disables the deviation.           *)
(***************************************************************************)
EXTENDS Terminal

BlockGlyphs == {"up", "lo", "sp"}

ViaFg(g, half) == (g = "up" /\ half = "u") \/ (g = "lo" /\ half = "l")

HalfColour(cell, half) == IF ViaFg(cell.g, half) THEN cell.fg ELSE cell.bg

KittyAdjust(c) == <<IF c[1] < 255 THEN c[1] + 1 ELSE c[1] - 1, c[2], c[3]>>

\* the colour a BACKGROUND slot must hold to show opaque value v
BgFor(kitty, tbg, v) == IF kitty /\ v = tbg THEN KittyAdjust(v) ELSE v

HalfShows(kitty, tbg, cell, half, v) ==
  /\ cell.g \in BlockGlyphs
  /\ IF v = DefaultColor
       THEN ~ViaFg(cell.g, half) /\ cell.bg = DefaultColor
       ELSE IF ViaFg(cell.g, half) THEN cell.fg = v
            ELSE cell.bg = BgFor(kitty, tbg, v)

CellShows(kitty, tbg, cell, val) ==
  HalfShows(kitty, tbg, cell, "u", val[1]) /\ HalfShows(kitty, tbg, cell, "l", val[2])
=============================================================================
