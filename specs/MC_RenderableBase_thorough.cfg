\* X06 thorough: the complete state graph over larger alphabets, every edge printed
SPECIFICATION Spec
CONSTANTS
  Hooks <- HooksT
  CountArgs <- CountArgsT
  DurArgs <- DurArgsT
  SetDurs <- SetDursT
  Sizes <- SizesT
  Offs <- OffsT
  Pads <- PadsT
  MaxOps = 3
  DumpEdges = TRUE
VIEW View
CONSTRAINT Bound
ACTION_CONSTRAINT Dump
INVARIANT InitDump
INVARIANT TypeOK
INVARIANT ConstructedValid
INVARIANT AnimatedIsCountNotOne
INVARIANT DurationIffAnimated
INVARIANT EvaluatedAtMostOnce
INVARIANT EvaluatedOnlyIfPostponed
INVARIANT ResolvedIffEvaluated
INVARIANT HookConsultedOnlyWhilePostponed
INVARIANT HookCallsWhenImplemented
INVARIANT FrameInRange
INVARIANT DataBalanced
PROPERTY EveryResultWellTyped
PROPERTY EveryRenderShowsCurrentState
PROPERTY EveryRenderFollowsProtocol
PROPERTY EveryInitRenderFinalizesIffAsked
PROPERTY RejectedChangesNothing
PROPERTY ReadsChangeNothing
PROPERTY EvaluationIsFinal
PROPERTY OnlyEvaluatorsEvaluate
PROPERTY SetDurationTakesEffect
PROPERTY OnlySetterChangesDuration
PROPERTY OnlySeekMovesFrame
PROPERTY AnimatedNeverChanges
CHECK_DEADLOCK FALSE
