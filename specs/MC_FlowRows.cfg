SPECIFICATION Spec
CONSTANTS
  Ratios = {1, 2, 4}
  Widths = {1, 2, 3, 5, 8}
  Depth = 6
CONSTRAINT Bounded
INVARIANT AnnouncedRowsAreRendered
INVARIANT PlaceholderReplacesFailure
CHECK_DEADLOCK FALSE
