"""Design-level model of draw(): specs/Draw.tla checked by TLC (MC_Draw.cfg), and the
operation log of the REAL Renderable.draw() compared with the specified program (spec -> code)."""

from __future__ import annotations

from . import drawkit, lexer, tlc
from .core import Report

KIND = {"write": "W", "flush": "F", "sleep": "S", "render": "R"}


def real_program(ops):
    prog = []
    for kind, data in ops:
        toks = []
        if kind == "write" and data:
            st = lexer.lex(data)
            toks = [t for t in st.toks]
        prog.append({"op": KIND[kind], "toks": toks})
    return prog


def _finalizations(rep: Report, spec_prog, r, case, fault) -> None:
    """Draw.tla: the program of every run (clean / cut at operation k) contains Z - the render data
    is finalized - exactly as often as the REAL draw() finalized the live render data before it
    returned or raised (marks recorded by the probe while draw() was running)."""
    want = sum(1 for o in spec_prog if o["op"] == "Z")
    real = sum(1 for m in r.get("marks", []) if m[0] == "finalize")
    if real != want or not r.get("fin_live", True):
        at = f"a Ctrl-C at operation #{fault['k']} ({r['ops'][fault['k'] - 1][0]})" if fault else "a clean run"
        rep.violation(
            "new-api:draw:interrupted-finalize" if fault else "new-api:draw:finalize",
            f"after {at} the real draw() finalized its render data {real} time(s) before it was over "
            f"(live instance finalized: {r.get('fin_live')}), Draw.tla specifies {want} (op Z of the "
            f"clean-up program) for {case}",
            {"kind": "fault", "case": case, "fault": fault, "expect": "n/a"} if fault
            else {"kind": "draw", "case": dict(case, r0=0)},
        )


def check(rep: Report, what: str = "clean") -> None:
    """what = "clean": C06 (program of uninterrupted draws); "interrupted": C07 (clean-up programs)."""
    if what == "clean":
        cfg = "MC_Draw.cfg" if rep.tier == "quick" else "MC_Draw_thorough.cfg"
    else:
        cfg = "MC_Draw_small.cfg" if rep.tier == "quick" else "MC_Draw.cfg"
    res = tlc.run("MC_Draw", cfg, workers=8, timeout=1500)
    rep.add_tlc(res)
    rep.extra["mc_draw"] = {"states": res.distinct, "generated": res.generated, "cfg": cfg}
    if res.violated:
        rep.violation(f"design:Draw:{res.violated}", res.error_text[:2000], {"kind": "design"})
        return
    progs = res.tagged("PROG")
    if len(progs) < 20:
        raise tlc.MachineryError(f"only {len(progs)} PROG lines from MC_Draw")
    for pr in progs if what == "clean" else []:
        c = pr["c"]
        case = dict(api="new", rw=c["rw"], rh=c["rh"], frames=c["frames"], loops=c["loops"], cache=False,
                    pad={"kind": "exact", "l": c["l"], "t": c["t"], "r": c["r"], "b": c["b"],
                         "fill": " " if c["fill"] else ""},
                    cols=c["cols"], rows=c["rows"], tty=c["tty"], r0=0, animate=True,
                    hide_cursor=True, echo_input=True)
        rep.evaluations += 1
        rep.traces_validated += 1
        r = drawkit.run_new(case)
        real = real_program(r["ops"])
        # Z (render data finalized) is counted, its position is not part of the choreography
        want = [{"op": o["op"], "toks": list(o["toks"])} for o in pr["prog"] if o["op"] != "Z"]
        rep.distinct.add(("prog", tuple(sorted(c.items()))))
        _finalizations(rep, pr["prog"], r, case, None)
        if real != want:
            i = next((i for i, (a, b) in enumerate(zip(real, want)) if a != b), min(len(real), len(want)))
            rep.violation(
                "new-api:draw:choreography",
                f"operation #{i + 1} of the real draw() differs from the program specified in Draw.tla: "
                f"real {real[i] if i < len(real) else None}, specified {want[i] if i < len(want) else None} "
                f"({len(real)} vs {len(want)} operations) for {case}",
                {"kind": "draw", "case": dict(case, r0=0)},
            )
    # interrupted runs: the operations issued AFTER a Ctrl-C at body operation k must be exactly
    # the clean-up program Draw.tla specifies for that k (first_frame_written or not)
    for pr in progs if what == "interrupted" else []:
        c = pr["c"]
        if c["r0"] != 0:
            continue
        case = dict(api="new", rw=c["rw"], rh=c["rh"], frames=c["frames"], loops=c["loops"], cache=False,
                    pad={"kind": "exact", "l": c["l"], "t": c["t"], "r": c["r"], "b": c["b"],
                         "fill": " " if c["fill"] else ""},
                    cols=c["cols"], rows=c["rows"], tty=c["tty"], r0=0, animate=True,
                    hide_cursor=True, echo_input=True)
        for k in range(1, pr["nbody"] + 1):
            r = drawkit.run_new(case, dict(k=k, p=0, kind="kbint"))
            rep.evaluations += 1
            if not r["fired"]:
                continue
            real = real_program(r["ops"])[k:]
            want = [{"op": o["op"], "toks": list(o["toks"])} for o in pr["cleanups"][k - 1] if o["op"] != "Z"]
            rep.distinct.add(("cleanup", tuple(sorted(c.items())), k))
            _finalizations(rep, pr["cleanups"][k - 1], r, case, dict(k=k, p=0, kind="kbint"))
            if real != want:
                rep.violation(
                    "new-api:draw:interrupted-cleanup",
                    f"after a Ctrl-C at operation #{k} ({r['ops'][k - 1][0]}) the real draw() issued "
                    f"{[(o['op'], [t['k'] + str(t['n']) for t in o['toks']]) for o in real]}, Draw.tla specifies "
                    f"{[(o['op'], [t['k'] + str(t['n']) for t in o['toks']]) for o in want]} for {case}",
                    {"kind": "fault", "case": case, "fault": dict(k=k, p=0, kind="kbint"), "expect": "n/a"},
                )
    rep.sample({"draw_program": {"params": progs[0]["c"], "ops": [o["op"] for o in progs[0]["prog"]]}})


# ---------------------------------------------------------------------------------------
# old API (BaseImage.draw): DrawOld.tla


def _merged_program(ops, frame_strings):
    """Merge consecutive writes, drop empty ones, abstract formatted frames to placeholders."""
    prog, buf = [], []

    def flush_buf():
        if buf:
            data = "".join(buf)
            buf.clear()
            for i, fs in enumerate(frame_strings):
                data = data.replace(fs, chr(0xE000 + i))
            prog.append({"op": "W", "toks": lexer.lex(data).toks})

    for kind, data in ops:
        if kind == "write":
            if data:
                buf.append(data)
        else:
            flush_buf()
            prog.append({"op": KIND[kind], "toks": []})
    flush_buf()
    return prog


def check_old(rep: Report) -> None:
    from .env import stubs

    res = tlc.run("MC_DrawOld", "MC_DrawOld.cfg", workers=4, timeout=600)
    rep.add_tlc(res)
    if res.violated:
        rep.violation(f"design:DrawOld:{res.violated}", res.error_text[:2000], {"kind": "design"})
        return
    progs = res.tagged("PROG")
    if len(progs) < 30:
        raise tlc.MachineryError(f"only {len(progs)} PROG lines from MC_DrawOld")
    for pr in progs:
        c = pr["c"]
        # lines = padded height: a 1-line image with pad_height = lines, bottom-aligned
        case = dict(api="old", style="block", ident="other", frames=c["frames"], rw=2, rh=1,
                    h_align="<", pad_width=2, v_align="_", pad_height=c["lines"], repeat=c["repeat"],
                    cached=c["cached"], cols=8, rows=6, tty=c["tty"], r0=0, method=None, cell=None)
        rep.evaluations += 1
        rep.traces_validated += 1
        r = drawkit.run_old(case)
        # the formatted frames, exactly as draw() formats them (same padding arguments)
        stubs.set_identity("other")
        stubs.set_term(size=(8, 6))
        from . import renderkit

        cls = renderkit.image_class("block")
        img = cls.from_file(r["path"], width=2, height=1)
        frames = []
        for i in range(c["frames"]):
            if c["frames"] > 1:
                img.seek(i)
            frames.append(format(img, f"<2._{c['lines']}"))
        img.close()
        real = _merged_program(r["ops"], frames)
        want = [{"op": o["op"], "toks": list(o["toks"])} for o in pr["prog"]]
        rep.distinct.add(("prog-old", tuple(sorted(c.items()))))
        if r["outcome"] != "ok" or real != want:
            i = next((i for i, (a, b) in enumerate(zip(real, want)) if a != b), min(len(real), len(want)))
            short = lambda o: (o["op"], [t["k"] + (str(t["n"]) if t["n"] >= 0 else "") for t in o["toks"]]) if o else None  # noqa: E731
            rep.violation(
                "old-api:draw:choreography",
                f"operation #{i + 1} of the real BaseImage.draw() differs from the program specified in "
                f"DrawOld.tla: real {short(real[i]) if i < len(real) else None}, specified "
                f"{short(want[i]) if i < len(want) else None} ({len(real)} vs {len(want)} operations, "
                f"outcome {r['outcome']}) for {c}",
                {"kind": "draw", "case": dict(case, r0=0)},
            )
    rep.sample({"draw_old_program": {"params": progs[-1]["c"], "ops": [o["op"] for o in progs[-1]["prog"]]}})
