---------------------------- MODULE GlobalConfig ----------------------------
(***************************************************************************)
(* X03: the process-global configuration of term-image                      *)
(* (src/term_image/__init__.py and the parts of utils.py it drives).        *)
(*                                                                         *)
(* State = the five settings                                               *)
(*   cr       the cell-ratio setting: a fraction (explicit value or FIXED   *)
(*            snapshot), NaN, or Nil = DYNAMIC                              *)
(*   sup      AutoCellRatio.is_supported: "unknown" (None) | "yes" | "no"   *)
(*   queries  terminal queries enabled                                      *)
(*   swap     win-size-swap workaround enabled                              *)
(*   tmo      query timeout (units of 1/40960 s)                            *)
(* plus what the documented caching remembers (`det`: the last cell-size    *)
(* determination, `memo`: the answers of the memoized query functions) and  *)
(* the scripted terminal (`world`: is there an active terminal, is          *)
(* TERM_PROGRAM set; `term`: its current profile).                          *)
(*                                                                         *)
(* One named action per public operation, including every way a call is     *)
(* rejected.  `out` holds the last operation with arguments, observable     *)
(* result (value, exception, requests written to the terminal, virtual time *)
(* spent) and the name of the law that governs the result.  The laws are    *)
(* stated at the end as invariants over (state, out) and action properties. *)
(***************************************************************************)
EXTENDS GlobalConfigCore, FiniteSets, TLC

CONSTANTS
  Profiles,    \* set of terminal profiles (GlobalConfigCore)
  Floats,      \* set of <<n, d>>: explicit ratios offered to set_cell_ratio()
  Tmos,        \* set of timeouts offered to set_query_timeout()
  DefaultTmo,  \* DEFAULT_QUERY_TIMEOUT (0.1 s = 4096 units)
  NonPos,      \* classes of non-positive numbers offered to the setters
  WrongTypes,  \* classes of non-numbers offered to the setters
  TtyWorlds,   \* subset of BOOLEAN: is there an active terminal
  ProgWorlds,  \* subset of BOOLEAN: are TERM_PROGRAM / TERM_PROGRAM_VERSION set
  Ops,         \* groups of operations explored: "ratio", "support", "cell", "swap", "queries",
               \* "timeout", "probe", "memo", "switch", "odd"
  Variant      \* "code" or a seeded regression of the model

ASSUME \A p \in Profiles : WellFormedProfile(p)
ASSUME \A t \in Tmos \cup {DefaultTmo} : t > 0 /\ \A p \in Profiles : p.delay # t
ASSUME \A r \in Floats : r[1] > 0 /\ r[2] > 0

(* "While enabled, the window dimensions reported by the active terminal    *)
(* are swapped": a determination with the workaround equals one without it  *)
(* on the terminal whose window is transposed - unless the terminal         *)
(* reported its cell size itself.                                           *)
ASSUME SwapIsTranspose ==
  \A p \in Profiles, q \in BOOLEAN, t \in Tmos \cup {DefaultTmo} :
    LET a == Determine(p, TRUE, q, t)
        b == Determine(Transposed(p), FALSE, q, t)
        c == Determine(p, FALSE, q, t) IN
    /\ a.w = c.w /\ a.dt = c.dt
    /\ IF a.fromWin THEN a.cell = b.cell ELSE a.cell = c.cell

VARIABLES
  s,     \* the state record of GlobalConfigCore: world, term, cr, sup, queries, swap, tmo, det, memo
  out    \* the last operation and its observable outcome (GlobalConfigCore!Outcome)

vars == <<s, out>>
View == s

Op(op, sub, arg) == [op |-> op, sub |-> sub, arg |-> arg]

\* perform operation o: the step function of GlobalConfigCore
Do(o) ==
  LET r == Apply(s, o, DefaultTmo, Variant) IN
  /\ s' = r.s
  /\ out' = r.out

Init ==
  /\ \E w \in [tty : TtyWorlds, termprog : ProgWorlds], p \in Profiles :
       \* without a terminal the profile is immaterial
       /\ IF w.tty THEN TRUE ELSE p = CHOOSE q \in Profiles : TRUE
       /\ s = InitState(w, p, DefaultTmo)
  /\ out = Outcome(Op("init", "", <<>>), <<>>, "", "", 0, 0, "Defaults")

-----------------------------------------------------------------------------
(* one named action per public operation (and per way a call is rejected)   *)

\* the environment: the terminal is resized / reconfigured / slows down
Switch ==
  "switch" \in Ops /\ s.world.tty /\ \E p \in Profiles \ {s.term} : Do(Op("Switch", p.xt, ProfileArg(p)))

\* set_cell_ratio(<positive number>)
SetRatioFloat ==
  "ratio" \in Ops /\ \E r \in Floats : Do(Op("SetRatioFloat", IF r[2] = 1 THEN "int" ELSE "float", r))
\* set_cell_ratio(<non-positive number>): ValueError
SetRatioNonPositive ==
  "ratio" \in Ops /\ \E v \in NonPos : Do(Op("SetRatioNonPositive", v, <<>>))
\* set_cell_ratio(<not a number>): rejected
SetRatioWrongType ==
  "ratio" \in Ops /\ \E v \in WrongTypes : Do(Op("SetRatioWrongType", v, <<>>))
\* set_cell_ratio(nan): accepted (deviation)
SetRatioNaN ==
  "ratio" \in Ops /\ "odd" \in Ops /\ Do(Op("SetRatioNaN", "nan", <<>>))
\* set_cell_ratio(AutoCellRatio.FIXED | AutoCellRatio.DYNAMIC)
SetRatioAuto ==
  "ratio" \in Ops /\ \E m \in {"FIXED", "DYNAMIC"} : Do(Op("SetRatioAuto", m, <<>>))
\* get_cell_ratio()
GetRatio ==
  "ratio" \in Ops /\ Do(Op("GetRatio", "", <<>>))
\* AutoCellRatio.is_supported = True | False | None
SetSupport ==
  "support" \in Ops /\ \E v \in {"yes", "no", "unknown"} : Do(Op("SetSupport", v, <<>>))
\* utils.get_cell_size()
GetCellSize ==
  "cell" \in Ops /\ Do(Op("GetCellSize", "", <<>>))
EnableQueries == "queries" \in Ops /\ Do(Op("EnableQueries", "", <<>>))
DisableQueries == "queries" \in Ops /\ Do(Op("DisableQueries", "", <<>>))
EnableSwap == "swap" \in Ops /\ Do(Op("EnableSwap", "", <<>>))
DisableSwap == "swap" \in Ops /\ Do(Op("DisableSwap", "", <<>>))
\* set_query_timeout(<positive number>)
SetTimeout ==
  "timeout" \in Ops /\ \E t \in Tmos : Do(Op("SetTimeout", "", <<t>>))
SetTimeoutNonPositive ==
  "timeout" \in Ops /\ \E v \in NonPos : Do(Op("SetTimeoutNonPositive", v, <<>>))
SetTimeoutWrongType ==
  "timeout" \in Ops /\ \E v \in WrongTypes : Do(Op("SetTimeoutWrongType", v, <<>>))
SetTimeoutNaN ==
  "timeout" \in Ops /\ "odd" \in Ops /\ Do(Op("SetTimeoutNaN", "nan", <<>>))
\* utils.query_terminal(DA1, more = always)
QueryTerminal ==
  "probe" \in Ops /\ Do(Op("QueryTerminal", "", <<>>))
\* utils.get_fg_bg_colors(), utils.get_terminal_name_version()
GetColors == "memo" \in Ops /\ Do(Op("GetColors", "", <<>>))
GetName == "memo" \in Ops /\ Do(Op("GetName", "", <<>>))

Next ==
  \/ Switch
  \/ SetRatioFloat \/ SetRatioNonPositive \/ SetRatioWrongType \/ SetRatioNaN \/ SetRatioAuto \/ GetRatio
  \/ SetSupport \/ GetCellSize
  \/ EnableQueries \/ DisableQueries \/ EnableSwap \/ DisableSwap
  \/ SetTimeout \/ SetTimeoutNonPositive \/ SetTimeoutWrongType \/ SetTimeoutNaN
  \/ QueryTerminal \/ GetColors \/ GetName

Spec == Init /\ [][Next]_vars

-----------------------------------------------------------------------------
(* THE LAWS (docstrings of term_image/__init__.py and utils.py,            *)
(* docs/source/api/toplevel.rst, docs/source/guide/concepts.rst)           *)

TypeOK ==
  /\ s.cr = Nil \/ (Len(s.cr) = 2 /\ s.cr[1] >= 0 /\ s.cr[2] >= 0)
  /\ s.sup \in {"unknown", "yes", "no"}
  /\ s.queries \in BOOLEAN /\ s.swap \in BOOLEAN
  /\ s.tmo >= 0
  /\ s.det = Nil \/ Len(s.det) = 4
  /\ \A k \in DOMAIN s.memo : s.memo[k] \in {"miss", "real", "none"}

\* "_cell_ratio = 0.5", "is_supported = None", "Queries are enabled by default", "This workaround is
\* disabled by default", "DEFAULT_QUERY_TIMEOUT ... if never set"
Defaults ==
  out.op = "init" => s.cr = Half /\ s.sup = "unknown" /\ s.queries /\ ~s.swap /\ s.tmo = DefaultTmo

\* the settings that changed
Changed == Diff(s, s')

\* every operation changes its own setting only; getters, the environment and the query functions
\* change no setting at all
OnlyOwnSetting == [][Changed \subseteq Touches(out'.op)]_vars

\* a rejected call changes nothing - except that the first auto request determines the support status
RejectedChangesNothing ==
  [][out'.err # "" =>
       Changed \subseteq (IF out'.op = "SetRatioAuto" /\ s.sup = "unknown" THEN {"sup"} ELSE {})]_vars

\* an accepted setter stores exactly its argument
SetterStores ==
  [][/\ (out'.op = "SetRatioFloat" => s'.cr = out'.arg)
     /\ (out'.op = "SetTimeout" => s'.tmo = out'.arg[1])
     /\ (out'.op = "SetSupport" => s'.sup = out'.sub)
     /\ (out'.op = "SetRatioAuto" /\ out'.sub = "DYNAMIC" /\ out'.err = "" => s'.cr = Nil)
     /\ (out'.op \in {"EnableQueries"} => s'.queries) /\ (out'.op = "DisableQueries" => ~s'.queries)
     /\ (out'.op \in {"EnableSwap"} => s'.swap) /\ (out'.op = "DisableSwap" => ~s'.swap)]_vars

\* is_supported is determined once: afterwards only an explicit assignment changes it
SupportOnce == [][s.sup # "unknown" /\ out'.op # "SetSupport" => s'.sup = s.sup]_vars

\* ... by the first auto request, as "get_cell_size() is not None" at that moment
SupportDetermination ==
  [][s.sup = "unknown" /\ s'.sup # s.sup /\ out'.op # "SetSupport" =>
       /\ out'.op = "SetRatioAuto"
       /\ (s'.sup = "yes") = (CellNow(s'.world.tty, s'.term, s'.swap, s'.queries, s'.tmo, s'.det).cell # NoCell)]_vars

\* "TermImageError: Auto cell ratio is not supported ..." iff the status is `False`
UnsupportedRaises ==
  out.op = "SetRatioAuto" => (out.err = "TermImageError") = (s.sup = "no") /\ (out.err = "") = (s.sup = "yes")

\* FIXED: "the ratio is immediately determined from the active terminal" (fallback 1/2)
FixedSnapshot ==
  [][out'.op = "SetRatioAuto" /\ out'.sub = "FIXED" /\ out'.err = "" =>
       s'.cr = RatioOf(CellNow(s'.world.tty, s'.term, s'.swap, s'.queries, s'.tmo, s'.det).cell)]_vars

\* an explicit or FIXED ratio is returned as is, whatever the terminal does, without touching it
SetValueReturned ==
  out.op = "GetRatio" /\ s.cr # Nil => out.res = s.cr /\ out.w = 0 /\ out.dt = 0

\* DYNAMIC: the ratio of the cell size get_cell_size() reports for the terminal as it is now (1/2 if None)
DynamicFollows ==
  [][out'.op = "GetRatio" /\ s.cr = Nil =>
       out'.res = RatioOf(CellNow(s'.world.tty, s'.term, s'.swap, s'.queries, s'.tmo, s'.det).cell)]_vars

\* while queries are disabled nothing is written to the terminal and no time is spent waiting;
\* query_terminal() returns None; what was not learnt earlier is undetermined
DisabledQueries ==
  ~s.queries => /\ out.w = 0 /\ out.dt = 0
              /\ (out.op = "QueryTerminal" => out.rs = "None")
DisabledUndetermined ==
  [][~s.queries /\ ~s'.queries =>
       /\ (out'.op = "GetCellSize" /\ ~s.term.iopx /\ ~(s.det # Nil /\ s.det[1] = s.term.cols /\ s.det[2] = s.term.rows)
             => out'.res = NoCell)
       /\ (out'.op = "GetColors" /\ s.memo.colors = "miss" => out'.rs = "none")
       /\ (out'.op = "GetName" /\ s.memo.name = "miss" => out'.rs = IF s.world.termprog THEN "env" ELSE "none")]_vars

\* without an active terminal: None / undetermined, nothing asked, auto cell ratio unsupported
NoActiveTerminal ==
  ~s.world.tty =>
    /\ out.w = 0 /\ out.dt = 0
    /\ (out.op = "GetCellSize" => out.res = NoCell)
    /\ (out.op = "QueryTerminal" => out.rs = "None")
    /\ (out.op = "GetColors" => out.rs = "none")
    /\ (out.op = "GetName" => out.rs = IF s.world.termprog THEN "env" ELSE "none")
    /\ (out.op = "SetRatioAuto" => out.err = "TermImageError" \/ s.sup = "yes")
NoTerminalNoSupport ==
  [][~s.world.tty /\ s'.sup = "yes" /\ s.sup # "yes" => out'.op = "SetSupport"]_vars

\* no operation waits longer than the timeout in effect; a query that waits for the whole timeout
\* gets exactly what arrived before it elapsed
WithinTimeout == out.dt <= s.tmo
TimeoutApplies ==
  out.op = "QueryTerminal" /\ out.rs # "None" =>
    out.dt = s.tmo /\ (out.rs = "reply") = InTime(s.term, s.tmo) /\ out.w = 1
=============================================================================
