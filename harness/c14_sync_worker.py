"""C14: is every entry point of ``specs/TtySync.tla``'s ``Synchronized`` really serialized?

Run as ``python -m harness.c14_sync_worker <job.json>``.  The process adopts a pty before
importing ``term_image`` (``utils._tty_fd != -1``), answers queries from a responder thread and,
for every member it knows how to call, runs a deterministic two-thread protocol on the REAL code:

1. thread 1 enters a probe decorated with the real ``lock_tty`` and stays inside (``hold``);
2. thread 2 calls the member (``call``);
3. the main thread waits - on a condition variable, no sleeping - until thread 2 has either
   reached the member's terminal-touching layer (``touch``), returned (``return``), or is
   waiting for the terminal lock (``wait``);
4. thread 1 leaves the probe (``release``); thread 2 must now touch the terminal and return.

A second protocol checks that the member's terminal accesses form ONE critical section: the
member is called with nobody holding the lock; every time the caller has *fully* released the
terminal lock (``gap``), a third thread runs the synchronized reader ``utils.read_tty()`` to
completion before the caller goes on.  A terminal access of the caller after such an intrusion
means the member let go of the terminal in the middle (e.g. between a query and the read that
drains the rest of its reply).

Observation points (all module-level seams, no source hooks):
* ``utils._tty_lock`` is wrapped by :class:`WatchedLock` (delegates to the real lock object;
  records ``wait`` when an acquire by a thread that does not own it finds it held);
* ``utils.termios`` / ``utils.os`` / ``utils.select`` are proxies that record ``touch`` for
  tcgetattr, tcsetattr, tcdrain, read, write, select;
* for the urwid screen, ``touch`` is the entry into the inherited
  ``urwid.raw_display.Screen`` method of the same name.
The verdict is TLC's (``specs/Trace_TtySync.tla``).
"""

from __future__ import annotations

import json
import os
import sys
import threading

TIMEOUT = 20.0


class Recorder:
    def __init__(self):
        self.cv = threading.Condition()
        self.events: list[dict] = []
        self.roles: dict[int, int] = {}  # thread ident -> 1 (holder) / 2 (caller) / 3 (intruder)
        self.on_gap = None  # called when the caller has fully released the terminal lock

    def add(self, kind, what=""):
        role = self.roles.get(threading.get_ident())
        if role is None:
            return
        with self.cv:
            self.events.append({"k": kind, "t": role, "what": what})
            self.cv.notify_all()

    def wait_for(self, pred, timeout=TIMEOUT) -> bool:
        with self.cv:
            return self.cv.wait_for(lambda: pred(self.events), timeout)


REC = Recorder()


class WatchedLock:
    """The real terminal lock with its waiting made observable."""

    def __init__(self, real):
        self.real = real
        self.owner = None
        self.count = 0

    def acquire(self, blocking=True, timeout=-1):
        me = threading.get_ident()
        if self.owner is not None and self.owner != me:
            REC.add("wait", "tty lock")
        ok = self.real.acquire(blocking, timeout)
        if ok:
            self.owner = me
            self.count += 1
        return ok

    def release(self):
        self.count -= 1
        free = self.count == 0
        if free:
            self.owner = None
        self.real.release()
        if free and REC.on_gap is not None and REC.roles.get(threading.get_ident()) == 2:
            REC.on_gap()

    __enter__ = acquire

    def __exit__(self, *a):
        self.release()


class Proxy:
    """Module proxy: the listed functions record a touch, everything else passes through."""

    def __init__(self, mod, touching):
        self._mod = mod
        self._touching = touching

    def __getattr__(self, name):
        v = getattr(self._mod, name)
        if name in self._touching:
            def f(*a, **k):
                REC.add("touch", f"{self._mod.__name__}.{name}")
                return v(*a, **k)

            return f
        return v


def main():
    job = json.load(open(sys.argv[1]))
    sys.path.insert(0, job["src"])
    for k in ("TERM_PROGRAM", "TERM_PROGRAM_VERSION"):
        os.environ.pop(k, None)
    from harness.env import c15_pty

    master = c15_pty.become_pty_process(80, 24, 0, 0)  # no pixel size: get_cell_size has to query

    def answer(kind, m):
        if kind == "winop":
            return b"\x1b[4;384;640t" if m.group("winop") == b"4" else b""
        if kind == "osc":
            return b"\x1b]%d;rgb:1212/3434/5656\x1b\\" % int(m.group("osc"))
        if kind == "xtversion":
            return b"\x1bP>|verifterm(1.2.3)\x1b\\"
        if kind == "da1":
            return c15_pty.DA1_REPLY
        return b""

    resp = c15_pty.Responder(master, answer)
    resp.start()
    import warnings

    warnings.simplefilter("ignore")
    import select as select_mod
    import termios

    import urwid

    import term_image
    from term_image import utils
    from term_image.image import ITerm2Image, KittyImage
    from term_image.widget import UrwidImageScreen

    result: dict = {"members": {}, "setup": {}}
    if utils._tty_fd == -1:
        raise SystemExit("term_image did not adopt the pty")
    term_image.set_query_timeout(5.0)
    # seams
    lock = WatchedLock(utils._tty_lock)
    utils._tty_lock = lock
    from harness.env import sched as _sched

    _sched.rebind_lock_type(utils, type(lock.real), WatchedLock)
    utils.termios = Proxy(termios, {"tcgetattr", "tcsetattr", "tcdrain"})
    utils.os = Proxy(os, {"read", "write"})
    real_select = utils.select

    def select(*a, **k):
        REC.add("touch", "select.select")
        return real_select(*a, **k)

    utils.select = select
    base = urwid.raw_display.Screen
    for name in ("draw_screen", "flush", "write", "get_available_raw_input"):
        orig = getattr(base, name)

        def wrapped(self, *a, __orig=orig, __name=name, **k):
            REC.add("touch", f"urwid.raw_display.Screen.{__name}")
            return __orig(self, *a, **k)

        setattr(base, name, wrapped)

    KittyImage._supported = True
    ITerm2Image._supported = True
    ITerm2Image._TERM = "konsole"
    screen = UrwidImageScreen()
    screen.start()
    canvas = urwid.SolidFill("x").render((80, 24))

    @utils.lock_tty
    def probe(release):
        REC.add("hold")
        release.wait(TIMEOUT)
        REC.add("release")

    def fresh():
        utils.get_fg_bg_colors._invalidate_cache()
        utils.get_terminal_name_version._invalidate_cache()
        utils._cell_size_cache[:] = [0] * 4

    more_c = lambda s: not s.endswith(b"c")  # noqa: E731
    members = {
        "utils.query_terminal": lambda: utils.query_terminal(b"\x1b[c", more_c, 5.0),
        "utils.read_tty": lambda: utils.read_tty(),
        "utils.read_tty_all": lambda: utils.read_tty_all(),
        "utils.write_tty": lambda: utils.write_tty(b"\x1b[0m"),
        "utils.get_cell_size": lambda: utils.get_cell_size(),
        "utils.get_fg_bg_colors": lambda: utils.get_fg_bg_colors(),
        "utils.get_terminal_name_version": lambda: utils.get_terminal_name_version(),
        "KittyImage.clear(now=True)": lambda: KittyImage.clear(now=True),
        "ITerm2Image.clear(now=True)": lambda: ITerm2Image.clear(now=True),
        "UrwidImageScreen.clear_images(now=True)": lambda: screen.clear_images(now=True),
        "UrwidImageScreen.draw_screen": lambda: screen.draw_screen((80, 24), canvas),
        "UrwidImageScreen.flush": lambda: screen.flush(),
        "UrwidImageScreen.write": lambda: screen.write("\x1b[0m"),
        "UrwidImageScreen.get_available_raw_input": lambda: screen.get_available_raw_input(),
    }
    only = job.get("only")
    for name, call in members.items():
        if only and name not in only:
            continue
        fresh()
        with REC.cv:
            REC.events = []
            REC.roles = {}
        release = threading.Event()
        errors: list = []

        def holder():
            REC.roles[threading.get_ident()] = 1
            probe(release)

        def caller():
            REC.roles[threading.get_ident()] = 2
            REC.add("call", name)
            try:
                call()
            except BaseException as e:  # recorded; the member must not raise either
                errors.append(repr(e))
            REC.add("return")

        th1 = threading.Thread(target=holder, daemon=True)
        th1.start()
        if not REC.wait_for(lambda ev: any(e["k"] == "hold" for e in ev)):
            result["members"][name] = {"error": "the probe never got the terminal lock"}
            release.set()
            continue
        th2 = threading.Thread(target=caller, daemon=True)
        th2.start()
        decided = REC.wait_for(
            lambda ev: any(e["t"] == 2 and e["k"] in ("touch", "wait", "return") for e in ev)
        )
        release.set()
        th1.join(TIMEOUT)
        th2.join(TIMEOUT)
        with REC.cv:
            ev = list(REC.events)
        if th2.is_alive() or th1.is_alive():
            ev = [e for e in ev]  # no return event: Trace_TtySync says Progress
        result["members"][name] = {"ev": ev, "decided": decided, "errors": errors}

        # second protocol - the member's terminal accesses are ONE critical section: whenever the
        # caller has fully released the terminal lock during the call, another thread reads the
        # terminal through the synchronized reader (to completion) before the caller continues
        fresh()
        with REC.cv:
            REC.events = []
            REC.roles = {}
        aerrors: list = []

        def intruder():
            REC.roles[threading.get_ident()] = 3
            try:
                utils.read_tty()
            except BaseException as e:
                aerrors.append("intruder: " + repr(e))

        def gap():
            REC.add("gap")
            th3 = threading.Thread(target=intruder, daemon=True)
            th3.start()
            th3.join(TIMEOUT)
            if th3.is_alive():
                aerrors.append("intruder did not finish")

        def acaller():
            REC.roles[threading.get_ident()] = 2
            REC.add("call", name)
            try:
                call()
            except BaseException as e:
                aerrors.append(repr(e))
            REC.add("return")

        REC.on_gap = gap
        th2 = threading.Thread(target=acaller, daemon=True)
        th2.start()
        th2.join(3 * TIMEOUT)
        REC.on_gap = None
        with REC.cv:
            ev = list(REC.events)
        result["members"][name]["atomic"] = {"ev": ev, "errors": aerrors, "finished": not th2.is_alive()}
    try:
        screen.stop()
    except Exception:
        pass
    with open(job["result_file"], "w") as f:
        json.dump(result, f)
    os._exit(0)


if __name__ == "__main__":
    main()
