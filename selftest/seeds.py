"""Confirm and register independently seeded regressions, and run the checks against them.

    /venv/bin/python -m selftest.seeds import <dir-with-patch.diff,demo.py,meta.json> <seed-id>
    /venv/bin/python -m selftest.seeds run [<seed-id> ...] [--tier quick]

``import`` confirms in a scratch worktree of /repo (removed afterwards) that with the patch the
repository's test-suite result equals the baseline's (same set of non-passing tests) and that the
demonstration fails with the patch and passes without it, then stores the seed under
/verif/seeded/<seed-id>/.  ``run`` applies each stored patch to a scratch copy of /repo/src and
runs the property's check against it (VERIF_REPO); result lines:
    SEED <id> <prop> exit=<rc> caught|MISSED <first signature>
"""

from __future__ import annotations

import json
import os
import re
import shutil
import subprocess
import sys
from pathlib import Path

VERIF = Path(__file__).resolve().parent.parent
SEEDED = VERIF / "seeded"
PYTEST = ["/venv/bin/python", "-m", "pytest", "-q", "-p", "no:cacheprovider", "--timeout=900",
          "--continue-on-collection-errors", "-x" if False else "-ra"]


def sh(cmd, **kw):
    return subprocess.run(cmd, stdout=subprocess.PIPE, stderr=subprocess.STDOUT, text=True, **kw)


def test_outcome(tree: Path) -> set[str]:
    env = dict(os.environ, PYTHONPATH=str(tree / "src"))
    env.pop("TERM_IMAGE_VERIF", None)
    p = sh(PYTEST + ["tests"], cwd=tree, env=env)
    bad = set(re.findall(r"^(?:FAILED|ERROR) (\S+)", p.stdout, re.M))
    m = re.search(r"(\d+) passed", p.stdout)
    return bad | {f"passed={m.group(1) if m else '?'}"}


def demo(tree: Path, demo_py: Path) -> int:
    env = dict(os.environ, PYTHONPATH=str(tree / "src"))
    return sh(["/venv/bin/python", str(demo_py)], cwd=tree, env=env, timeout=600).returncode


def do_import(src: Path, sid: str):
    meta = json.loads((src / "meta.json").read_text())
    wt = Path(f"/tmp/verif-seedcheck-{sid}")
    sh(["git", "-C", "/repo", "worktree", "remove", "--force", str(wt)])
    r = sh(["git", "-C", "/repo", "worktree", "add", "--detach", str(wt), "HEAD"])
    if r.returncode:
        raise SystemExit(r.stdout)
    try:
        base = test_outcome(wt)
        d0 = demo(wt, src / "demo.py")
        a = sh(["git", "-C", str(wt), "apply", str(src / "patch.diff")])
        if a.returncode:
            raise SystemExit(f"patch does not apply: {a.stdout}")
        mut = test_outcome(wt)
        d1 = demo(wt, src / "demo.py")
    finally:
        sh(["git", "-C", "/repo", "worktree", "remove", "--force", str(wt)])
    ok = base == mut and d0 == 0 and d1 != 0
    print(f"IMPORT {sid}: tests same as baseline={base == mut} ({sorted(mut - base)[:3]}), "
          f"demo without={d0} with={d1} -> {'kept' if ok else 'REJECTED'}")
    if not ok:
        return False
    dst = SEEDED / sid
    dst.mkdir(parents=True, exist_ok=True)
    shutil.copy(src / "patch.diff", dst / "patch.diff")
    shutil.copy(src / "demo.py", dst / "demo.py")
    meta.update(
        property=meta.get("property", sid.split("-")[0]),
        confirmed={
            "ran": "scratch worktree of /repo HEAD: baseline pytest command with/without patch "
                   "(identical set of non-passing tests), demo.py with/without patch",
            "tests_nonpassing_baseline": sorted(base),
            "demo_exit_without_patch": d0,
            "demo_exit_with_patch": d1,
        },
    )
    (dst / "meta.json").write_text(json.dumps(meta, indent=1))
    return True


def do_run(ids, tier, jobs=1, results=None):
    ids = ids or sorted(p.name for p in SEEDED.iterdir() if p.is_dir())
    if jobs > 1:
        from concurrent.futures import ThreadPoolExecutor

        with ThreadPoolExecutor(jobs) as ex:
            rcs = list(ex.map(lambda i: do_run([i], tier, 1, results), ids))
        return int(any(rcs))
    rc_all = 0
    for sid in ids:
        d = SEEDED / sid
        meta = json.loads((d / "meta.json").read_text())
        props = meta.get("check_with") or [meta["property"]]
        root = Path(f"/tmp/verif-seedrun-{sid}")
        shutil.rmtree(root, ignore_errors=True)
        root.mkdir(parents=True)
        try:
            sh(["rsync", "-a", "/repo/src", str(root) + "/"])
            sh(["git", "init", "-q"], cwd=root)
            a = sh(["git", "apply", "--unsafe-paths", "--directory", str(root), str(d / "patch.diff")], cwd=root)
            if a.returncode:
                a = sh(["patch", "-p1", "-d", str(root), "-i", str(d / "patch.diff")])
            if a.returncode:
                print(f"SEED {sid}: patch does not apply ({a.stdout.strip()[:200]})")
                rc_all = 1
                continue
            for prop in props:
                env = dict(os.environ, VERIF_REPO=str(root))
                p = sh([str(VERIF / "check"), prop, "--tier", tier], env=env, cwd=VERIF)
                sig = [l.strip() for l in p.stdout.splitlines() if l.strip().startswith("signature:")]
                st = "caught" if p.returncode == 1 else "MACHINERY" if p.returncode == 2 else "MISSED"
                if meta.get("not_a_violation"):
                    # a change that does not break the property as stated: the check must stay silent
                    st = "silent-as-intended" if p.returncode == 0 else "ALARM-ON-NON-VIOLATION"
                print(f"SEED {sid} {prop} exit={p.returncode} {st} {sig[0] if sig else ''}", flush=True)
                if results is not None:
                    results.append((sid, prop, p.returncode, st, sig[0][len("signature: "):] if sig else "",
                                    meta.get("summary", "")[:160], meta.get("needs", "")[:160]))
                if p.returncode == 2:
                    print("\n".join(p.stdout.splitlines()[-12:]))
                rc_all |= (p.returncode != 0) if meta.get("not_a_violation") else (p.returncode != 1)
        finally:
            shutil.rmtree(root, ignore_errors=True)
    return rc_all


if __name__ == "__main__":
    if sys.argv[1] == "import":
        sys.exit(0 if do_import(Path(sys.argv[2]), sys.argv[3]) else 1)
    tier = "quick"
    args = sys.argv[2:]
    jobs = 1
    write = "--write" in args
    for flag in ("--tier", "--jobs"):
        if flag in args:
            i = args.index(flag)
            val = args[i + 1]
            del args[i : i + 2]
            if flag == "--tier":
                tier = val
            else:
                jobs = int(val)
    ids = [a for a in args if not a.startswith("--")]
    results: list = []
    rc = do_run(ids, tier, jobs, results)
    if write:
        lines = ["# Independently seeded regressions vs. the checks", "",
                 "Each seed was written by a sub-agent that saw only the property text and a scratch worktree",
                 "(`seeded/<id>/patch.diff`, `demo.py`, `meta.json`); rounds `-s` .. `-w` and cross-cutting `X1`-`X9`",
                 "(asked for changes of a different kind). The check named is run with `VERIF_REPO` aimed at a",
                 f"scratch copy with the patch applied (tier {tier}).", "",
                 "| seed | check | exit | first signature reported | what the change does |", "|---|---|---|---|---|"]
        for sid, prop, rcode, st, sig, summ, _needs in sorted(results):
            lines.append(f"| {sid} | {prop} | {rcode} ({st}) | `{sig}` | {summ.replace('|', '/')} |")
        (SEEDED / "RESULTS.md").write_text("\n".join(lines) + "\n")
    sys.exit(rc)
