--------------------------- MODULE Trace_TtyLock ---------------------------
(***************************************************************************)
(* C14, code -> spec.  A trace is one REAL run (threads x processes, one    *)
(* multiprocessing start method) of probes decorated with the real          *)
(* `lock_tty`:                                                              *)
(*   ev   enter / exit events <<k, p, t, d, seq>>, sorted by the sequence   *)
(*        number each event took, inside the critical section, under a      *)
(*        dedicated multiprocessing.Value lock (never wall-clock time);     *)
(*   q    the queries <<p, t, req, got>>: request identifier written by     *)
(*        `query_terminal` and identifier found in the reply it returned    *)
(*        (0 = no / foreign reply);                                         *)
(*   stalled  the run did not finish and every unfinished thread sat in a   *)
(*        lock acquisition.                                                 *)
(* The events are folded through the occupancy automaton TtyLockAbs that    *)
(* TtyLock.tla refines.  Steps are total; the verdict names the first       *)
(* failing clause and the event index.                                      *)
(***************************************************************************)
EXTENDS TtyLockAbs, TLC, Json, IOUtils

Traces == JsonDeserialize(IOEnv.TRACE_FILE)

VARIABLES tid, l, s, verdict, at, nest, handover
vars == <<tid, l, s, verdict, at, nest, handover>>

Tr == Traces[tid]
Ev == Tr.ev
N == Len(Ev)

EventClause(st, e, i) ==
  LET who == <<e.p, e.t>> IN
  IF e.seq # i THEN "malformed: sequence numbers are not contiguous (events lost)"
  ELSE IF e.k = "enter" THEN
    IF AbsEnterClause(st, who) # "ok" THEN AbsEnterClause(st, who)
    ELSE IF AbsEnter(st, who).d # e.d THEN "Reentrant: nesting depth seen by the probe differs from the depth of its critical sections"
    ELSE "ok"
  ELSE IF e.k = "exit" THEN AbsExitClause(st, who)
  ELSE "malformed: unknown event kind"

ApplyEvent(st, e) ==
  LET who == <<e.p, e.t>> IN
  IF e.k = "enter" THEN (IF AbsEnterClause(st, who) = "ok" THEN AbsEnter(st, who) ELSE st)
  ELSE IF e.k = "exit" THEN (IF AbsExitClause(st, who) = "ok" THEN AbsExit(st, who) ELSE st)
  ELSE st

EndClause(st) ==
  IF Tr.stalled THEN "Progress: the run never finished; every unfinished thread waits for the terminal lock"
  ELSE IF st # AbsFree THEN "MutualExclusion: a thread is still inside at the end of the run"
  ELSE IF \E i \in 1..Len(Tr.q) : Tr.q[i].got # Tr.q[i].req
    THEN "OwnReply: a query did not return the reply to its own request"
  ELSE IF Tr.calls # Tr.returned THEN "Progress: some synchronized calls never returned"
  ELSE "ok"

Init ==
  /\ tid \in 1..Len(Traces)
  /\ l = 0
  /\ s = AbsFree
  /\ verdict = "ok"
  /\ at = 0
  /\ nest = 0
  /\ handover = 0

Consume ==
  /\ l < N
  /\ l' = l + 1
  /\ LET e == Ev[l + 1]
         v == IF verdict # "ok" THEN verdict ELSE EventClause(s, e, l + 1) IN
       /\ verdict' = v
       /\ at' = IF verdict = "ok" /\ v # "ok" THEN l + 1 ELSE at
       /\ s' = ApplyEvent(s, e)
       /\ nest' = IF e.k = "enter" /\ e.d > 1 THEN nest + 1 ELSE nest
       \* coverage: the critical section passes directly from one process to another
       /\ handover' = IF e.k = "enter" /\ l >= 1 /\ Ev[l].p # e.p THEN handover + 1 ELSE handover
  /\ UNCHANGED tid

Finish ==
  /\ l = N
  /\ l' = N + 1
  /\ LET v == IF verdict # "ok" THEN verdict ELSE EndClause(s) IN
       /\ verdict' = v
       /\ at' = IF verdict = "ok" /\ v # "ok" THEN N + 1 ELSE at
  /\ UNCHANGED <<tid, s, nest, handover>>

Next == Consume \/ Finish
Spec == Init /\ [][Next]_vars

Done == l = N + 1
Report ==
  Done => PrintT(<<"VERDICT", ToJson([tid |-> tid, verdict |-> verdict, at |-> at, events |-> N,
                                        nested |-> nest, handovers |-> handover, queries |-> Len(Tr.q)])>>)
=============================================================================
