SPECIFICATION Spec
CONSTANTS
  N = 2
  ScratchMax = 1
  Overwrite = FALSE
  ProbeAll = FALSE
  Fams = {"pad", "color"}
  Subs = TRUE
  AlignedSeeds <- M_AlignedSeeds
  AlignedDefaultSeeds <- M_AlignedDefaultSeeds
  ExactSeeds <- M_ExactSeeds
  Terms <- TermsAll
  RSs <- RSsAll
  RebuildInts <- M_RebuildInts
  Fills <- E_Fills
  SizeSeeds <- M_SizeSeeds
  SizeReplace <- M_SizeReplace
  ColorSeeds <- M_ColorSeeds
  RgbSeeds <- M_RgbSeeds
  ChanReplace <- M_ChanReplace
  StrSeeds <- E_StrSeeds
VIEW View
INVARIANT TypeOK
INVARIANT IdentityAndEquality
INVARIANT EqualFieldsEqualPaddings
INVARIANT RelativeFlag
INVARIANT HexRoundTrip
INVARIANT ParseNormalForm
PROPERTY ActionsAreCoreOps
PROPERTY RejectedChangesNothing
PROPERTY ValueOpsChangeNothing
PROPERTY MutationRefused
PROPERTY OnlyDstChanges
PROPERTY OnlyBypassMakesInvalid
PROPERTY ResolveLaw
PROPERTY ToExactLaw
PROPERTY PaddedSizeLaw
PROPERTY PadMatchesPaddedSize
PROPERTY AlignmentSplit
PROPERTY RelativeIsRefused
PROPERTY RebuildLaw
PROPERTY FromHexLaw
PROPERTY HexLaw
CHECK_DEADLOCK FALSE
