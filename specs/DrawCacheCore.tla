---------------------------- MODULE DrawCacheCore ------------------------------
(***************************************************************************)
(* C09, the iterator that Renderable.draw() / _animate_() builds.           *)
(*                                                                         *)
(* draw(loops, cache) of an animated renderable with N frames writes the    *)
(* frames of a render iterator (RenderIter.tla, next() only; the padding    *)
(* change after the first frame is not part of a cache key) until the       *)
(* iterator is exhausted (finite loops) or the user presses Ctrl-C.         *)
(* Whether that iterator caches is a DECISION over (loops, cache, N):       *)
(*                                                                         *)
(*   loops = 1              either way: no frame is visited twice, caching  *)
(*                          cannot be observed (DrawCache.tla, SingleLoop..)  *)
(*   loops >= 2 or < 0      exactly what the `cache` argument requests      *)
(*   (< 0 = infinite, draw()'s default)   (True, or a limit >= N)           *)
(*                                                                         *)
(* Consequences checked here for every allowed decision, every cache        *)
(* argument around N and every point of interruption: with caching          *)
(* requested no frame is rendered twice however often the animation loops   *)
(* (the property's last clause: no setting ever changes during draw());     *)
(* without, every frame written was rendered for that write.                *)
(***************************************************************************)
EXTENDS RenderIter

DrawCacheDecisions(loops, arg) == IF loops = 1 THEN BOOLEAN ELSE {CacheRequested(arg)}
\* the decision a trace is judged against (for one loop the choice is unobservable)
DrawCacheDecision(loops, arg) == loops # 1 /\ CacheRequested(arg)
\* draw() keeps the ownership of the render data (finalize=False)
DrawIter(loops, dec) == InitState(loops, dec, "caller")
=============================================================================
