------------------------------ MODULE Padding ------------------------------
(***************************************************************************)
(* C05 - functional core of the padding API (term_image.padding) and of    *)
(* the old-API formatting arguments (BaseImage._check_formatting /         *)
(* _format_render), as DOCUMENTED:                                          *)
(*                                                                         *)
(*   ExactPadding(l, t, r, b)    pads each side by exactly that many        *)
(*                               columns / lines; a negative dimension is   *)
(*                               rejected (ValueError);                     *)
(*   AlignedPadding(w, h, ha, va)  minimum render size + alignment;          *)
(*       a dimension <= 0 is RELATIVE and equivalent, after resolve(term),  *)
(*       to  max(terminal_dimension + d, 1);                                *)
(*       padded_dimension = max(render_dimension, minimum_dimension);       *)
(*       left/top = (padded - render) * ratio  (floor),  ratio = 0, 1/2, 1  *)
(*       for LEFT/TOP, CENTER/MIDDLE, RIGHT/BOTTOM; right/bottom = rest;    *)
(*       every operation other than resolve() on a relative instance raises *)
(*       RelativePaddingDimensionError.                                     *)
(*                                                                         *)
(* The FILL is any string occupying exactly one column (one code point, an  *)
(* SGR-wrapped glyph, base + combining character) or empty; the arithmetic  *)
(* below does not depend on it (to_exact keeps it).  What one fill CELL is, *)
(* is defined on the fill's own token stream in Trace_Pad (FillT, FillCell, *)
(* FillOK): left / right / width count fill CELLS, never code points.       *)
(*                                                                         *)
(* No variables, no constants: MC_Padding enumerates it, Trace_Pad          *)
(* instantiates it to know WHERE a padded render has to land.               *)
(* Sizes are records [w, h]; dimensions records [l, t, r, b].               *)
(***************************************************************************)
EXTENDS Integers

PMax(a, b) == IF a > b THEN a ELSE b

HAligns == {"left", "center", "right"}
VAligns == {"top", "middle", "bottom"}

Exact(l, t, r, b) == [kind |-> "exact", l |-> l, t |-> t, r |-> r, b |-> b]
Aligned(w, h, ha, va) == [kind |-> "aligned", w |-> w, h |-> h, ha |-> ha, va |-> va]

Sz(w, h) == [w |-> w, h |-> h]
D4(l, t, r, b) == [l |-> l, t |-> t, r |-> r, b |-> b]

(* ExactPadding(...) accepts exactly the non-negative dimensions. *)
ValidExact(l, t, r, b) == l >= 0 /\ t >= 0 /\ r >= 0 /\ b >= 0

(* AlignedPadding.relative *)
IsRelative(p) == p.kind = "aligned" /\ ~(p.w > 0 /\ p.h > 0)

(* One axis of AlignedPadding.resolve(): absolute dimensions are kept. *)
ResolveDim(d, term) == IF d > 0 THEN d ELSE PMax(term + d, 1)

Resolve(p, term) ==
  IF p.kind = "aligned"
    THEN [p EXCEPT !.w = ResolveDim(@, term.w), !.h = ResolveDim(@, term.h)]
    ELSE p

(* <<numerator, denominator>> of the share of the padding that goes first. *)
Ratio(a) ==
  CASE a \in {"left", "top"} -> <<0, 1>>
    [] a \in {"center", "middle"} -> <<1, 2>>
    [] a \in {"right", "bottom"} -> <<1, 1>>

(* One axis: <<before, after>> for an ABSOLUTE minimum dimension. *)
AxisDims(min, render, align) ==
  IF min > render
    THEN LET pad == min - render
             first == (pad * Ratio(align)[1]) \div Ratio(align)[2]
         IN <<first, pad - first>>
    ELSE <<0, 0>>

(* Exact dimensions of a non-relative padding for a render of size rs. *)
Dims(p, rs) ==
  IF p.kind = "exact" THEN D4(p.l, p.t, p.r, p.b)
  ELSE LET hz == AxisDims(p.w, rs.w, p.ha)
           vt == AxisDims(p.h, rs.h, p.va)
       IN D4(hz[1], vt[1], hz[2], vt[2])

PaddedSize(p, rs) == LET d == Dims(p, rs) IN Sz(d.l + rs.w + d.r, d.t + rs.h + d.b)

ToExact(p, rs) == LET d == Dims(p, rs) IN Exact(d.l, d.t, d.r, d.b)

(* ---- the public operations, with their documented failures -------------- *)

RelErr == "RelativePaddingDimensionError"

\* get_padded_size / to_exact / _get_exact_dimensions_ of one padding for one render size
ApiEval(p, rs) ==
  IF IsRelative(p)
    THEN [err |-> RelErr, dims |-> D4(0, 0, 0, 0), padded |-> Sz(0, 0), exact |-> D4(0, 0, 0, 0)]
    ELSE [err |-> "", dims |-> Dims(p, rs), padded |-> PaddedSize(p, rs),
          exact |-> Dims(ToExact(p, rs), rs)]

\* ExactPadding(l, t, r, b)
ApiNewExact(l, t, r, b) ==
  IF ValidExact(l, t, r, b) THEN [err |-> "", dims |-> D4(l, t, r, b)]
  ELSE [err |-> "ValueError", dims |-> D4(0, 0, 0, 0)]

\* AlignedPadding.resolve(terminal_size): never fails, result is never relative
ApiResolve(p, term) == LET q == Resolve(p, term) IN [err |-> "", w |-> q.w, h |-> q.h,
                                                     rel |-> IsRelative(q)]

(* ---- old API (BaseImage) ------------------------------------------------ *)
(* _check_formatting(h_align, width, v_align, height): alignment names are   *)
(* normalised to one character ("none" = not given), width/height resolved   *)
(* with the same relative rule against the terminal size.                    *)

OldHNames == [left |-> "<", center |-> "|", right |-> ">"]
OldVNames == [top |-> "^", middle |-> "-", bottom |-> "_"]

OldHNorm(a) == CASE a \in {"none", "<", "|", ">"} -> a
                 [] a \in DOMAIN OldHNames -> OldHNames[a]
                 [] OTHER -> "ValueError"
OldVNorm(a) == CASE a \in {"none", "^", "-", "_"} -> a
                 [] a \in DOMAIN OldVNames -> OldVNames[a]
                 [] OTHER -> "ValueError"

ApiCheckFormatting(ha, w, va, h, term) ==
  IF OldHNorm(ha) = "ValueError" \/ OldVNorm(va) = "ValueError"
    THEN [err |-> "ValueError", ha |-> "", w |-> 0, va |-> "", h |-> 0]
    ELSE [err |-> "", ha |-> OldHNorm(ha), w |-> ResolveDim(w, term.w),
          va |-> OldVNorm(va), h |-> ResolveDim(h, term.h)]

(* What an old-API (h_align, width, v_align, height) request MEANS in terms  *)
(* of the padding model: "none" is centre / middle; the fill is a space.     *)
OldHAlign(a) == CASE a \in {"<", "left"} -> "left"
                  [] a \in {">", "right"} -> "right"
                  [] OTHER -> "center"
OldVAlign(a) == CASE a \in {"^", "top"} -> "top"
                  [] a \in {"_", "bottom"} -> "bottom"
                  [] OTHER -> "middle"
OldApiPadding(ha, w, va, h) == Aligned(w, h, OldHAlign(ha), OldVAlign(va))
=============================================================================
