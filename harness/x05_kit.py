"""X05 - the real side: instantiate names of ``term_image._ctlseqs`` from rows / operations that
TLC dumped, lex them, run the compiled patterns.  Nothing here judges: strings are turned into
symbol sequences (the alphabet of specs/CtlSeqs.tla), tokens come from harness/lexer.py, and
everything is handed to specs/Trace_CtlSeqs.tla.
"""

from __future__ import annotations

import importlib
import types

from . import lexer, tlc

C0_NAMES = {
    0x00: "NUL", 0x07: "BEL", 0x08: "BS", 0x09: "HT", 0x0A: "LF", 0x0D: "CR", 0x0E: "SO", 0x0F: "SI",
    0x18: "CAN", 0x1A: "SUB", 0x1B: "ESC",
}
NAME_C0 = {v: chr(k) for k, v in C0_NAMES.items()}

GFX_KEYS = (
    "proto", "a", "f", "t", "s", "v", "z", "zset", "zok", "o", "C", "c", "r", "m", "q", "d", "i", "x0",
    "keys", "nkeys", "b64len", "b64ok", "size", "width", "height", "par", "inline", "dnmc", "wcells", "hcells",
)
GFX_DUMMY = {k: ([] if k == "keys" else lexer.GFX_NONE[k]) for k in GFX_KEYS}
PATTERNS = ("RGB_SPEC_re", "XTVERSION_re", "TEXT_AREA_SIZE_PX_re", "CELL_SIZE_PX_re", "KITTY_RESPONSE_re")
NO_MATCH = {"m": False, "g": []}
ABSENT = ["<none>"]


def module():
    return importlib.import_module("term_image._ctlseqs")


# ------------------------------------------------------------------ symbols
def symbols(text: str) -> list[str]:
    out = []
    for ch in text:
        o = ord(ch)
        if 0x20 <= o < 0x7F:
            out.append(ch)
        elif o in C0_NAMES:
            out.append(C0_NAMES[o])
        else:
            out.append(f"U+{o:04X}")
    return out


def text_of(syms) -> str:
    out = []
    for s in syms:
        if len(s) == 1:
            out.append(s)
        elif s in NAME_C0:
            out.append(NAME_C0[s])
        elif s.startswith("U+"):
            out.append(chr(int(s[2:], 16)))
        else:
            raise tlc.MachineryError(f"x05: unknown symbol {s!r}")
    return "".join(out)


def spell(text: str) -> str:
    """Token strings travel with control characters spelled out (ESC -> 'ESC')."""
    return "".join(symbols(text))


# ------------------------------------------------------------------ instantiate
def instantiate(mod, op: dict, how: str) -> tuple[str | None, bytes | None, object]:
    """-> (str value, bytes value of the *_b twin or None, raw return value for 'value' rows)."""
    name = op["name"]
    n = [int(x) for x in op["n"]]
    s = [text_of(x) for x in op["s"]]
    if name == "type":
        return "x", None, None
    if not hasattr(mod, name):
        raise tlc.MachineryError(f"x05: term_image._ctlseqs has no attribute {name!r}")
    val = getattr(mod, name)
    if how == "call":
        return val(*n), None, None
    if how == "value":
        return None, None, val(*s)
    if how == "pm":
        return val(len(n)) % tuple(n), None, None
    args = tuple(n) + tuple(s)
    if how == "plain":
        text = val
    elif how == "format":
        text = val % args
    else:
        raise tlc.MachineryError(f"x05: unknown instantiation {how!r}")
    twin = getattr(mod, name + "_b", None)
    if twin is None:
        return text, None, None
    bargs = tuple(n) + tuple(x.encode() for x in s)
    return text, (twin if how == "plain" else twin % bargs), None


# ------------------------------------------------------------------ lexing
def lexed(text: str) -> dict:
    st = lexer.lex(text)
    toks = []
    for t in st.toks:
        if t["k"] == "partial":
            continue
        t = dict(t)
        t["g"] = "?" if t["k"] == "unknown" else spell(t["g"])
        toks.append(t)
    gfx = []
    for g in st.gfx:
        rec = {k: g[k] for k in GFX_KEYS}
        for k in ("a", "t", "o", "d", "width", "height"):
            rec[k] = spell(rec[k])
        rec["keys"] = [spell(k) for k in rec["keys"]]
        gfx.append(rec)
    end = st.end_state
    kind = st.str_kind if end in ("str", "stresc") else ""
    if len(gfx) == 1 and gfx[0] == GFX_DUMMY:
        gfx = []  # only the dummy entry: Trace_CtlSeqs puts it back
    return {"toks": toks, "gfx": gfx, "end": {"st": end, "k": kind}}


def row_step(mod, row: dict) -> dict:
    """One dumped table row -> the step of a 'row' trace."""
    op, how = row["op"], row["how"]
    text, btext, value = instantiate(mod, op, how)
    step = {
        "op": op, "suf": row["suf"], "sort": row["sort"], "bytes": row["bytes"], "exp": row["want"],
        "vlo": row["vlo"], "vhi": row["vhi"], "val": [], "hasb": False, "chars": [], "bchars": [],
        "toks": [], "gfx": [], "end": {"st": "ground", "k": ""},
    }
    if how == "value":
        step["val"] = [int(x) for x in value]
        return step
    suffix = text_of(row["suf"])
    full = text + suffix
    step["chars"] = symbols(full)
    if btext is not None:
        step["hasb"] = True
        step["bchars"] = symbols((btext + suffix.encode()).decode("latin-1"))
    step.update(lexed(full))
    return step


def walk_step(mod, op: dict, how: str, exp=None) -> tuple[dict, str]:
    text, _, _ = instantiate(mod, op, how)
    step = {"op": op, "chars": symbols(text), "hasexp": exp is not None, "exp": exp if exp is not None else 0}
    step.update(lexed(text))
    return step, text


def whole_kinds(text: str) -> list[str]:
    return [t["k"] for t in lexer.lex(text).toks if t["k"] != "partial"]


# ------------------------------------------------------------------ patterns
def groups_of(m) -> dict:
    if m is None:
        return dict(NO_MATCH)
    return {"m": True, "g": [ABSENT if g is None else symbols(g) for g in m.groups()]}


def run_patterns(mod, s: list[str], ctx: list[str]) -> list[dict]:
    text = text_of(s)
    out = []
    for name in PATTERNS:
        pat = getattr(mod, name, None)
        if pat is None:
            raise tlc.MachineryError(f"x05: term_image._ctlseqs has no pattern {name!r}")
        out.append(groups_of(pat.match(text + text_of(ctx)) if ctx else pat.fullmatch(text)))
    return out


# ------------------------------------------------------------------ introspection
# loop variables of the module's "bytes versions" loop that stay behind in its namespace (they hold
# the LAST (name, value) pair of that loop); not vocabulary
LEFTOVERS = {"name", "value"}


def module_names(mod) -> tuple[set[str], list[str]]:
    """Every public and private name the module defines (not dunders, not imported modules)."""
    names = set()
    for k, v in vars(mod).items():
        if (k.startswith("__") and k.endswith("__")) or k in LEFTOVERS:
            continue
        if isinstance(v, types.ModuleType) or type(v).__module__ == "__future__":
            continue
        names.add(k)
    return names, list(getattr(mod, "__all__", []))
