"""Seeded mutations for X04 (the urwid image widget), same record format as selftest/mutations.py.

    /venv/bin/python -m selftest.mutations_x04 [id ...]        # runs ./check X04 on each mutant
    /venv/bin/python -m selftest.mutations_x04 --raw [id ...]  # without the repair underneath

The unchanged tree violates X04 through one genuine defect: ``set_error_placeholder(None)`` raises
TypeError although the docstring says "or ``None`` to remove the placeholder" (signatures
``setph:base:none-to-remove-rejected`` / ``setph:sub:none-to-remove-rejected``).  Every mutant is
therefore applied on top of NONE_FIX and counts as caught only if the check exits 1 with a
signature OTHER than those two.  ``none-fixed`` is the repaired tree itself: it must exit 0.
"""

from __future__ import annotations

import os
import shutil
import subprocess
import sys
from pathlib import Path

VERIF = Path(__file__).resolve().parent.parent
NONE_SIGS = {"setph:base:none-to-remove-rejected", "setph:sub:none-to-remove-rejected"}
F = "widget/_urwid.py"

NONE_FIX = dict(
    file=F,
    old="""        if not isinstance(widget, urwid.Widget):
            raise arg_type_error("widget", widget)
""",
    new="""        if not (widget is None or isinstance(widget, urwid.Widget)):
            raise arg_type_error("widget", widget)
""",
)

MUTATIONS = {
    # the image's size is shared mutable state: a box render must size the image itself every time
    # (needs a second widget / the application resizing the image in between)  [= seeded C17-u2]
    "x04-box-skips-set-size-when-size-unchanged": dict(
        file=F,
        old="""        if len(size) == 2:  # box
            image.set_size(self._ti_sizing, frame_size=size)
""",
        new="""        if len(size) == 2:  # box
            if getattr(self, "_ti_last_box", None) != size:
                image.set_size(self._ti_sizing, frame_size=size)
                self._ti_last_box = size
""",
    ),
    # needs upscale=False and an image smaller than the box
    "x04-box-always-fit": dict(
        file=F,
        old="        self._ti_sizing = Size.FIT if upscale else Size.AUTO\n",
        new="        self._ti_sizing = Size.FIT\n",
    ),
    # needs a flow widget without upscale wider than the original
    "x04-rows-ignores-no-upscale": dict(
        file=F,
        old="""        if self._ti_sizing is Size.FIT:
            n_rows = fit_size[1]
""",
        new="""        if True:
            n_rows = fit_size[1]
""",
    ),
    # rows() must not touch the image
    "x04-rows-sizes-the-image": dict(
        file=F,
        old="""    def rows(self, size: Tuple[int], focus: bool = False) -> int:
        fit_size = self._ti_image._valid_size(size[0])
""",
        new="""    def rows(self, size: Tuple[int], focus: bool = False) -> int:
        self._ti_image.set_size(size[0])
        fit_size = self._ti_image._valid_size(size[0])
""",
    ),
    # flow canvas as high as the fitted size although the (smaller) original is rendered
    "x04-flow-canvas-height-of-fitted-size": dict(
        file=F,
        old="            size = (size[0], image._size[1])\n",
        new="            size = (size[0], image._valid_size(size[0])[1])\n",
    ),
    # needs a subclass with a placeholder of its own
    "x04-placeholder-read-from-base-class": dict(
        file=F,
        old="""            if type(self)._ti_error_placeholder is None:
                raise
            canv = type(self)._ti_error_placeholder.render(size, focus)
""",
        new="""            if __class__._ti_error_placeholder is None:
                raise
            canv = __class__._ti_error_placeholder.render(size, focus)
""",
    ),
    # needs set_error_placeholder() called on a subclass and a base-class widget failing afterwards
    "x04-placeholder-always-set-on-base-class": dict(
        file=F,
        old="        cls._ti_error_placeholder = widget\n",
        new="        __class__._ti_error_placeholder = widget\n",
    ),
    # no placeholder set: the exception must reach the caller
    "x04-error-swallowed-without-placeholder": dict(
        file=F,
        old="""            if type(self)._ti_error_placeholder is None:
                raise
""",
        new="""            if type(self)._ti_error_placeholder is None:
                return urwid.SolidCanvas(" ", *size)
""",
    ),
    # needs a failing FLOW render with a placeholder
    "x04-placeholder-one-row-in-flow-mode": dict(
        file=F,
        old="            canv = type(self)._ti_error_placeholder.render(size, focus)\n",
        new="            canv = type(self)._ti_error_placeholder.render((size[0], 1) if flow else size, focus)\n",
        extra=dict(
            old="        if len(size) == 2:  # box\n",
            new="        flow = len(size) == 1\n        if len(size) == 2:  # box\n",
        ),
    ),
    "x04-upscale-type-not-checked": dict(
        file=F,
        old="""        if not isinstance(upscale, bool):
            raise arg_type_error("upscale", upscale)
""",
        new="",
    ),
    "x04-placeholder-type-not-checked": dict(
        file=F,
        old="""        if not (widget is None or isinstance(widget, urwid.Widget)):
            raise arg_type_error("widget", widget)
""",
        new="",
        raw_old=NONE_FIX["old"],
    ),
    # needs a vertical alignment other than the default and a box higher than the image
    "x04-vertical-alignment-dropped": dict(
        file=F,
        old="        self._ti_h_align, _, self._ti_v_align, _ = fmt\n",
        new="        self._ti_h_align, _, _, _ = fmt\n        self._ti_v_align = None\n",
    ),
    # "Padding width and height are ignored": needs a format spec with a padding width > box
    "x04-padding-width-honoured": dict(
        file=F,
        old="        self._ti_h_align, _, self._ti_v_align, _ = fmt\n",
        new="        self._ti_h_align, self._ti_pad_w, self._ti_v_align, _ = fmt\n",
        extra=dict(
            old="""                self._ti_h_align,
                size[0],
""",
            new="""                self._ti_h_align,
                max(size[0], self._ti_pad_w),
""",
        ),
    ),
    # kitty: "The z-index style-specific format spec field is ignored": needs two kitty widgets
    # built with the same z field
    "x04-kitty-z-index-taken-from-format-spec": dict(
        file=F,
        old="            style_args[\"z_index\"] = self._ti_z_index = self._ti_get_z_index()\n",
        new="            self._ti_z_index = self._ti_get_z_index()\n"
            "            style_args.setdefault(\"z_index\", self._ti_z_index)\n",
    ),
    # needs render(size, focus=True) after render(size) - one cached canvas serves both
    "x04-focus-not-ignored": dict(
        file=F,
        old="    ignore_focus = True\n",
        new="    ignore_focus = False\n",
    ),
    # CHANGELOG: UrwidImageError instead of ValueError when rendered as a fixed widget
    "x04-fixed-mode-raises-valueerror": dict(
        file=F,
        old='            raise UrwidImageError("Not a fixed widget")\n',
        new='            raise ValueError("Not a fixed widget")\n',
    ),
    # the widget stops re-rendering after _invalidate() (own canvas memo keyed on size only)
    "x04-own-canvas-memo-survives-invalidate": dict(
        file=F,
        old="""    def render(self, size: Tuple[int, int], focus: bool = False) -> urwid.Canvas:
        image = self._ti_image
""",
        new="""    def render(self, size: Tuple[int, int], focus: bool = False) -> urwid.Canvas:
        image = self._ti_image
        memo = getattr(self, "_ti_canv", None)
        if memo is not None and memo[0] == size:
            return urwid.CompositeCanvas(memo[1])
""",
        extra=dict(
            old="            canv = UrwidImageCanvas(render, size, image._size)\n",
            new="            canv = UrwidImageCanvas(render, size, image._size)\n            self._ti_canv = (size, canv)\n",
        ),
    ),
}


def edits_of(m: dict) -> list:
    out = [dict(file=m["file"], old=m["old"], new=m["new"], raw_old=m.get("raw_old"))]
    if "extra" in m:
        out.append(dict(file=m["file"], old=m["extra"]["old"], new=m["extra"]["new"]))
    return out


def apply(mid: str, edits) -> Path:
    root = Path(f"/tmp/verif-selftest-{mid}")
    shutil.rmtree(root, ignore_errors=True)
    root.mkdir(parents=True)
    subprocess.run(["rsync", "-a", "/repo/src", str(root) + "/"], check=True)
    for e in edits:
        f = root / "src" / "term_image" / e["file"]
        text = f.read_text()
        if e is NONE_FIX and e["old"] not in text:
            continue  # /repo already carries the repair
        if text.count(e["old"]) == 0 and e.get("raw_old") and text.count(e["raw_old"]) == 1:
            e = dict(e, old=e["raw_old"])  # --raw: the pattern as it is without the repair underneath
        if text.count(e["old"]) != 1:
            raise SystemExit(f"{mid}: pattern occurs {text.count(e['old'])} times in {e['file']}")
        f.write_text(text.replace(e["old"], e["new"]))
    subprocess.run([sys.executable, "-m", "compileall", "-q", str(root / "src" / "term_image")], check=True)
    return root


def run(mid: str, tier: str = "quick", raw: bool = False) -> bool:
    edits = [] if raw else [NONE_FIX]
    if mid != "none-fixed":
        edits += edits_of(MUTATIONS[mid])
    root = apply(mid, edits)
    try:
        env = dict(os.environ, VERIF_REPO=str(root))
        p = subprocess.run([str(VERIF / "check"), "X04", "--tier", tier], env=env, cwd=VERIF,
                           stdout=subprocess.PIPE, stderr=subprocess.STDOUT, text=True, timeout=3600)
    finally:
        shutil.rmtree(root, ignore_errors=True)
    sigs = sorted({ln.strip()[len("signature: "):] for ln in p.stdout.splitlines()
                   if ln.strip().startswith("signature:")} - NONE_SIGS)
    if mid == "none-fixed":
        ok = p.returncode == 0
        print(f"MUT {mid} X04 exit={p.returncode} {'clean' if ok else 'ALARMS'} {sigs}", flush=True)
    else:
        ok = p.returncode == 1 and bool(sigs)
        status = "caught" if ok else ("MACHINERY" if p.returncode == 2 else "MISSED")
        print(f"MUT {mid} X04 exit={p.returncode} {status} {sigs}", flush=True)
    if p.returncode == 2:
        print("\n".join(p.stdout.splitlines()[-15:]))
    return ok


def main() -> int:
    args = [a for a in sys.argv[1:] if not a.startswith("--")]
    raw = "--raw" in sys.argv
    tier = "thorough" if "--thorough" in sys.argv else "quick"
    ids = args or (["none-fixed"] if not raw else []) + list(MUTATIONS)
    bad = [m for m in ids if not run(m, tier, raw)]
    print(f"{len(ids) - len(bad)}/{len(ids)} as expected" + (f"; not: {bad}" if bad else ""))
    return 1 if bad else 0


if __name__ == "__main__":
    sys.exit(main())
