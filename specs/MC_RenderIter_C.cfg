\* INDEFINITE source, stream of 3 frames
SPECIFICATION Spec
CONSTANTS
  N = 0
  K = 3
  LoopsSet <- LoopsOne
  CacheSet = {FALSE}
  OwnSet = {"iter", "caller"}
  Sizes <- SizesTwo
  Durs <- DursAll
  ArgsSet = {"a0", "a1"}
  Pads <- PadsEx
  SeekOffs <- Offs2
  TW = 8
  TH = 6
  Terms <- TermsNone
  MaxDepth = 5
CONSTRAINT Bound
VIEW View
ACTION_CONSTRAINT Dump
INVARIANT TypeOK
INVARIANT FinalizeOnce
INVARIANT FinalizeIffClosedAndOwned
PROPERTY SeekNoLoop
PROPERTY RejectedChangesNothing
PROPERTY SettingsOnlyBySetter
PROPERTY FrameMatchesSettings
PROPERTY ResizeAloneChangesNothing
PROPERTY NoRerender
PROPERTY ClosedIsTerminal
PROPERTY LoopCountdown
PROPERTY PendingSeekOnce
CHECK_DEADLOCK FALSE
