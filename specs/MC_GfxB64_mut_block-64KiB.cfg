SPECIFICATION Spec
CONSTANTS
  ChunkSize = 4096
  Block = 65536
INVARIANT StreamWellFormed
INVARIANT DecodesToAll
INVARIANT StepMachineAgrees
INVARIANT Report
CHECK_DEADLOCK FALSE
