"""Real-code side of AnimTiming.tla (X11): run draw() of an animated renderable (new API) or of a
BlockImage over an in-memory GIF (old API) on a VIRTUAL clock and record what an observer with a
clock sees.

The clock counts integer ticks.  New API: 1 tick = 1 ms (``perf_counter_ns`` returns
``ticks * 10**6``, durations are milliseconds).  Old API: 1 tick = 2**-6 s (``time.time`` returns
``1024 + ticks * 2**-6``, exact in binary floating point; durations are set through the
documented ``frame_duration`` setter as ``d * 2**-6`` seconds).  Time passes only where the
scenario says so: in a render (its scripted cost), in the flush of a frame (``w``) and in a sleep
(the amount the code asked for).

A scenario ``sc`` is the record of specs/AnimTimingCore.tla; the result is a trace
``{sc, ev: [event...], nat, rep, exc}`` with events ``{k, f, t0, t1, a}`` (same module).
The recorder is dumb: it decodes which frame a write carries (letter / colour), converts the sleep
argument back to ticks and logs; all judgement is in Trace_AnimTiming.tla.
"""

from __future__ import annotations

import io
import re
import sys

TICK = 2.0 ** -6
BASE = 1024.0
BIG = 10 ** 6
COLORS = [(204, 0, 0), (0, 153, 0), (0, 0, 204), (204, 204, 0), (0, 204, 204), (204, 0, 204)]
NATIVE_MS = 40

_CSI = re.compile(r"\x1b\[[0-9;?]*[A-Za-z]")
_RGB = re.compile(r"\x1b\[[34]8;2;(\d+);(\d+);(\d+)")


MAX_EVENTS = 400


class Runaway(BaseException):
    """The animation does not end (watchdog of the recorder; not a KeyboardInterrupt)."""


def ev(k, f, t0, t1, a):
    return {"k": k, "f": f, "t0": t0, "t1": t1, "a": a}


def clamp(x):
    return max(-BIG, min(BIG, x))


class World:
    def __init__(self, sc: dict):
        self.sc = sc
        self.now = 0
        self.events: list[dict] = []
        self.rc = self.sl = self.nshow = 0
        self.scr = -1
        self.pending = None
        self.obj = None
        self.inexact = 0
        self.calls = 0

    # -- renders ---------------------------------------------------------------------------
    def render(self, f: int) -> None:
        """A real render call of frame f (-1: the call that finds the end of an INDEFINITE source)."""
        sc = self.sc
        self.guard()
        self.rc += 1
        if sc["ik"] == "render" and sc["ia"] == self.rc:
            self.events.append(ev("intr", -1, self.now, self.now, 1))
            raise KeyboardInterrupt
        t0 = self.now
        self.now += sc["ec"] if f < 0 else sc["costs"][f]
        self.events.append(ev("render", f, t0, self.now, 0))

    # -- sleeps ----------------------------------------------------------------------------
    def sleep(self, ticks, exact: bool) -> None:
        sc = self.sc
        self.guard()
        self.sl += 1
        if not exact:
            self.inexact += 1
        a = clamp(ticks)
        t0 = self.now
        if sc["ik"] == "sleep" and sc["ia"] == self.sl:
            self.events.append(ev("sleep", self.scr, t0, t0, a))
            self.events.append(ev("intr", -1, t0, t0, 3))
            raise KeyboardInterrupt
        if a < 0:
            self.events.append(ev("sleep", self.scr, t0, t0, a))
            raise ValueError("sleep length must be non-negative")  # what time.sleep does
        self.now += a
        self.events.append(ev("sleep", self.scr, t0, self.now, a))
        if sc["chg"] == self.sl:
            self.set_duration(sc["chgv"])
            self.events.append(ev("chg", -1, self.now, self.now, sc["chgv"]))

    def set_duration(self, d: int) -> None:
        if self.sc["api"] == "new":
            self.obj.frame_duration = d
        else:
            self.obj.frame_duration = float(d * TICK)

    # -- the output stream ------------------------------------------------------------------
    def decode(self, s: str):
        if self.sc["api"] == "new":
            for ch in _CSI.sub("", s):
                if "A" <= ch <= "Z":
                    return ord(ch) - 65
            return None
        m = _RGB.search(s)
        if not m:
            return None
        rgb = tuple(map(int, m.groups()))
        return min(range(len(COLORS)), key=lambda i: sum((a - b) ** 2 for a, b in zip(COLORS[i], rgb)))

    def guard(self) -> None:
        self.calls += 1
        if len(self.events) > MAX_EVENTS or self.calls > 20 * MAX_EVENTS:
            raise Runaway("the animation does not end")

    def write(self, s: str) -> int:
        self.guard()
        f = self.decode(s)
        if f is not None:
            self.nshow += 1
            if self.sc["ik"] == "write" and self.sc["ia"] == self.nshow:
                self.events.append(ev("intr", -1, self.now, self.now, 2))
                raise KeyboardInterrupt
            if self.pending is None:
                self.pending = (f, self.now)
        return len(s)

    def flush(self) -> None:
        if self.pending is not None:
            f, t0 = self.pending
            self.pending = None
            self.now += self.sc["w"]
            self.scr = f
            self.events.append(ev("show", f, t0, self.now, 0))


class Stream:
    encoding = "utf-8"

    def __init__(self, world: World):
        self.world = world

    def write(self, s):
        return self.world.write(s)

    def flush(self):
        self.world.flush()

    def isatty(self):
        return False

    def fileno(self):
        raise OSError("not a tty")


# ------------------------------------------------------------------------------------------
# new API

_CLS: dict = {}


def anim_class():
    if "Anim" in _CLS:
        return _CLS["Anim"]
    from term_image.geometry import Size
    from term_image.renderable import Frame, FrameCount, FrameDuration, Renderable

    class Anim(Renderable):
        """frame f is the letter chr(65 + f), two columns wide."""

        def __init__(self, world: World):
            sc = world.sc
            super().__init__(
                FrameCount.INDEFINITE if sc["indef"] else sc["n"],
                FrameDuration.DYNAMIC if sc["dyn"] else sc["d"],
            )
            self.world = world
            self.pos = 0

        def _get_render_size_(self):
            return Size(2, 1)

        def _render_(self, render_data, render_args):
            d = render_data[Renderable]
            sc = self.world.sc
            if sc["indef"]:
                f = self.pos
                if f >= sc["n"]:
                    self.world.render(-1)
                    raise StopIteration
            else:
                f = d.frame_offset
            self.world.render(f)
            self.pos += 1
            dur = d.duration
            if dur is FrameDuration.DYNAMIC:
                dur = sc["durs"][f]
            return Frame(f, dur, d.size, chr(65 + f) * d.size.width)

    _CLS["Anim"] = Anim
    return Anim


def run_new(sc: dict) -> dict:
    from .env import stubs

    stubs.install()
    stubs.set_term(size=(20, 8))
    import term_image.renderable._renderable as R

    world = World(sc)
    world.obj = anim_class()(world)

    def fake_sleep(secs):
        ns = round(secs * 10 ** 9)
        world.sleep(ns // 10 ** 6, ns % 10 ** 6 == 0 and abs(secs * 10 ** 9 - ns) < 1e-3)

    saved = R.perf_counter_ns, R.sleep, sys.stdout
    R.perf_counter_ns = lambda: world.now * 10 ** 6
    R.sleep = fake_sleep
    sys.stdout = Stream(world)
    exc = ""
    try:
        try:
            world.obj.draw(loops=sc["loops"], cache=sc["cache"])
        except BaseException as e:  # noqa: BLE001
            exc = type(e).__name__
    finally:
        R.perf_counter_ns, R.sleep, sys.stdout = saved
    world.events.append(ev("end", -1, world.now, world.now, 1 if exc else 0))
    return {"sc": sc, "ev": world.events, "nat": 0, "rep": 0, "exc": exc, "inexact": world.inexact}


# ------------------------------------------------------------------------------------------
# old API

_GIF: dict = {}


def gif_bytes(n: int) -> bytes:
    if n not in _GIF:
        from PIL import Image

        fr = [Image.new("RGB", (4, 4), COLORS[i % len(COLORS)]) for i in range(n)]
        buf = io.BytesIO()
        fr[0].save(buf, "GIF", save_all=True, append_images=fr[1:], duration=NATIVE_MS, loop=0)
        _GIF[n] = buf.getvalue()
    return _GIF[n]


def timed_class():
    if "Timed" in _CLS:
        return _CLS["Timed"]
    from term_image.image import BlockImage

    class Timed(BlockImage):
        world: World | None = None

        def _render_image(self, img, *a, **kw):
            w = self.world
            if w is not None and kw.get("frame") and self._seek_position < w.sc["n"]:
                w.render(self._seek_position)
            return super()._render_image(img, *a, **kw)

    Timed.__name__ = "BlockImage"
    _CLS["Timed"] = Timed
    return Timed


def run_old(sc: dict) -> dict:
    from .env import stubs

    stubs.install()
    stubs.set_identity("other")
    stubs.set_term(size=(20, 8))
    import term_image.image.common as common
    from PIL import Image

    world = World(sc)
    pil = Image.open(io.BytesIO(gif_bytes(sc["n"])))
    image = timed_class()(pil, width=2)
    native = image.frame_duration  # what the library made of the file's 40 ms
    rep = round(native * 10 ** 6) if isinstance(native, float) else -1
    image.world = world
    world.obj = image
    world.set_duration(sc["d"])

    class FakeTime:
        @staticmethod
        def time():
            return BASE + world.now * TICK

        @staticmethod
        def sleep(secs):
            t = secs / TICK
            world.sleep(int(t) if t == int(t) else int(t // 1), t == int(t))

        def __getattr__(self, name):
            import time as _t

            return getattr(_t, name)

    saved = common.time, sys.stdout
    common.time = FakeTime()
    sys.stdout = Stream(world)
    exc = ""
    try:
        try:
            image.draw(repeat=sc["loops"], cached=sc["cache"])
        except BaseException as e:  # noqa: BLE001
            exc = type(e).__name__
    finally:
        common.time, sys.stdout = saved
        image.world = None
    world.events.append(ev("end", -1, world.now, world.now, 1 if exc else 0))
    image.close()
    pil.close()
    return {"sc": sc, "ev": world.events, "nat": NATIVE_MS, "rep": rep, "exc": exc, "inexact": world.inexact}


def run(sc: dict) -> dict:
    return run_new(sc) if sc["api"] == "new" else run_old(sc)


def norm_sc(sc: dict) -> dict:
    """TLC prints an empty sequence that came from a function set as {}: normalise."""
    sc = dict(sc)
    for k in ("durs", "costs"):
        if isinstance(sc[k], dict):
            sc[k] = []
    return sc
