SPECIFICATION Spec
CONSTANTS
  Rich = FALSE
  MaxWeight = 3
  PrevByRoute = TRUE
VIEW View
CONSTRAINT Bound
INVARIANT TypeOK
INVARIANT PlainCallDenotesDefaults
INVARIANT BlockAcceptsNothing
INVARIANT RejectedDrawsNoPicture
INVARIANT AcceptedRenderDenotes
INVARIANT MinimalArgsAreMinimal
PROPERTY CallsChangeNothing
PROPERTY OverrideDoesNotPersist
PROPERTY RejectedChangesNothing
PROPERTY SetScope
PROPERTY OutIsFunctionOfState
CHECK_DEADLOCK FALSE
