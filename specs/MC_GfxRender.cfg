SPECIFICATION Spec
CONSTANTS
  ChunkSize = 16
  RV = "code"
INVARIANT JudgeAccepts
INVARIANT AllRowsSent
INVARIANT ReceiverIdleBetweenStrips
CHECK_DEADLOCK FALSE
