"""A real pseudo-terminal that the library adopts as its *active terminal* (C14 real runs, C15).

``term_image.utils`` chooses its terminal when it is imported: the tty behind
``sys.__stdout__`` / ``__stdin__`` / ``__stderr__``, else ``/dev/tty``.  A worker process
calls :func:`become_pty_process` *before* importing ``term_image``: it opens a pty, makes the
slave its stdin and stdout and keeps the master; the import then finds a tty, opens its own
descriptor on it (``utils._tty_fd != -1``) and wraps ``Process.start`` / ``Process.run``.  The
worker plays the terminal emulator itself: :func:`set_winsize` changes the window size in cells
*and* pixels (``TIOCSWINSZ``), a :class:`Responder` thread answers the queries written to
the terminal.  Nothing is simulated on the library's side: termios, select, read, write and
ioctl are the kernel's.
"""

from __future__ import annotations

import fcntl
import os
import re
import select
import signal
import struct
import termios
import threading


def set_winsize(fd: int, cols: int, rows: int, xpx: int = 0, ypx: int = 0) -> None:
    fcntl.ioctl(fd, termios.TIOCSWINSZ, struct.pack("HHHH", rows, cols, xpx, ypx))


def get_winsize(fd: int):
    rows, cols, xpx, ypx = struct.unpack("HHHH", fcntl.ioctl(fd, termios.TIOCGWINSZ, b"\0" * 8))
    return cols, rows, xpx, ypx


def become_pty_process(cols: int = 80, rows: int = 24, xpx: int = 0, ypx: int = 0) -> int:
    """Make a fresh pty this process's stdin/stdout; returns the master descriptor.

    Job-control signals are ignored: the process may become the session leader of the pty
    (the library opens the slave without ``O_NOCTTY``), and children started with any
    multiprocessing method inherit both the descriptors and the ignored dispositions.
    """
    for sig in (signal.SIGHUP, signal.SIGTTOU, signal.SIGTTIN, signal.SIGWINCH):
        signal.signal(sig, signal.SIG_IGN)
    master, slave = os.openpty()
    set_winsize(master, cols, rows, xpx, ypx)
    os.dup2(slave, 0)
    os.dup2(slave, 1)
    os.close(slave)
    os.set_inheritable(0, True)
    os.set_inheritable(1, True)
    return master


# requests the library (or a C14 probe) writes to the terminal
REQ = re.compile(
    rb"\x1b\[\?(?P<id>\d+)\$p"  # C14 probe query: DECRQM with a unique mode number
    rb"|\x1b\](?P<osc>1[01]);\?\x1b\\"  # default fg / bg colour
    rb"|\x1b\[>q"  # XTVERSION
    rb"|\x1b\[1(?P<winop>[46])t"  # XTWINOPS 14 / 16
    rb"|\x1b\[c"  # DA1
)
DA1_REPLY = b"\x1b[?62;c"


class Responder(threading.Thread):
    """Reads what is written to the terminal and answers it.

    ``answer(kind, match) -> bytes`` decides the reply of one request (``kind`` in
    ``id, osc, xtversion, winop, da1``); all replies to one ``write`` burst are written back
    in one ``os.write`` so that a reply never arrives in pieces.  ``counts`` tallies the
    requests seen per kind (the call counters of the memoized query functions).
    """

    def __init__(self, master: int, answer):
        super().__init__(name="pty-responder", daemon=True)
        self.master = master
        self.answer = answer
        self.counts: dict[str, int] = {}
        self.garbage = bytearray()
        self._stopping = False
        self._buf = bytearray()
        self.lock = threading.Lock()

    def stop(self):
        self._stopping = True

    def count(self, kind: str) -> int:
        with self.lock:
            return self.counts.get(kind, 0)

    def run(self):
        while not self._stopping:
            try:
                r, _, _ = select.select([self.master], [], [], 0.2)
                if not r:
                    continue
                data = os.read(self.master, 65536)
            except OSError:
                return
            if not data:
                return
            self._buf += data
            out = bytearray()
            pos = 0
            while True:
                m = REQ.search(self._buf, pos)
                if not m:
                    break
                self.garbage += self._buf[pos : m.start()]
                pos = m.end()
                if m.group("id"):
                    kind = "id"
                elif m.group("osc"):
                    kind = "osc"
                elif m.group("winop"):
                    kind = "winop"
                elif m.group(0) == b"\x1b[>q":
                    kind = "xtversion"
                else:
                    kind = "da1"
                with self.lock:
                    self.counts[kind] = self.counts.get(kind, 0) + 1
                out += self.answer(kind, m) or b""
            # keep a possibly incomplete request for the next read
            tail = self._buf[pos:]
            esc = tail.rfind(b"\x1b")
            if esc >= 0 and len(tail) - esc < 32:
                self.garbage += tail[:esc]
                self._buf = bytearray(tail[esc:])
            else:
                self.garbage += tail
                self._buf = bytearray()
            if len(self.garbage) > 4096:
                del self.garbage[:-4096]
            if out:
                try:
                    os.write(self.master, bytes(out))
                except OSError:
                    return
