"""C04: drive the REAL sizing code and record what it did (no judgement here).

An *op* is a JSON-able dict; ``run_ops`` executes a list of ops on ONE fresh real image
object and returns the list of *events* (the op plus what was observed at its return), in
the record shape ``specs/Trace_Sizing.tla`` reads:

    op    new | set_size | size= | width= | height= | resize | cell_ratio | observe | render | rows
    k a b request: k in FIT/AUTO/ORIGINAL/FIT_TO_WIDTH (a=b=0) | W (a) | H (a) | WH (a, b) | ""
          rows: a = columns, b = 1 if the widget upscales
    ax    which argument carries a Size member ("w" | "h"); not read by the spec
    fc fl frame size passed to set_size (others: the default 0, -2)
    tc tl cw ch rn rd   environment in force at the call (cw = 0: cell size unknown,
                        rn = 0: AutoCellRatio.DYNAMIC)
    observed: kind w h m (image.size), rw rh (image.rendered_size), dw dh (size during
    render / rows()), xo xf (AUTO: real ORIGINAL / FIT answers in the same environment)
"""

from __future__ import annotations

from fractions import Fraction
from math import ceil

from PIL import Image

from .env import stubs

SIZE_MODES = ("FIT", "AUTO", "ORIGINAL", "FIT_TO_WIDTH")
KCODE = {"FIT": 1, "AUTO": 2, "ORIGINAL": 3, "FIT_TO_WIDTH": 4, "W": 5, "H": 6, "WH": 7}
INT32 = 2**31 - 1

_state = {"ready": False, "env": None}


class ExecError(Exception):
    """The real call raised / returned something that cannot be recorded as an event."""

    def __init__(self, what: str, detail: str):
        super().__init__(detail)
        self.what = what
        self.detail = detail


def setup():
    if _state["ready"]:
        return
    stubs.install()
    stubs.set_identity("kitty")  # KittyImage.is_supported() -> True through the scripted query
    _state["ready"] = True


def classes():
    from term_image.image import BlockImage, KittyImage

    return {"text": BlockImage, "gfx": KittyImage}


def set_env(tc, tl, cw, ch, rn, rd):
    key = (tc, tl, cw, ch, rn, rd)
    if _state["env"] == key:
        return
    import term_image
    from term_image import AutoCellRatio

    stubs.set_term(size=(tc, tl), cell=(cw, ch) if cw else None)
    if rn == 0:
        AutoCellRatio.is_supported = True  # documented as settable when foreknown
        term_image.set_cell_ratio(AutoCellRatio.DYNAMIC)
    else:
        term_image.set_cell_ratio(rn / rd)
    _state["env"] = key


def _source(ow, oh, renderable):
    return Image.new("RGB" if renderable else "1", (ow, oh))


def _int_pair(v, what):
    if not (isinstance(v, tuple) and len(v) == 2 and all(type(x) is int for x in v)):
        raise ExecError(f"{what}:not-an-int-pair", f"{what} is {v!r}")
    return v


def observe(img):
    from term_image.image import Size

    s = img.size
    if isinstance(s, Size):
        kind, w, h, m = "dyn", 0, 0, s.name
    else:
        w, h = _int_pair(s, "size")
        kind, m = "fixed", ""
    rw, rh = _int_pair(img.rendered_size, "rendered_size")
    return {"kind": kind, "w": w, "h": h, "m": m, "rw": rw, "rh": rh}


def _request_args(op):
    """(width, height) arguments of set_size / the constructor for the op's request."""
    from term_image.image import Size

    k = op["k"]
    if k in SIZE_MODES:
        member = Size[k]
        return (None, member) if op.get("ax") == "h" else (member, None)
    if k == "W":
        return (op["a"], None)
    if k == "H":
        return (None, op["a"])
    if k == "WH":
        return (op["a"], op["b"])
    raise ExecError("bad-request", f"unknown request {k!r}")


def _install_probe(img):
    real = img._render_image

    def wrapped(im, alpha, **kw):
        img._c04_during = img._size
        return real(im, alpha, **kw)

    img._render_image = wrapped


def run_ops(fam: str, ow: int, oh: int, ops: list[dict]) -> list[dict]:
    """Execute ``ops`` on one fresh real image; the first op must be ``new``."""
    from term_image.image import Size

    setup()
    cls = classes()[fam]
    img = None
    widgets = {}
    events = []
    renderable = any(o["op"] == "render" for o in ops)
    for op in ops:
        ev = dict(op)
        ev.setdefault("ax", "w")
        for f in ("dw", "dh"):
            ev[f] = 0
        ev["xo"] = ev["xf"] = [0, 0]
        set_env(op["tc"], op["tl"], op["cw"], op["ch"], op["rn"], op["rd"])
        kind = op["op"]
        try:
            if kind == "new":
                src = _source(ow, oh, renderable)
                if op["k"] == "":
                    img = cls(src)
                else:
                    w, h = _request_args(op)
                    img = cls(src, width=w, height=h)
                _install_probe(img)
            elif img is None:
                raise ExecError("bad-trace", "first op must be 'new'")
            elif kind == "set_size":
                w, h = _request_args(op)
                if op["k"] == "AUTO":
                    frame = (op["fc"], op["fl"])
                    ev["xo"] = list(img._valid_size(Size.ORIGINAL, None, frame))
                    ev["xf"] = list(img._valid_size(Size.FIT, None, frame))
                img.set_size(w, h, frame_size=(op["fc"], op["fl"]))
            elif kind == "size=":
                img.size = Size[op["k"]] if op["k"] in SIZE_MODES else (op["a"], op["b"])
            elif kind == "width=":
                if op["k"] == "AUTO":
                    ev["xo"] = list(img._valid_size(Size.ORIGINAL))
                    ev["xf"] = list(img._valid_size(Size.FIT))
                img.width = Size[op["k"]] if op["k"] in SIZE_MODES else op["a"]
            elif kind == "height=":
                if op["k"] == "AUTO":
                    ev["xo"] = list(img._valid_size(Size.ORIGINAL))
                    ev["xf"] = list(img._valid_size(Size.FIT))
                img.height = Size[op["k"]] if op["k"] in SIZE_MODES else op["a"]
            elif kind in ("resize", "cell_ratio", "observe"):
                pass
            elif kind == "render":
                img._c04_during = None
                str(img)
                ev["dw"], ev["dh"] = _int_pair(img._c04_during, "size-during-render")
            elif kind == "rows":
                from term_image.widget import UrwidImage

                up = bool(op["b"])
                wid = widgets.get(up)
                if wid is None:
                    wid = widgets[up] = UrwidImage(img, upscale=up)
                n = wid.rows((op["a"],))
                if type(n) is not int:
                    raise ExecError("rows:not-an-int", f"rows() returned {n!r}")
                ev["dh"] = n
            else:
                raise ExecError("bad-trace", f"unknown op {kind!r}")
            if kind == "new" and op["k"] == "AUTO":
                ev["xo"] = list(img._valid_size(Size.ORIGINAL))
                ev["xf"] = list(img._valid_size(Size.FIT))
            ev.update(observe(img))
        except ExecError:
            raise
        except Exception as e:  # the real call raised
            raise ExecError(f"{kind}:raises:{type(e).__name__}", f"{kind} {op} raised {type(e).__name__}: {e}")
        events.append(ev)
    return events


def run_calls(fam: str, ow: int, oh: int, base: dict, calls: list[tuple]) -> list[list[int]]:
    """Bulk ``set_size`` calls on one fresh real image under a fixed cell size / ratio.

    ``calls``: (tc, tl, fc, fl, k, a, b).  Returns the compact records of Trace_Sizing:
    [tc, tl, fc, fl, kcode, a, b, fixed?, w, h, xow, xoh, xfw, xfh].
    For AUTO the ORIGINAL and FIT answers of the same (terminal, frame) are looked up among
    the calls already made, else computed.
    """
    from term_image.image import Size

    setup()
    cls = classes()[fam]
    cw, ch, rn, rd = base["cw"], base["ch"], base["rn"], base["rd"]
    set_env(calls[0][0] if calls else 5, calls[0][1] if calls else 4, cw, ch, rn, rd)
    img = cls(_source(ow, oh, False))
    members = {k: Size[k] for k in SIZE_MODES}
    out = []
    memo: dict = {}
    for tc, tl, fc, fl, k, a, b in calls:
        set_env(tc, tl, cw, ch, rn, rd)
        frame = (fc, fl)
        try:
            if k in members:
                img.set_size(members[k], frame_size=frame)
            elif k == "W":
                img.set_size(a, frame_size=frame)
            elif k == "H":
                img.set_size(height=a, frame_size=frame)
            else:
                img.set_size(a, b, frame_size=frame)
            s = img.size
        except Exception as e:
            raise ExecError(f"set_size:raises:{type(e).__name__}",
                            f"set_size({k},{a},{b}, frame_size={frame}) raised {type(e).__name__}: {e}")
        if isinstance(s, Size):
            fixed, w, h = 0, 0, 0
        else:
            w, h = _int_pair(s, "size")
            fixed = 1
        xo = xf = (0, 0)
        if k in ("ORIGINAL", "FIT"):
            memo[(tc, tl, fc, fl, k)] = (w, h)
        elif k == "AUTO":
            xo = memo.get((tc, tl, fc, fl, "ORIGINAL")) or tuple(img._valid_size(Size.ORIGINAL, None, frame))
            xf = memo.get((tc, tl, fc, fl, "FIT")) or tuple(img._valid_size(Size.FIT, None, frame))
            _int_pair(tuple(xo), "original")
            _int_pair(tuple(xf), "fit")
        out.append([tc, tl, fc, fl, KCODE[k], a, b, fixed, w, h, xo[0], xo[1], xf[0], xf[1]])
    return out


# --------------------------------------------------------------------------------------
# Keeping TLC's 32-bit integers safe.  These are not judgements: ``caps`` gives, per
# environment and request, a bound that is more than twice any size the property could
# accept; a recorded dimension above it is recorded AS the cap (still far outside the
# relation), and ``products_ok`` tells whether every product the specification can form
# for the environment stays below 2^31.


def derived(fam, ow, oh, e):
    text = fam == "text"
    nocell = e["cw"] == 0
    CW = 1 if (text or nocell) else e["cw"]
    CH = 2 if (text or nocell) else e["ch"]
    if e["rn"] > 0:
        ratn, ratd = e["rn"], e["rd"]
    else:
        ratn, ratd = (1, 2) if nocell else (e["cw"], e["ch"])
    PN, PD = (2 * ratn, ratd) if text else (1, 1)

    def resolve(f, t):
        return f if f > 0 else max(t + f, 1)

    FC, FL = resolve(e.get("fc", 0), e["tc"]), resolve(e.get("fl", -2), e["tl"])
    return dict(CW=CW, CH=CH, PN=PN, PD=PD, FC=FC, FL=FL, FW=FC * CW, FH=FL * CH)


def caps(fam, ow, oh, e, given=()):
    """(wcap, hcap): more than twice anything acceptable in environment e (both frames:
    the one in e and the default one are covered by the caller passing both)."""
    d = derived(fam, ow, oh, e)
    pr = Fraction(d["PN"], d["PD"])
    ws = [d["FC"], ceil(Fraction(ow, d["CW"])), ceil(Fraction(d["FH"] * ow, oh) / pr / d["CW"])]
    hs = [d["FL"], ceil(Fraction(oh) * pr / d["CH"]), ceil(Fraction(d["FW"] * oh, ow) * pr / d["CH"])]
    for k, a, b in given:
        if k in ("W", "WH", "rows"):
            ws.append(a)
            hs.append(ceil(Fraction(a * d["CW"] * oh, ow) * pr / d["CH"]))
        if k == "H":
            hs.append(a)
            ws.append(ceil(Fraction(a * d["CH"] * ow, oh) / pr / d["CW"]))
        if k == "WH":
            hs.append(b)
    return 2 * max(ws) + 4, 2 * max(hs) + 4


def products_ok(fam, ow, oh, e, given=()) -> bool:
    d = derived(fam, ow, oh, e)
    wcap, hcap = caps(fam, ow, oh, e, given)
    CW, CH, PN, PD, FW, FH = d["CW"], d["CH"], d["PN"], d["PD"], d["FW"], d["FH"]
    prods = [
        hcap * ow * PD * CH + wcap * CW * oh * PN,
        2 * ow * PD * CH,
        2 * oh * PN * CW,
        wcap * CW + ow,
        hcap * CH * PD + oh * PN,
        2 * FW * oh * PN,
        2 * FH * ow * PD,
        FH * ow * PD * 2,
        FW * oh * PN * 2,
    ]
    for k, a, b in given:
        if k in ("W", "rows"):
            prods.append(2 * a * CW * oh * PN)
        if k == "H":
            prods.append(2 * a * CH * ow * PD)
    return max(prods) < INT32


def clamp_event(fam, ow, oh, ev) -> int:
    """JSON numbers must stay below 2^31 for TLC; anything that large is recorded as 2^31-2
    (the specification rejects it as 'far-too-large' before forming any product)."""
    n = 0
    big = INT32 - 1
    for f in ("w", "rw", "dw", "h", "rh", "dh"):
        if ev[f] > big:
            ev[f] = big
            n += 1
    for f in ("xo", "xf"):
        for i in (0, 1):
            if ev[f][i] > big:
                ev[f][i] = big
                n += 1
    return n
