--------------------------- MODULE Trace_TermCache ---------------------------
(***************************************************************************)
(* C15, code -> spec.  A trace is one REAL history of the public functions  *)
(* (get_cell_size, get_cell_ratio, set_cell_ratio, enable/disable_queries,  *)
(* enable/disable_win_size_swap, get_fg_bg_colors,                          *)
(* get_terminal_name_version) on a real pty whose window size is changed    *)
(* with TIOCSWINSZ between the calls.  Every event carries the operation,   *)
(* its arguments, the returned value and the number of query round trips    *)
(* the terminal saw during the call.                                        *)
(*                                                                         *)
(* The monitor below keeps NO cache: it tracks the environment, the         *)
(* settings and the history variable `basis` of TermCacheCore, and judges   *)
(* every returned value against AllowedCells / AllowedRatios - the same     *)
(* operators the invariants of TermCache.tla use.  Steps are total; the     *)
(* verdict names the first failing clause and the event index.              *)
(*                                                                         *)
(* Faults: an event with fault # "" is a look-up whose terminal query was   *)
(* cut short by an exception (KeyboardInterrupt / termios.error raised in   *)
(* the querying thread).  No look-up completed: the monitor moves nothing   *)
(* but `pend` (the facts with a failed look-up and no completed one since). *)
(* A later operation on such a fact that breaks its clause gets the verdict *)
(* FaultFresh: the failed look-up left something behind.                    *)
(***************************************************************************)
EXTENDS TermCacheCore, TLC, Json, IOUtils

Traces == JsonDeserialize(IOEnv.TRACE_FILE)

VARIABLES tid, l, m, verdict, at
vars == <<tid, l, m, verdict, at>>

Tr == Traces[tid]
Ev == Tr.ev
N == Len(Ev)

MemoKeys == {"colors", "colorshex", "colorsnohex", "name"}  \* get_fg_bg_colors(), (hex=True), (hex=False)

M0(tr) ==
  [env |-> tr.env, swap |-> FALSE, queries |-> TRUE, basis |-> <<>>,
   dyn |-> FALSE, allowed |-> {<<1, 2>>}, isSup |-> "unknown",
   asked |-> [k \in MemoKeys |-> 0], gets |-> 0, stale |-> 0, pend |-> {}, faults |-> 0, aff |-> 0]

Pair(x) == <<x[1], x[2]>>

\* [m |-> next monitor state, v |-> clause verdict]
Judge(s, e) ==
  IF e.op = "Resize" THEN
    [m |-> [s EXCEPT !.env = [s.env EXCEPT !.cols = e.arg[1], !.rows = e.arg[2], !.xpx = e.arg[3], !.ypx = e.arg[4]]], v |-> "ok"]
  ELSE IF e.op = "EnableSwap" THEN
    [m |-> [s EXCEPT !.swap = TRUE, !.basis = IF s.swap THEN s.basis ELSE <<>>], v |-> "ok"]
  ELSE IF e.op = "DisableSwap" THEN
    [m |-> [s EXCEPT !.swap = FALSE, !.basis = IF s.swap THEN <<>> ELSE s.basis], v |-> "ok"]
  ELSE IF e.op = "EnableQueries" THEN
    [m |-> [s EXCEPT !.queries = TRUE, !.basis = IF s.queries THEN s.basis ELSE <<>>,
                     !.asked = IF s.queries THEN s.asked ELSE [k \in MemoKeys |-> 0]], v |-> "ok"]
  ELSE IF e.op = "DisableQueries" THEN
    [m |-> [s EXCEPT !.queries = FALSE], v |-> "ok"]
  ELSE IF e.op = "GetCellSize" THEN
    LET b == BasisAfterLookup(s.basis, s.env, "cell" \in s.pend)
        ok == Pair(e.res) \in AllowedCells(b, s.env, s.swap, s.queries)
        exempt == ok /\ Pair(e.res) # Compute(s.env, s.swap, s.queries).cell IN
    [m |-> [s EXCEPT !.basis = b, !.gets = @ + 1, !.stale = IF exempt THEN @ + 1 ELSE @],
     v |-> IF ok THEN "ok" ELSE "CellFresh: get_cell_size() returned a value that a fresh computation would not give for the current terminal size and settings"]
  ELSE IF e.op = "GetRatio" THEN
    IF s.dyn THEN
      LET b == BasisAfterLookup(s.basis, s.env, "cell" \in s.pend)
          ok == \E a \in AllowedRatios(b, s.env, s.swap, s.queries) : SameRatio(Pair(e.res), a) IN
      [m |-> [s EXCEPT !.basis = b, !.gets = @ + 1],
       v |-> IF ok THEN "ok" ELSE "RatioFresh: the DYNAMIC cell ratio does not follow the terminal"]
    ELSE
      LET keep == {a \in s.allowed : SameRatio(Pair(e.res), a)} IN
      [m |-> [s EXCEPT !.allowed = IF keep = {} THEN s.allowed ELSE keep],
       v |-> IF keep # {} THEN "ok" ELSE "RatioFixed: a fixed cell ratio is not the value that was set / snapshot"]
  ELSE IF e.op = "SetRatio" THEN
    IF Len(e.arg) = 2 THEN  \* explicit float <<n, d>>
      [m |-> [s EXCEPT !.dyn = FALSE, !.allowed = {Pair(e.arg)}], v |-> "ok"]
    ELSE
      LET first == s.isSup = "unknown"
          b == IF first \/ (~e.err /\ e.arg[1] = "FIXED") THEN BasisAfterLookup(s.basis, s.env, "cell" \in s.pend) ELSE s.basis
          cells == AllowedCells(b, s.env, s.swap, s.queries)
          sup == IF first THEN (IF e.err THEN "no" ELSE "yes") ELSE s.isSup
          v1 == IF first /\ e.err /\ None \notin cells
                  THEN "AutoSupport: auto cell ratio reported unsupported although the cell size is determinable"
                ELSE IF first /\ ~e.err /\ cells = {None}
                  THEN "AutoSupport: auto cell ratio accepted although the cell size is undeterminable"
                ELSE IF ~first /\ e.err # (s.isSup = "no")
                  THEN "AutoSupport: support status changed without being reset"
                \* the snapshot just taken (e.res, observed right after the call)
                ELSE IF ~e.err /\ e.arg[1] = "FIXED" /\ Len(e.res) = 2
                        /\ ~\E a \in AllowedRatios(b, s.env, s.swap, s.queries) : SameRatio(Pair(e.res), a)
                  THEN "FixedSnapshot: FIXED did not take its snapshot from the terminal as it is"
                ELSE "ok" IN
      [m |-> IF e.err THEN [s EXCEPT !.isSup = sup, !.basis = b]
             ELSE IF e.arg[1] = "FIXED"
               THEN [s EXCEPT !.isSup = sup, !.basis = b, !.dyn = FALSE,
                              !.allowed = AllowedRatios(b, s.env, s.swap, s.queries)]
               ELSE [s EXCEPT !.isSup = sup, !.basis = b, !.dyn = TRUE],
       v |-> v1]
  ELSE IF e.op \in {"GetColors", "GetName"} THEN
    LET k == e.arg[1]
        n == IF k = "name" THEN e.q.name ELSE e.q.colors
        asked2 == [s.asked EXCEPT ![k] = @ + n]
        v1 == IF e.res[1] \notin {"real", "none"}
                THEN "MemoFresh: the returned value is neither the terminal's answer nor `undetermined`"
              ELSE IF s.queries /\ e.res[1] # "real"
                THEN "MemoFresh: a result obtained while queries were disabled was returned after re-enabling them"
              ELSE IF e.res[1] = "none" /\ s.queries THEN "MemoFresh: undetermined although queries are enabled"
              ELSE IF asked2[k] > 1
                THEN "BodyOnce: a memoized function queried the terminal again without having been invalidated"
              ELSE "ok" IN
    [m |-> [s EXCEPT !.asked = asked2], v |-> v1]
  ELSE [m |-> s, v |-> "malformed: unknown operation"]

\* the fact an operation looks up, "" if it looks nothing up in monitor state s
Fact(s, e) ==
  IF e.op \in {"GetColors", "GetName"} THEN e.arg[1]
  ELSE IF e.op = "GetCellSize" THEN "cell"
  ELSE IF e.op = "GetRatio" THEN (IF s.dyn \/ e.fault # "" THEN "cell" ELSE "")  \* (a fault: it did look the cell size up)
  ELSE IF e.op = "SetRatio" /\ Len(e.arg) = 1
    THEN (IF s.isSup = "unknown" \/ (~e.err /\ e.arg[1] = "FIXED") \/ e.fault # "" THEN "cell" ELSE "")
  ELSE ""

\* what a toggle discards
Discards(s, e) ==
  IF e.op = "EnableQueries" /\ ~s.queries THEN {"cell"} \cup MemoKeys
  ELSE IF (e.op = "EnableSwap" /\ ~s.swap) \/ (e.op = "DisableSwap" /\ s.swap) THEN {"cell"}
  ELSE {}

JudgeF(s, e) ==
  IF e.fault # "" THEN
    \* the exception was raised out of the query of this call: whether it reached the caller (e.err) or
    \* was swallowed, no look-up completed and nothing returned is a terminal fact
    IF Fact(s, e) = "" THEN [m |-> s, v |-> "malformed: a fault in an operation that looks nothing up"]
    ELSE [m |-> [s EXCEPT !.pend = @ \cup {Fact(s, e)}, !.faults = @ + 1], v |-> "ok"]
  ELSE
    LET j == Judge(s, e)
        f == Fact(s, e)
        aff == f # "" /\ f \in s.pend IN
    [m |-> [j.m EXCEPT !.pend = (s.pend \ Discards(s, e)) \ {f}, !.aff = IF aff THEN @ + 1 ELSE @],
     v |-> IF aff /\ j.v # "ok"
             THEN "FaultFresh: a look-up that was cut short by an exception left something behind - " \o j.v
             ELSE j.v]

Init ==
  /\ tid \in 1..Len(Traces)
  /\ l = 0
  /\ m = M0(Traces[tid])
  /\ verdict = "ok"
  /\ at = 0

Consume ==
  /\ l < N
  /\ l' = l + 1
  /\ LET j == JudgeF(m, Ev[l + 1])
         v == IF verdict # "ok" THEN verdict ELSE j.v IN
       /\ m' = j.m
       /\ verdict' = v
       /\ at' = IF verdict = "ok" /\ v # "ok" THEN l + 1 ELSE at
  /\ UNCHANGED tid

Finish ==
  /\ l = N
  /\ l' = N + 1
  /\ UNCHANGED <<tid, m, verdict, at>>

Next == Consume \/ Finish
Spec == Init /\ [][Next]_vars

Done == l = N + 1
Report ==
  Done => PrintT(<<"VERDICT", ToJson([tid |-> tid, verdict |-> verdict, at |-> at, events |-> N,
                                        gets |-> m.gets, exempt |-> m.stale,
                                        faults |-> m.faults, aff |-> m.aff])>>)
=============================================================================
