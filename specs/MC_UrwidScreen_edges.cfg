SPECIFICATION SpecDump
CONSTANTS
  Ident = "kitty"
  Style3 = "block"
  Bits = 3
  Fams = {"Q", "O", "L", "F", "T", "I"}
  WithBad = FALSE
  WithInv = FALSE
  Dyn = FALSE
VIEW CoarseView
ACTION_CONSTRAINT Dump
CHECK_DEADLOCK FALSE
