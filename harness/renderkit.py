"""Shared machinery for drivers that render with the real image classes (C01-C03, C05, C17).

A *case* is a plain dict (JSON-able, so that it can go into a replay file):

    style   block | kitty | iterm2
    ident   key of stubs.IDENTITIES
    method  None | lines | whole | anim
    args    style arguments (mix, compress, z_index, blend, ...)
    alpha   None | float | '#' | '#rrggbb'
    mode    PIL mode of the source
    src     [w, h] pixel size of the source
    srckind pil | pilfile | file | anim:<n>:<frame>
    size    ["manual", rw, rh] | ["auto", "FIT"|..., term_w, term_h]
    cell    None | [w, h]
    via     str | format | renderer
    seed    pixel seed
    jpeg / rff  iterm2 settings
"""

from __future__ import annotations

import random
from pathlib import Path

from . import imgs
from .env import stubs

_cache_dir: Path | None = None


def setup(name: str):
    global _cache_dir
    stubs.install()
    _cache_dir = imgs.tmpdir(name)


def image_class(style: str):
    from term_image.image import BlockImage, ITerm2Image, KittyImage

    return {"block": BlockImage, "kitty": KittyImage, "iterm2": ITerm2Image}[style]


def format_spec_for(case) -> str:
    """The format specifier denoting the case's alpha + style arguments."""
    alpha = case["alpha"]
    if alpha is None:
        a = "#"
    elif isinstance(alpha, float):
        a = "#" + repr(alpha)[1:] if alpha != 40 / 255 else ""
    elif alpha == "#":
        a = "##"
    else:
        a = "#" + alpha.lstrip("#")
    s = ""
    m = case.get("method")
    if m:
        s += {"lines": "L", "whole": "W", "anim": "A"}[m]
    args = case.get("args", {})
    if "z_index" in args:
        s += f"z{args['z_index']}"
    if "mix" in args:
        s += f"m{int(args['mix'])}"
    if "compress" in args:
        s += f"c{args['compress']}"
    return "1.1" + a + ("+" + s if s else "")


def build_source(case):
    """Returns (PIL image or path, cleanup list)."""
    rng = random.Random(case["seed"])
    w, h = case["src"]
    kind = case["srckind"]
    assert _cache_dir is not None
    if kind.startswith("anim"):
        _, n, _frame = kind.split(":")
        path = _cache_dir / f"anim-{case['seed']}-{n}-{w}x{h}.gif"
        if not path.exists():
            imgs.make_animation(rng, path, int(n), w, h)
        return str(path)
    img = imgs.make_image(rng, case["mode"], w, h, case.get("pixstyle", "mixed"))
    if kind == "pil":
        return img
    ext = "png" if case["mode"] not in ("CMYK",) else "jpg"
    if case["mode"] == "PA":
        ext = "png"
    path = _cache_dir / f"src-{case['seed']}-{case['mode']}-{w}x{h}.{ext}"
    if not path.exists():
        try:
            img.save(path)
        except (OSError, ValueError):
            img.convert("RGBA").save(path)
    return str(path)


def make_image_obj(case):
    """Instantiate the real image object for ``case`` with environment set accordingly."""
    from PIL import Image
    from term_image.image import Size

    # "forced": support is forced (forced_support = True) BEFORE the library has ever looked at
    # the terminal; the constructor must still detect the terminal, so that a style that is
    # actually supported keeps the terminal-specific behaviour
    forced = bool(case.get("forced")) and case["style"] != "block"
    stubs.set_identity(case["ident"], probe=not forced)
    size = case["size"]
    term = (80, 30) if size[0] == "manual" else (size[2], size[3])
    stubs.set_term(size=term, cell=case.get("cell"), fg_bg=case.get("fg_bg", (None, None)))
    cls = image_class(case["style"])
    src = build_source(case)
    kind = case["srckind"]
    kw = {}
    if size[0] == "manual":
        kw = dict(width=size[1], height=size[2])
    if forced:
        cls.forced_support = True
    elif case.get("subfirst") and case["style"] != "block":
        # the first object of the process is an instance of a USER SUBCLASS of the style: the
        # terminal detection it triggers must serve the library class exactly as its own would
        stubs.set_identity(case["ident"], probe=False)
        user_cls = type("User" + cls.__name__, (cls,), {})
        first = user_cls(Image.new("RGB", (3, 3)))
        first.close()
    try:
        if kind == "pil":
            image = cls(src, **kw)
        elif kind == "pilfile":
            image = cls(Image.open(src), **kw)
        else:
            image = cls.from_file(src, **kw)
    finally:
        if forced:
            cls.forced_support = False
    if size[0] == "auto":
        image.size = getattr(Size, size[1])
    if kind.startswith("anim"):
        image.seek(int(kind.split(":")[2]))
    if case["style"] == "iterm2":
        if case.get("jpeg") is not None:
            image.jpeg_quality = case["jpeg"]
        if case.get("rff") is not None:
            image.read_from_file = case["rff"]
    return image


def render(case):
    """Render with the real code; returns (output string, (rw, rh), image)."""
    image = make_image_obj(case)
    rsize = tuple(image.rendered_size)
    via = case["via"]
    args = dict(case.get("args", {}))
    if case.get("method"):
        args["method"] = case["method"]
    if via == "str":
        out = str(image)
    elif via == "format":
        out = format(image, format_spec_for(case))
    else:
        out = image._renderer(image._render_image, case["alpha"], **args)
    return out, rsize, image
