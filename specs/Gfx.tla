-------------------------------- MODULE Gfx --------------------------------
(***************************************************************************)
(* C03 - graphics renders transmit exactly the image, in well-formed       *)
(* protocol framing.                                                       *)
(*                                                                         *)
(* Functional core (no variables).  Parts:                                 *)
(*   (a) the kitty RECEIVER: idle/chunking, accumulated base64 length,     *)
(*       control record of the first chunk; per-command framing clauses    *)
(*       and per-transmission data clauses;                                *)
(*   (b) the PRODUCER: Transmission.get_chunks transcribed as a step       *)
(*       machine (payload of length L read ChunkSize at a time with one    *)
(*       chunk of look-ahead);                                             *)
(*   (c) LINES strip stitching, (d) the resolution rule,                   *)
(*   (e) the iTerm2 inline-image clauses incl. the read-from-file gate     *)
(*       and the JPEG rule;                                                *)
(*   (f) base64 STREAMS: well-formedness of a WHOLE payload (padding only  *)
(*       at the very end), the encoder as a step machine (in one piece /   *)
(*       block by block) and the payload SIZE CLASSES (around 2^16, 2^20,  *)
(*       3*2^k, several MiB) over which the property quantifies.           *)
(*                                                                         *)
(* Users: MC_Gfx (producer (x) receiver, every payload length),            *)
(*        MC_GfxB64 (encoder (x) stream clauses, every size class),        *)
(*        MC_GfxRender (render loops of KittyImage / ITerm2Image           *)
(*        transcribed, composed with the judge, small geometry),           *)
(*        Trace_Gfx (command sequences recorded from REAL renders).        *)
(*                                                                         *)
(* ChunkSize: the kitty graphics protocol allows at most 4096 base64       *)
(* characters per chunk; Transmission.get_chunks(size=4096) is the         *)
(* implementation constant.  Trace_Gfx.cfg and MC_Gfx4096.cfg use 4096;    *)
(* MC_Gfx.cfg / MC_GfxRender.cfg use 16 so that small payloads span        *)
(* several chunks.                                                         *)
(***************************************************************************)
EXTENDS Naturals, Integers, Sequences, FiniteSets, TLC

CONSTANT ChunkSize
ASSUME ChunkSize \in Nat /\ ChunkSize >= 4 /\ ChunkSize % 4 = 0

Min(a, b) == IF a < b THEN a ELSE b
Max(a, b) == IF a > b THEN a ELSE b

(* --- base64 arithmetic ---------------------------------------------------*)
B64Len(n) == 4 * ((n + 2) \div 3)          \* padded base64 length of n bytes
B64Pad(n) == (3 - (n % 3)) % 3             \* number of '=' characters
DecodedLen(b64len, pad) == 3 * (b64len \div 4) - pad

(***************************************************************************)
(* (f) base64 STREAMS                                                      *)
(*                                                                         *)
(* A payload is ONE base64 string: judged on the WHOLE payload of a        *)
(* transmission (kitty: all chunks concatenated; iTerm2: the text after    *)
(* the colon), as the receiver sees it:                                    *)
(*   len   number of characters                                            *)
(*   pad   number of TRAILING '=' characters                               *)
(*   pad1  offset (0-based) of the FIRST '=' character, -1 if there is none*)
(* '=' may only occur as the last one or two characters.  A stream that    *)
(* carries '=' earlier is a concatenation of separately padded pieces:     *)
(* strict decoders reject it, lenient ones stop at the first padding and   *)
(* obtain fewer bytes than size= / s*v*bpp announce.                       *)
(***************************************************************************)
B64StreamClause(len, pad, pad1) ==
  IF pad1 # -1 /\ pad1 # len - pad
    THEN "base64-padding: '=' occurs before the end of the payload (separately padded pieces, not ONE base64 string)"
  ELSE IF len % 4 # 0 \/ pad \notin 0..2 \/ (pad1 = -1) # (pad = 0)
    THEN "base64: payload is not well-formed padded base64"
  ELSE "ok"

(* The ENCODER as a step machine over n payload bytes.  B = 0: the payload *)
(* is encoded in one piece (standard_b64encode(stream.read())); B > 0: it  *)
(* is read and encoded B bytes at a time until a read returns nothing      *)
(* (iter(partial(stream.read, B), b"")), the pieces are concatenated.      *)
(* Only lengths and padding positions are modelled.  Block-wise encoding   *)
(* is a CORRECT alternative iff B is a multiple of 3 (no piece but the     *)
(* last is padded); the clauses accept it then and reject it otherwise.    *)
EInit(n) == [n |-> n, pos |-> 0, len |-> 0, pad |-> 0, pad1 |-> -1, nblk |-> 0, done |-> FALSE]
ERead(s, B) == IF B = 0 THEN s.n - s.pos ELSE Min(B, s.n - s.pos)
EStep(s, B) ==
  LET r == ERead(s, B)
      l == B64Len(r)
      p == B64Pad(r)
  IN IF B # 0 /\ r = 0 THEN [s EXCEPT !.done = TRUE]
     ELSE [s EXCEPT !.pos = @ + r, !.len = @ + l, !.pad = p,
                    !.pad1 = (IF @ = -1 /\ p > 0 THEN s.len + l - p ELSE @),
                    !.nblk = @ + 1, !.done = (B = 0)]
RECURSIVE Encode(_, _)
Encode(s, B) == IF s.done THEN s ELSE Encode(EStep(s, B), B)
\* the stream of n bytes encoded with block size B: [len, pad, pad1, ...]
Stream(n, B) == Encode(EInit(n), B)

(* Payload SIZE CLASSES.  The property quantifies over every source image; *)
(* the decoded payload length n ranges over all magnitudes, in particular  *)
(* across the sizes at which an implementation may split its work: 64 KiB, *)
(* 1 MiB (and their multiples +- 2: every residue mod 3), 3*2^k +- 1, and  *)
(* several MiB.                                                            *)
Pow16 == 65536
Pow20 == 1048576
PayloadClass(n) ==
  IF n < 0 THEN "none"
  ELSE IF n <= Pow16 THEN "<=64KiB"
  ELSE IF n <= Pow20 THEN "64KiB..1MiB"
  ELSE ">1MiB"
SizeGrid ==
  (0..48)
  \cup {k * P + d : k \in 1..3, P \in {Pow16, Pow20}, d \in (0 - 2)..2}
  \cup {3 * Q + d : Q \in {16384, 262144}, d \in (0 - 1)..1}
  \cup {2 * Pow20 * k + 1 : k \in {1, 2, 4}}

(***************************************************************************)
(* (a) RECEIVER                                                            *)
(*                                                                         *)
(* A command, as seen by the receiver:                                     *)
(*   ctl   : it carries control keys other than m / q                      *)
(*   onlym : its keys are within {m, q} and m is present                   *)
(*   m     : value of the m key (-1 = absent, counts as 0)                 *)
(*   len   : number of base64 characters of its payload                    *)
(*   more  : another chunk of the same transmission follows it (known to   *)
(*           the producer; in a recorded stream: the next graphics command *)
(*           is a continuation chunk)                                      *)
(*   rec   : the parsed control record (only read for first chunks)        *)
(***************************************************************************)
NoRec == [a |-> "", f |-> -1, t |-> "", s |-> -1, v |-> -1, z |-> 0, zset |-> FALSE,
          zok |-> TRUE, o |-> "", C |-> -1, c |-> -1, r |-> -1]

NoCmd == [ctl |-> FALSE, onlym |-> FALSE, m |-> -1, len |-> 0, more |-> FALSE, rec |-> NoRec]

RxInit == [rx |-> "idle", acc |-> 0, nch |-> 0, ctl |-> NoRec, ntrans |-> 0, last |-> 0,
           maxch |-> 0]

MVal(c) == IF c.m = -1 THEN 0 ELSE c.m

\* framing clauses of ONE command in receiver state R; "ok" or the first failing clause
ChunkClause(R, c) ==
  IF R.rx = "idle" /\ ~c.ctl
    THEN "first-chunk-has-control: a transmission starts with a command without control keys"
  ELSE IF R.rx = "chunking" /\ ~c.onlym
    THEN "continuation-has-only-m: a continuation chunk carries keys other than m"
  ELSE IF c.m \notin {-1, 0, 1} THEN "m-value: m is neither 0 nor 1"
  ELSE IF c.len > ChunkSize THEN "chunk-too-long: more than ChunkSize base64 characters in one chunk"
  ELSE IF MVal(c) = 1 /\ c.len % 4 # 0
    THEN "chunk-not-multiple-of-4: a non-last chunk whose length is not a multiple of 4"
  ELSE IF MVal(c) = 1 /\ ~c.more THEN "m-inconsistent: m=1 but no further chunk follows"
  ELSE IF MVal(c) = 0 /\ c.more THEN "m-inconsistent: m=0 but a further chunk follows"
  ELSE "ok"

Completes(c) == MVal(c) # 1
Total(R, c) == (IF R.rx = "chunking" THEN R.acc ELSE 0) + c.len
CtlOf(R, c) == IF R.rx = "chunking" THEN R.ctl ELSE c.rec
NChunks(R, c) == (IF R.rx = "chunking" THEN R.nch ELSE 0) + 1

RxApply(R, c) ==
  IF Completes(c)
    THEN [R EXCEPT !.rx = "idle", !.acc = 0, !.nch = 0, !.ctl = NoRec,
                   !.ntrans = @ + 1, !.last = Total(R, c), !.maxch = Max(@, NChunks(R, c))]
    ELSE [R EXCEPT !.rx = "chunking", !.acc = Total(R, c), !.nch = NChunks(R, c),
                   !.ctl = CtlOf(R, c)]

(***************************************************************************)
(* (d) resolution rule, (c) strip geometry                                 *)
(*                                                                         *)
(* Header h of a render: style, method ("lines" | "whole" | "anim"), rw,   *)
(* rh (rendered size in cells), cw, ch (cell size in px), ow, oh (original *)
(* size in px), compress, z, blend, jpeg, rff, animated, frame, readable,  *)
(* modeclass ("opaque" | "alpha" | "palette"), alphakind ("none" | "float" *)
(* | "bgterm" | "bghex"), unstable, cw2, ch2.                              *)
(*                                                                         *)
(* UNSTABLE environment (h.unstable): the terminal's cell size changes     *)
(* while the render runs; successive get_cell_size() reads alternate       *)
(* between (cw, ch) and (cw2, ch2).  The clauses then do not presuppose    *)
(* WHICH read the code uses for the width, the height or the size          *)
(* comparison; they require internal consistency: one admissible           *)
(* resolution for the whole render, every strip the same s x v, rh strips  *)
(* carrying rows [k*v, (k+1)*v), pixels equal to the reference at the      *)
(* TRANSMITTED resolution s x v*rh.  With a stable cell size the sets      *)
(* below are singletons and the clauses are the exact rule.                *)
(***************************************************************************)
Area(p) == p[1] * p[2]
RenderPx(h) == <<h.rw * h.cw, h.rh * h.ch>>
OrigPx(h) == <<h.ow, h.oh>>

\* GraphicsImage._get_minimal_render_size: never upscale on our end
MinimalRenderSize(orig, px) == IF Area(px) < Area(orig) THEN px ELSE orig

IsLines(h) == h.method = "lines"

\* cell sizes a get_cell_size() read may have returned during this render
CellSizes(h) == IF h.unstable THEN {<<h.cw, h.ch>>, <<h.cw2, h.ch2>>} ELSE {<<h.cw, h.ch>>}
\* render px sizes (width and height may stem from different reads)
PxSet(h) == {<<h.rw * c1[1], h.rh * c2[2]>> : c1 \in CellSizes(h), c2 \in CellSizes(h)}
\* minimal render sizes (the comparison and the size used may stem from different reads)
MinSet(h) == {(IF Area(pa) < Area(OrigPx(h)) THEN pb ELSE OrigPx(h)) : pa \in PxSet(h), pb \in PxSet(h)}

\* admissible resolutions of the whole transmitted picture
\* (stable cell size: exactly RenderPx for LINES, MinimalRenderSize(orig, RenderPx) for WHOLE)
ResSet(h) == IF h.method = "whole" THEN MinSet(h) ELSE PxSet(h)

NStrips(h) == IF IsLines(h) THEN h.rh ELSE 1
\* rows carried by strip k when every strip is hpx rows high
StripRowsOf(hpx, k) == <<k * hpx, (k + 1) * hpx>>
NoFirst == <<-1, -1>>

\* pixel format after _get_render_data: transparency survives only with a float alpha
\* (threshold unused by graphics styles) on a source that can carry transparency
ExpFormat(h) == IF h.alphakind = "float" /\ h.modeclass # "opaque" THEN 32 ELSE 24
ExpMode(h) == IF ExpFormat(h) = 32 THEN "RGBA" ELSE "RGB"

(***************************************************************************)
(* data clauses of one COMPLETED kitty transmission                        *)
(*   k    index of the transmission within the render (0-based)            *)
(*   ctl  control record of its first chunk                                *)
(*   tot  base64 characters accumulated over its chunks                    *)
(*   e    projections of the assembled payload (decoded by Python):        *)
(*        tb64, pad, dlen, ilen, rows_lo, rows_hi, pix                     *)
(*   first  <<s, v>> of the render's first transmission (NoFirst if k = 0) *)
(***************************************************************************)
KittyDoneClause(h, k, ctl, tot, e, first) ==
  LET raw == IF ctl.o = "z" THEN e.ilen ELSE e.dlen
      rows == StripRowsOf(ctl.v, k)
  IN
  IF ctl.a # "T" THEN "action: not a transmit-and-display command"
  ELSE IF ctl.t \notin {"d", ""} THEN "medium: not a direct transmission"
  ELSE IF ctl.f \notin {24, 32} THEN "format-unknown: f is neither 24 nor 32"
  ELSE IF ctl.f # ExpFormat(h) THEN "format: pixel format does not match the alpha setting / source mode"
  ELSE IF e.tb64 # tot THEN "reassembled-length: the chunks do not add up to the decoded payload"
  ELSE IF B64StreamClause(tot, e.pad, e.pad1) # "ok" THEN B64StreamClause(tot, e.pad, e.pad1)
  ELSE IF e.dlen # DecodedLen(tot, e.pad)
    THEN "base64: payload is not well-formed padded base64"
  ELSE IF ctl.o \notin {"", "z"} THEN "compression-flag: unknown o value"
  ELSE IF (ctl.o = "z") # (h.compress > 0) THEN "compression-flag: o=z iff compressed"
  ELSE IF ctl.o = "z" /\ e.ilen < 0 THEN "inflate: o=z but the payload is not a zlib stream"
  ELSE IF ctl.s < 1 \/ ctl.v < 1 THEN "size-keys: s / v missing"
  ELSE IF raw # ctl.s * ctl.v * (ctl.f \div 8)
    THEN "payload-size: decoded payload is not s*v*(f/8) bytes"
  ELSE IF <<ctl.s, ctl.v * NStrips(h)>> \notin ResSet(h)
    THEN "resolution: s x v is not the required pixel size (render size per strip for LINES, minimal render size for WHOLE)"
  ELSE IF k > 0 /\ <<ctl.s, ctl.v>> # first THEN "strip-uniform: the strips of one render differ in s / v"
  ELSE IF ctl.c # h.rw THEN "columns: c is not the rendered width"
  ELSE IF ctl.r # (IF IsLines(h) THEN 1 ELSE h.rh) THEN "rows: r is not 1 per strip / rendered height"
  ELSE IF ctl.C # 1 THEN "cursor-policy: C is not 1"
  ELSE IF ~ctl.zset \/ ~ctl.zok \/ ctl.z # h.z THEN "z-index: z is not the requested z-index"
  ELSE IF k >= NStrips(h) THEN "strip-count: more transmissions than strips"
  ELSE IF <<e.rows_lo, e.rows_hi>> # rows THEN "strip-rows: the transmission does not carry rows [k*h,(k+1)*h)"
  ELSE IF e.pix # 1 THEN "pixels: decoded pixels differ from the reference rows"
  ELSE "ok"

EndClause(h, R) ==
  IF R.rx # "idle" THEN "chunking-open: the last transmission was never completed (no m=0)"
  ELSE IF R.ntrans # NStrips(h) THEN "strip-count: the strips do not cover all rows of the image"
  ELSE "ok"

(***************************************************************************)
(* (b) PRODUCER: Transmission.get_chunks(size) as a step machine.          *)
(*                                                                         *)
(*   chunk, next_chunk = payload.read(size), payload.read(size)            *)
(*   yield <control>,m=bool(next_chunk) ; chunk                            *)
(*   chunk, next_chunk = next_chunk, payload.read(size)                    *)
(*   while next_chunk:                                                     *)
(*       yield m=1 ; chunk                                                 *)
(*       chunk, next_chunk = next_chunk, payload.read(size)                *)
(*   if chunk: yield m=0 ; chunk                                           *)
(*                                                                         *)
(* Only lengths are modelled.  V selects the code as written ("code") or a *)
(* plausible regression (used to show that the invariants bite):           *)
(*   "m-by-full-chunk"  m = 1 iff the chunk is full (wrong on exact        *)
(*                      multiples of the chunk size)                       *)
(*   "size-minus-1"     reads ChunkSize-1 characters at a time             *)
(***************************************************************************)
ReadSize(V) == IF V = "size-minus-1" THEN ChunkSize - 1 ELSE ChunkSize
Rd(p, V) == Min(ReadSize(V), p.L - p.pos)

PInit(L) == [pc |-> "first", L |-> L, pos |-> 0, chunk |-> 0, next |-> 0]

MFlag(chunk, next, V) ==
  IF V = "m-by-full-chunk" THEN (IF chunk = ReadSize(V) THEN 1 ELSE 0)
  ELSE (IF next > 0 THEN 1 ELSE 0)

PCanEmit(p) == p.pc = "first" \/ (p.pc = "loop" /\ (p.next > 0 \/ p.chunk > 0))

\* one emission: [p |-> next producer state, out |-> emitted command (more not yet set)]
PStep(p, V) ==
  IF p.pc = "first" THEN
    LET c1 == Rd(p, V)
        p1 == [p EXCEPT !.pos = @ + c1]
        c2 == Rd(p1, V)
        p2 == [p1 EXCEPT !.pos = @ + c2]
        c3 == Rd(p2, V)
    IN [p |-> [p2 EXCEPT !.pc = "loop", !.chunk = c2, !.next = c3, !.pos = @ + c3],
        out |-> [NoCmd EXCEPT !.ctl = TRUE, !.m = MFlag(c1, c2, V), !.len = c1]]
  ELSE IF p.next > 0 THEN
    LET c3 == Rd(p, V)
    IN [p |-> [p EXCEPT !.chunk = p.next, !.next = c3, !.pos = @ + c3],
        out |-> [NoCmd EXCEPT !.onlym = TRUE, !.m = (IF V = "m-by-full-chunk" THEN MFlag(p.chunk, p.next, V) ELSE 1),
                              !.len = p.chunk]]
  ELSE
    [p |-> [p EXCEPT !.pc = "done", !.chunk = 0],
     out |-> [NoCmd EXCEPT !.onlym = TRUE, !.m = (IF V = "m-by-full-chunk" THEN MFlag(p.chunk, 0, V) ELSE 0),
                           !.len = p.chunk]]

\* number of emissions still to come (what "another chunk follows" means)
RECURSIVE Emits(_, _)
Emits(p, V) == IF PCanEmit(p) THEN 1 + Emits(PStep(p, V).p, V) ELSE 0

\* run a whole transmission through the receiver: [R, verdict]
RECURSIVE Transmit(_, _, _, _, _)
Transmit(R, p, rec, V, verdict) ==
  IF ~PCanEmit(p) THEN [R |-> R, verdict |-> verdict]
  ELSE
    LET st == PStep(p, V)
        c == [st.out EXCEPT !.more = Emits(st.p, V) > 0, !.rec = rec]
        v == IF verdict # "ok" THEN verdict ELSE ChunkClause(R, c)
    IN Transmit(RxApply(R, c), st.p, rec, V, v)

(***************************************************************************)
(* (e) iTerm2 inline images                                                *)
(***************************************************************************)
\* "read directly from file when possible and no image manipulation is required":
\*  - policy on, not an animation, the file can be read, WHOLE method (LINES inherently
\*    manipulates), no downscaling needed (original not larger than the render size),
\*  - none of the alpha options can change the picture: opaque source modes, or a float
\*    alpha (transparency kept as is) on a non-palette source (palette transparency is
\*    unreliable on terminals, so those are always re-encoded).
ReadFromFileGate(policy, animated, readable, method, origArea, renderArea, modeclass, alphakind) ==
  /\ policy
  /\ ~animated
  /\ readable
  /\ method = "whole"
  /\ origArea <= renderArea
  /\ (modeclass = "opaque" \/ (alphakind = "float" /\ modeclass # "palette"))

\* admissible gate outcomes (a singleton unless the cell size is unstable)
GateSet(h) == {ReadFromFileGate(h.rff, h.animated, h.readable, h.method, Area(OrigPx(h)),
                                Area(px), h.modeclass, h.alphakind) : px \in PxSet(h)}
GateAsWholeSet(h) == GateSet([h EXCEPT !.method = "whole"])

\* re-encoded renders: JPEG iff enabled and the render has no transparency, else PNG
ReencKind(h) == IF h.jpeg >= 0 /\ ExpFormat(h) = 24 THEN "jpeg" ELSE "png"

NativeAnim(h) == h.method = "anim" /\ h.animated /\ ~h.frame
\* ANIM on a non-animated image / on a frame: "the WHOLE render method is used instead"
AnimFallback(h) == h.method = "anim" /\ ~NativeAnim(h)

ExpKinds(h) ==
  IF NativeAnim(h) THEN (IF h.readable THEN {"file"} ELSE {"file", "gif", "png", "webp"})
  ELSE IF AnimFallback(h) THEN {ReencKind(h)} \cup (IF TRUE \in GateAsWholeSet(h) THEN {"file"} ELSE {})
  ELSE (IF TRUE \in GateSet(h) THEN {"file"} ELSE {}) \cup (IF FALSE \in GateSet(h) THEN {ReencKind(h)} ELSE {})

\* admissible resolutions of a re-encoded picture
ExpRes(h) == IF AnimFallback(h) THEN PxSet(h) \cup MinSet(h) ELSE ResSet(h)

PayloadKind(e) == IF e.isfile = 1 THEN "file" ELSE e.kind

HasKey(e, key) == \E i \in DOMAIN e.keys : e.keys[i] = key

\* clauses of the k-th (0-based) inline-image command of a render;
\* first = <<width, height>> of the render's first picture (NoFirst if k = 0)
ITermClause(h, k, e, first) ==
  LET kind == PayloadKind(e)
      res == <<e.imgw, (IF IsLines(h) THEN e.imgh * h.rh ELSE e.imgh)>>
      rows == StripRowsOf(e.imgh, k)
  IN
  IF e.proto # "iterm2" THEN "protocol: not an iTerm2 inline image command"
  ELSE IF ~HasKey(e, "size") \/ ~HasKey(e, "width") \/ ~HasKey(e, "height")
    THEN "keys: size / width / height missing"
  ELSE IF e.inline # 1 THEN "inline: inline=1 missing"
  ELSE IF e.par # 0 THEN "aspect: preserveAspectRatio=0 missing"
  ELSE IF e.tb64 # e.b64len THEN "base64: payload is not well-formed padded base64"
  ELSE IF B64StreamClause(e.b64len, e.pad, e.pad1) # "ok" THEN B64StreamClause(e.b64len, e.pad, e.pad1)
  ELSE IF ~e.b64ok \/ e.dlen # DecodedLen(e.b64len, e.pad)
    THEN "base64: payload is not well-formed padded base64"
  ELSE IF e.size # e.dlen THEN "size-key: size= differs from the decoded payload length"
  ELSE IF e.wcells # h.rw THEN "width-key: width is not the rendered width in cells"
  ELSE IF e.hcells # (IF IsLines(h) THEN 1 ELSE h.rh) THEN "height-key: height is not 1 per strip / rendered height"
  ELSE IF k >= NStrips(h) THEN "strip-count: more image commands than strips"
  ELSE IF kind \notin ExpKinds(h) THEN "payload-kind: file / png / jpeg choice contradicts the read-from-file gate or the JPEG rule"
  ELSE IF kind = "file" THEN "ok"
  ELSE IF NativeAnim(h) THEN (IF <<e.imgw, e.imgh>> # OrigPx(h) THEN "native-anim: re-saved animation has another size" ELSE "ok")
  ELSE IF res \notin ExpRes(h) THEN "resolution: the picture does not have the required pixel size"
  ELSE IF k > 0 /\ <<e.imgw, e.imgh>> # first THEN "strip-uniform: the strips of one render differ in size"
  ELSE IF <<e.rows_lo, e.rows_hi>> # rows THEN "strip-rows: the command does not carry rows [k*h,(k+1)*h)"
  ELSE IF kind = "jpeg" THEN (IF e.imgmode \notin {"RGB", "L"} THEN "jpeg-mode" ELSE "ok")
  ELSE IF e.imgmode # ExpMode(h) THEN "format: PNG mode does not match the alpha setting / source mode"
  ELSE IF e.pix # 1 THEN "pixels: decoded pixels differ from the reference rows"
  ELSE "ok"
=============================================================================
