SPECIFICATION Spec
CONSTANTS
  MaxO = 10
  MaxTC = 12
  MaxTL = 8
  FullTerms = FALSE
INVARIANT AlgoSatisfiesProperty
CHECK_DEADLOCK FALSE
