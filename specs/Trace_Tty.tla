----------------------------- MODULE Trace_Tty -----------------------------
(***************************************************************************)
(* C12 / C13, code -> spec.  A trace is the system-call log of ONE real     *)
(* call of a library operation (recorded through the seams of               *)
(* term_image.utils) plus what was observed afterwards.                     *)
(*                                                                         *)
(*   mode "virtual": the calls ran on harness/env/vtty.py.  Every result    *)
(*        must be the one Tty!Respond gives (the device is checked against  *)
(*        the environment model), clock included.                           *)
(*   mode "real": the calls ran on a real pty (harness/env/termsim.py).     *)
(*        Only timing-independent clauses: the call sequence and arguments  *)
(*        are those of the step machine fed with the logged results, bytes  *)
(*        read are the next bytes of the terminal's reply stream, attribute *)
(*        words read back are the ones last set.                            *)
(*   mode "value": no call log - only the value an operation reported for   *)
(*        given facts of the terminal (bulk grids: colours, versions, ...). *)
(*                                                                         *)
(* Each step is total; the verdict names the first failing clause.          *)
(***************************************************************************)
EXTENDS Tty, Json, IOUtils

Traces == JsonDeserialize(IOEnv.TRACE_FILE)

VARIABLES tid, l, m, e, ex, verdict, at, want, got
vars == <<tid, l, m, e, ex, verdict, at, want, got>>

ToSet(s) == {s[i] : i \in 1..Len(s)}
Tr == Traces[tid]
TermOf(tr) == [tr.term EXCEPT !.sup = ToSet(tr.term.sup)]
CfgOf(tr) == [enabled |-> tr.cfg.enabled, qtmo |-> tr.cfg.qtmo, swap |-> tr.cfg.swap, term |-> TermOf(tr)]
Events == Tr.events
N == Len(Events)
Virtual == Tr.mode = "virtual"

\* (for stream operations the text written is passed on: the loose draw body ends at "\n")
ResOf(ev) == [ok |-> ev.ok, kind |-> ev.kind, attr |-> ev.rattr,
              data |-> IF ev.call = "stream" THEN ev.data ELSE ev.rdata, val |-> ev.val,
              ready |-> ev.ready, win |-> ev.win]

ArgsMatch(rq, ev) ==
  /\ rq.w = ev.w
  /\ (rq.call = "tcsetattr" => rq.attr = ev.attr)
  /\ (rq.call \in {"write", "more"} => rq.data = ev.data)
  /\ (rq.call \in {"select", "read", "more", "hook"} => rq.a = ev.a)

\* the logged result is the one the environment model gives
SameRes(r, ev) ==
  IF ~ev.ok /\ ~ev.eff /\ ev.kind \in {"InjectedFault", "KeyboardInterrupt"} THEN TRUE
       \* injected before the call / the call was interrupted by a signal: nothing to compare
  ELSE IF ~r.ok THEN ~ev.ok /\ ~ev.eff /\ ev.kind = r.kind
  ELSE IF ~ev.eff THEN FALSE
  ELSE /\ ev.rattr = r.attr /\ ev.rdata = r.data /\ ev.ready = r.ready /\ ev.win = r.win
       /\ (ev.call = "write" \/ ev.val = r.val)

\* animated draw: the body is any mix of stream operations and _render_ / interrupt hooks
LooseBody == m.status = "run" /\ Top(m).fn = "draw" /\ Top(m).pc = "d_body" /\ Top(m).aux < 0

StepClause(ev) ==
  LET rq == Pending(m) IN
  IF m.status # "run" THEN "step:call-after-termination"
  ELSE IF LooseBody /\ ev.call = "hook" THEN (IF ev.a \in {1, 2} THEN "ok" ELSE "step:unexpected-call")
  ELSE IF ev.call = "select" /\ ev.a = TInf /\ rq.call = "select" /\ rq.a # TInf
    THEN "c12:select-none-with-timeout"
  ELSE IF ev.call # rq.call THEN "step:unexpected-call"
  ELSE IF ~ArgsMatch(rq, ev) THEN "step:wrong-argument"
  ELSE IF Virtual /\ ~SameRes(Respond(e, rq).res, ev) THEN "env:result-mismatch"
  ELSE IF ev.call = "tcgetattr" /\ ev.eff /\ ev.rattr # e.attr THEN "env:attribute-word-not-the-one-set"
  ELSE IF ~Virtual /\ ev.call = "read" /\ ev.eff /\ ~IsPrefix(ev.rdata, e.inq) THEN "real:read-not-next-in-reply-stream"
  ELSE "ok"

\* real mode: the device is not modelled, only followed
Follow(ev) ==
  CASE ev.call = "tcsetattr" /\ ev.eff -> [e EXCEPT !.attr = ev.attr]
    [] ev.call = "read" /\ ev.eff -> [e EXCEPT !.inq = Drop(e.inq, Len(ev.rdata))]
    [] ev.call = "write" /\ ev.eff -> [e EXCEPT !.wlog = Append(e.wlog, ev.data)]
    [] OTHER -> e

Init ==
  /\ tid \in 1..Len(Traces)
  /\ l = 0
  /\ m = Start(CfgOf(Traces[tid]), Traces[tid].op)
  /\ e = LET v == Traces[tid].env IN
         NewEnv(v.attr0, v.win, v.ioctlFails,
                IF Traces[tid].mode = "virtual" THEN v.preload ELSE v.stream,
                v.sched, v.pred)
  /\ ex = FALSE
  /\ verdict = "ok" /\ at = 0 /\ want = "" /\ got = ""

Step ==
  /\ l < N
  /\ l' = l + 1
  /\ LET ev == Events[l + 1]
         c == IF verdict # "ok" THEN verdict ELSE StepClause(ev) IN
       /\ verdict' = c
       /\ at' = IF verdict = "ok" /\ c # "ok" THEN l + 1 ELSE at
       /\ want' = IF verdict = "ok" /\ c # "ok" THEN Pending(m).call ELSE want
       /\ got' = IF verdict = "ok" /\ c # "ok" THEN ev.call ELSE got
       /\ IF c = "ok"
            THEN /\ m' = Feed(m, ResOf(ev))
                 /\ e' = IF Virtual /\ ~(LooseBody /\ ev.call = "hook")
                            THEN (IF ev.eff THEN Respond(e, Pending(m)).env ELSE e) ELSE Follow(ev)
                 /\ ex' = (ex \/ (~ev.ok /\ OutermostCleanup(m) /\ (~ev.eff \/ Top(m).pc = "d_fin"))
                              \/ (~ev.ok /\ LooseBody /\ ev.call = "stream" /\ ev.data = <<10>>))
            ELSE UNCHANGED <<m, e, ex>>
  /\ UNCHANGED tid

Residual == e.inq \o Cat([i \in 1..Len(e.pend) |-> e.pend[i].data])
OpName == EffName(Tr.op)
Caller == OpName \in {"colors", "namever", "cellsize", "kitty", "iterm2", "auto"}

ParseClause(f, ref) ==
  LET t == TermOf(Tr) IN
  CASE OpName = "colors" ->
         IF \/ (f.val.a # ref.a /\ ~UniformWidth(t.fg.c)) \/ (f.val.b # ref.b /\ ~UniformWidth(t.bg.c))
           THEN "parse:colour:mixed-width-components" ELSE "parse:colour:value"
    [] OpName = "namever" -> "parse:name-version"
    [] OpName = "cellsize" -> "parse:cell-size"
    [] OpName = "auto" -> "support:auto-style"
    [] OTHER -> "support:" \o OpName

EndClause ==
  LET f == Tr.final
      v == Tr.env IN
  IF Tr.mode = "value" THEN
    (IF f.val # ExpectedVal(OpName, Tr.cfg.enabled, Tr.cfg.swap, TermOf(Tr), v.win, v.ioctlFails)
       THEN ParseClause(f, ExpectedVal(OpName, Tr.cfg.enabled, Tr.cfg.swap, TermOf(Tr), v.win, v.ioctlFails))
       ELSE "ok")
  ELSE IF f.status = "hung" THEN "c12:blocks-forever"
  ELSE IF m.status = "run" THEN "end:log-ends-before-the-operation"
  ELSE IF Tr.op.nbody >= 0 /\ (m.status # f.status \/ (m.status = "raised" /\ m.exc # f.kind))
    THEN "end:outcome-mismatch"
  ELSE IF Tr.c13 /\ ~ex /\ f.attr # v.attr0 THEN "c13:attribute-word-not-restored"
  ELSE IF Virtual /\ (f.attr # e.attr \/ f.residual # Residual \/ f.elapsed # e.now)
    THEN "env:final-state-mismatch"
  ELSE IF m.status = "returned" /\ ~Caller /\ (f.rnone # m.rnone \/ f.rb # m.rb) THEN "end:return-value"
  ELSE IF m.status = "returned" /\ Caller /\ f.val # m.val THEN ParseClause(f, m.val)
  ELSE IF Tr.c12 /\ m.val # ExpectedVal(OpName, Tr.cfg.enabled, Tr.cfg.swap, TermOf(Tr), v.win, v.ioctlFails)
    THEN "c12:reported-not-what-was-replied"
  ELSE IF Tr.c12 /\ e.wlog # <<>> /\ f.residual # <<>> THEN "c12:reply-bytes-left-unread"
  ELSE IF Tr.c12 /\ f.elapsed > Max2(1, Len(e.wlog)) * Tr.cfg.qtmo + f.slack THEN "c12:elapsed-exceeds-timeout"
  ELSE "ok"

\* a library call must not leave work behind that touches the terminal later: final.spawned = threads /
\* timers started from inside the operation, final.late = terminal accesses made after it returned
\* (the harness runs an intercepted timer's function once the call has returned and been observed)
LateClause ==
  LET f == Tr.final IN
  IF \E i \in 1..Len(f.late) : f.late[i] = "tcsetattr" THEN "c13:late-attribute-write"
  ELSE IF f.late # <<>> THEN "c13:late-terminal-access"
  ELSE IF f.spawned # <<>> THEN "c13:work-left-behind"
  ELSE "ok"

Finish ==
  /\ l = N
  /\ l' = N + 1
  /\ LET c == IF verdict # "ok" THEN verdict ELSE EndClause IN
       /\ verdict' = c
       /\ at' = IF verdict = "ok" /\ c # "ok" THEN N + 1 ELSE at
  /\ UNCHANGED <<tid, m, e, ex, want, got>>

Next == Step \/ Finish
Spec == Init /\ [][Next]_vars

Done == l = N + 1
Report == Done => PrintT(<<"VERDICT", ToJson([tid |-> tid, verdict |-> verdict, at |-> at,
                                              want |-> want, got |-> got, exempt |-> ex,
                                              late |-> LateClause])>>)
=============================================================================
