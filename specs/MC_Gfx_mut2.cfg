SPECIFICATION Spec
CONSTANTS
  ChunkSize = 16
  Variant = "size-minus-1"
INVARIANT ReceiverAccepts
INVARIANT ReassembledLength
INVARIANT NothingLost
INVARIANT ChunkBound
INVARIANT FirstHasControl
INVARIANT ChunkCount
INVARIANT Report
CHECK_DEADLOCK FALSE
