SPECIFICATION Spec
CONSTANTS
  MaxSize = 9
  MaxW = 4
  MaxH = 3
  Colours = {0, 1}
INVARIANT TrimIsCrop
INVARIANT ContentIsCrop
INVARIANT ColoursNeverBleed
INVARIANT GfxVerticalSelectsHorizontalBlanks
ACTION_CONSTRAINT Dump
CHECK_DEADLOCK FALSE
