#!/bin/sh
# Offline setup: nothing to build - the harness is Python run by /venv/bin/python (which has an
# editable install of /repo plus hypothesis/Pillow/urwid) and TLC from /opt/veriftools.
set -e
cd "$(dirname "$0")"
mkdir -p out evidence
/venv/bin/python -c "import PIL, hypothesis, urwid, term_image" 
java -cp /opt/veriftools/tla/tla2tools.jar tlc2.TLC -h >/dev/null 2>&1 || true
/venv/bin/python - <<'PY'
# parse every specification once so that a broken spec fails setup, not a check
import glob, os, sys
sys.path.insert(0, os.getcwd())
from harness import tlc
bad = 0
for f in sorted(glob.glob("specs/*.tla")):
    try:
        tlc.sany(os.path.basename(f))
    except tlc.MachineryError as e:
        print(e); bad += 1
sys.exit(1 if bad else 0)
PY
echo "setup ok"
