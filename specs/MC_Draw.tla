-------------------------------- MODULE MC_Draw --------------------------------
EXTENDS Draw, Json

CONSTANTS MaxRW, MaxRH, MaxPad, MaxFrames, MaxLoops

VARIABLES c, run, l, T, bad
vars == <<c, run, l, T, bad>>

Params ==
  {p \in [rw : 1..MaxRW, rh : 1..MaxRH, l : 0..MaxPad, t : 0..MaxPad, r : 0..MaxPad, b : 0..MaxPad,
          frames : 1..MaxFrames, loops : 1..MaxLoops, tty : BOOLEAN, fill : BOOLEAN,
          cols : {MaxRW + 2 * MaxPad},
          rows : {MaxRH + 2 * MaxPad + 1}, r0 : 0..(MaxRH + 2 * MaxPad)] :
     /\ (p.frames = 1 => p.loops = 1)
     /\ (p.l + p.t + p.r + p.b <= 2)            \* at most two padded sides at a time
     /\ (~p.fill => p.tty /\ p.l + p.t + p.r + p.b > 0)   \* empty fill only matters with padding
     /\ p.r0 \in {0, p.rows - PH(p) - 1, p.rows - PH(p), p.rows - 1}}

\* run = [kind |-> "clean"] or [kind |-> "cut", k, p]
Runs(p) ==
  {[kind |-> "clean", k |-> 0, p |-> 0]}
  \cup {[kind |-> "cut", k |-> k, p |-> q] :
          k \in 1..Len(Body(p)), q \in 0..4} 

ValidRun(p, r) ==
  IF r.kind = "clean" THEN TRUE
  ELSE IF Body(p)[r.k].op = "W" THEN r.p <= Len(Body(p)[r.k].toks) ELSE r.p = 0

Program == IF run.kind = "clean" THEN Prog(c) ELSE Interrupted(c, run.k, run.p)
Stream == IF run.kind = "clean" THEN Flat(Prog(c), 1) ELSE Flat(Interrupted(c, run.k, run.p), 1)
N == Len(Stream)

StepOK(S) ==
  /\ S.err = "" /\ S.wraps = 0
  /\ Touched(S) \subseteq BoxOf(c)                       \* nothing outside the padded region
  /\ LetterCells(S) \subseteq InnerOf(c)                 \* SamePlaceEveryFrame
  /\ S.scrolls <= Needed(c)

EndsBelow(S) ==
  /\ AbsRow(S) = c.r0 + PH(c) /\ S.c = 0 /\ S.vis /\ S.scrolls = Needed(c)
  /\ \A q \in InnerOf(c) : q \in DOMAIN S.cells /\ S.cells[q].g = "ch" /\ S.cells[q].ch = LastLetter(c)
  /\ \A q \in BoxOf(c) \ InnerOf(c) :
        IF c.fill THEN q \in DOMAIN S.cells /\ S.cells[q].g = "sp" ELSE q \notin DOMAIN S.cells

\* after an interrupted run: cursor visible (if it was hidden at all), nothing outside the box
RestoredAfterCut(S) == S.vis /\ Touched(S) \subseteq BoxOf(c) /\ S.err = ""

Init ==
  /\ c \in Params
  /\ run \in {r \in Runs(c) : ValidRun(c, r)}
  /\ l = 0
  /\ T = NewTerminal(c.cols, c.rows, c.r0, 0)
  /\ bad = ""
  /\ (run.kind = "clean" /\ c.r0 = 0) =>
        PrintT(<<"PROG", ToJson([c |-> c, prog |-> Prog(c), nbody |-> Len(Body(c)),
                                 cleanups |-> [k \in 1..Len(Body(c)) |-> Cleanup(c, FirstWrittenAfter(c, k))]])>>)

Consume ==
  /\ l < N
  /\ l' = l + 1
  /\ T' = Apply(T, Stream[l + 1], <<>>)
  /\ bad' = IF bad # "" THEN bad
            ELSE IF run.kind = "clean" /\ ~StepOK(T') THEN "StepOK" ELSE ""
  /\ UNCHANGED <<c, run>>

Finish ==
  /\ l = N
  /\ l' = N + 1
  /\ bad' = IF bad # "" THEN bad
            ELSE IF run.kind = "clean" THEN (IF EndsBelow(T) THEN "" ELSE "EndsBelow")
            ELSE (IF RestoredAfterCut(T) THEN "" ELSE "RestoredAfterCut")
  /\ UNCHANGED <<c, run, T>>

Next == Consume \/ Finish
Spec == Init /\ [][Next]_vars

SamePlaceEveryFrame == bad # "StepOK"
EndsBelowBox == bad # "EndsBelow"
InterruptedRunRestores == bad # "RestoredAfterCut"
\* whatever operation the run is cut at (k = 1 is the hide-cursor write on a tty), the render
\* data is finalized exactly once, and no body operation of a run follows the finalization
FinalizedBeforeReturn ==
  /\ Finalizations(Program) = 1
  /\ \A i \in 1..Len(Program) : Program[i].op = "Z" => \A j \in (i + 1)..Len(Program) : Program[j].op \notin {"R", "S"}
=============================================================================
