-------------------------- MODULE MC_TermCacheConc --------------------------
(* Configurations of TermCacheConc (C15): a toggle racing with get_cell_size().                  *)
(*   _swapon / _swapoff   enable / disable_win_size_swap  ||  get_cell_size (ioctl pixel sizes)  *)
(*   _queries             enable_queries || get_cell_size (no ioctl pixels: XTWINOPS query; the   *)
(*                        cache holds the None obtained while queries were disabled)             *)
(*   _two                 enable_win_size_swap || get_cell_size || get_cell_size                 *)
(*   _var                 _swapon with Variant from the environment                              *)
EXTENDS TermCacheConc, Json, IOUtils

E(iopx) == [cols |-> 4, rows |-> 2, xpx |-> 48, ypx |-> 36, iopx |-> iopx, xt |-> "text"]
EnvIo == E(TRUE)
EnvQ == E(FALSE)
PSwapOn == <<"EnableSwap", "Get">>
PSwapOff == <<"DisableSwap", "Get">>
PQueries == <<"EnableQueries", "Get">>
PTwo == <<"EnableSwap", "Get", "Get">>
CacheNone == <<4, 2, 0, 0>>
CacheZero == <<0, 0, 0, 0>>
CacheOff == <<4, 2, 12, 18>>   \* computed without the swap workaround
CacheOn == <<4, 2, 9, 24>>     \* computed with it

EnvVariant == IF "VARIANT" \in DOMAIN IOEnv THEN IOEnv.VARIANT ELSE "code"

ASSUME PrintT(<<"CONFIG", ToJson([prog |-> Prog, env |-> Env, swap0 |-> Swap0, queries0 |-> Queries0, cache0 |-> Cache0])>>)

Dump ==
  PrintT(<<"EDGE", ToJson([from |-> View, to |-> View', lvl |-> TLCGet("level"),
                          op |-> [t |-> out'.t, act |-> out'.act, blk |-> BlockedSet', done |-> AllDone',
                                  swap |-> swap', queries |-> queries',
                                  allowed |-> IF AllDone' THEN QuiescentAllowed' ELSE {}]])>>)
=============================================================================
