SPECIFICATION Spec
CONSTANTS
  MaxWeight = 3
  Rich = TRUE
VIEW View
CONSTRAINT Bound
ACTION_CONSTRAINT Dump
INVARIANT InitDump
CHECK_DEADLOCK FALSE
