SPECIFICATION SpecDump
CONSTANTS
  Bits = 3
  NSlots = 7
VIEW View
ACTION_CONSTRAINT Dump
CHECK_DEADLOCK FALSE
