----------------------------- MODULE ImageIter -----------------------------
(***************************************************************************)
(* C11: the transition system over ImageIterCore - one NAMED action per API *)
(* operation (so that -coverage shows each), the properties as invariants   *)
(* and action properties, and the edge dump used for the spec -> code       *)
(* replay.  `out` holds the last operation with its arguments and expected  *)
(* observable result; it is excluded from the VIEW.                         *)
(***************************************************************************)
EXTENDS ImageIterCore, Json

CONSTANTS MaxDepth,     \* TLC level bound: MaxDepth - 1 operations after the initial state
          SpecSet,      \* format specifiers used (subset of Specs)
          SizeSet,      \* size settings used (subset of Sizes)
          TermSet,      \* terminal sizes used (subset of Terms; 1 is the initial one)
          KindSet,      \* source kinds used (subset of Kinds)
          PeerVars,     \* variants of the second URL image (subset of PeerVariants; {} = none)
          FaultSteps    \* failure points injected (subset of Steps \cup {AnyStep})

Repeats == {-1, 1, 2}

VARIABLES s, out
vars == <<s, out>>

ASSUME SpecSet \subseteq Specs /\ SizeSet \subseteq Sizes /\ FaultSteps \subseteq Steps \cup {AnyStep}
InitSizes == SizeSet \cap {"A", "dyn"}
FaultSet == FaultSteps \cup {"none"}

InitOut == Out(NoImage(1), Act("init"), "ok", NoFrame, FALSE, 0, FALSE, 0)

(* The history starts either without an image (URL / constructor failures)  *)
(* or with a freshly constructed one of any source kind.                    *)
Init ==
  /\ s \in {NoImage(1)} \cup
           {Opened(1, k, an, sz) : k \in KindSet, an \in BOOLEAN, sz \in InitSizes}
  /\ out = InitOut

(* Each action is written out (guard, next state, observable) instead of going     *)
(* through one shared action operator, so that TLC's coverage names them.         *)
En(a) == Enabled(s, a, Repeats)

(* The quantifier ranges are pre-filtered with the cheap parts of the guards    *)
(* (pure optimisation: En(a) stays the authority).                              *)
FS == IF s.faulted \/ s.closed THEN {"none"} ELSE FaultSet
A(a) == LET r == Apply(s, a) IN En(a) /\ s' = r.st /\ out' = r.out

Open ==
  /\ s.kind = "none"
  /\ \E k \in KindSet, an \in BOOLEAN, sz \in InitSizes :
       \E oc \in Outcomes(k), f \in (IF s.faulted THEN {"none"} ELSE FaultSet \cap {"none", "open"}) :
         LET a == [Act("open") EXCEPT !.kind = k, !.anim = an, !.size = sz, !.outcome = oc, !.fault = f]
             r == Apply(s, a) IN En(a) /\ s' = r.st /\ out' = r.out
Format ==
  /\ s.kind # "none"
  /\ \E sp \in SpecSet, f \in FS :
       LET a == [Act("format") EXCEPT !.spec = sp, !.fault = f]
           r == Apply(s, a) IN En(a) /\ s' = r.st /\ out' = r.out
Str ==
  /\ s.kind # "none"
  /\ \E f \in FS :
       LET a == [Act("str") EXCEPT !.fault = f]
           r == Apply(s, a) IN En(a) /\ s' = r.st /\ out' = r.out
Draw ==
  /\ s.kind # "none"
  /\ \E an \in BOOLEAN, f \in FS :
       \E rp \in (IF an THEN {1, 2} ELSE {0}), c \in (IF an THEN BOOLEAN ELSE {FALSE}),
          d \in {""} \cup (IF an /\ s.anim /\ s.size # "dyn" /\ f = "none"
                           THEN SizeSet \ {s.size} ELSE {}) :
         LET a == [Act("draw") EXCEPT !.animated = an, !.rep = rp, !.cached = c, !.fault = f,
                                       !.during = d]
             r == Apply(s, a) IN En(a) /\ s' = r.st /\ out' = r.out
Iter ==
  /\ s.kind # "none" /\ s.it.ph \in {"none", "closed"}
  /\ \E rp \in Repeats, sp \in SpecSet, c \in BOOLEAN, f \in FS \cap {"none", "open"} :
       LET a == [Act("iter") EXCEPT !.rep = rp, !.spec = sp, !.cached = c, !.fault = f]
           r == Apply(s, a) IN En(a) /\ s' = r.st /\ out' = r.out
Next_ ==
  /\ s.it.ph # "none"
  /\ \E f \in FS :
       LET a == [Act("next") EXCEPT !.fault = f]
           r == Apply(s, a) IN En(a) /\ s' = r.st /\ out' = r.out
IterSeek ==
  /\ s.it.ph # "none"
  /\ \E p \in 0..N :
       LET a == [Act("iterseek") EXCEPT !.pos = p]
           r == Apply(s, a) IN En(a) /\ s' = r.st /\ out' = r.out
ImageSeek ==
  /\ s.kind # "none"
  /\ \E p \in 0..N :
       LET a == [Act("imageseek") EXCEPT !.pos = p]
           r == Apply(s, a) IN En(a) /\ s' = r.st /\ out' = r.out
NFrames == s.kind # "none" /\ A(Act("nframes"))
SetSize ==
  /\ s.kind # "none"
  /\ \E sz \in SizeSet \ {s.size} :
       /\ LET a == [Act("setsize") EXCEPT !.size = sz]
              r == Apply(s, a) IN En(a) /\ s' = r.st /\ out' = r.out
Resize ==
  \E t \in TermSet \ {s.term} :
    LET a == [Act("resize") EXCEPT !.term = t]
        r == Apply(s, a) IN En(a) /\ s' = r.st /\ out' = r.out
CloseIter == s.it.ph # "none" /\ A(Act("closeiter"))
DropIter == s.it.ph # "none" /\ A(Act("dropiter"))
CloseImage == s.kind # "none" /\ A(Act("closeimage"))
DropImage == s.kind # "none" /\ A(Act("dropimage"))
PeerOpen ==
  /\ s.kind = "url" /\ s.peer = "none"
  /\ \E v \in PeerVars :
       LET a == [Act("peeropen") EXCEPT !.pvar = v]
           r == Apply(s, a) IN En(a) /\ s' = r.st /\ out' = r.out
PeerFormat == s.peer # "none" /\ A(Act("peerformat"))
PeerClose == s.peer # "none" /\ A(Act("peerclose"))
PeerDrop == s.peer # "none" /\ A(Act("peerdrop"))

Next ==
  \/ Open \/ Format \/ Str \/ Draw \/ Iter \/ Next_ \/ IterSeek \/ ImageSeek \/ NFrames
  \/ SetSize \/ Resize \/ CloseIter \/ DropIter \/ CloseImage \/ DropImage
  \/ PeerOpen \/ PeerFormat \/ PeerClose \/ PeerDrop

Spec == Init /\ [][Next]_vars

View == s
Bound == TLCGet("level") <= MaxDepth

(* ------------------------------- invariants ------------------------------ *)
TypeOK ==
  /\ s.kind \in Kinds \cup {"none"} /\ s.tell \in -1..(N - 1) /\ s.size \in Sizes
  /\ s.term \in Terms /\ s.it.ph \in Live \cup {"none", "closed"} /\ s.it.n \in 0..N
  /\ s.peer \in {"none", "open", "closed"} /\ s.peerVar \in PeerVariants \cup {""}
NoLeakAtQuiescence == HandlesOK(s)
CallerImageNeverClosed == CallerOK(s)
TempFileIffUrlImageOpen == TempOK(s)
CacheInvisible == FrameOK(s, out)
FramesInOrderOrSeekTarget == OrderOK(s, out)
TellTracksLastYield == TellOK(s, out)
ExactlyRepeatPasses == RepeatOK(s, out)

RenderOps == {"format", "str", "draw", "next", "iter", "nframes"}
(* a render never alters the size setting (afterwards it is what it was, or what the  *)
(* user set while the render was running); an animated draw never moves the frame      *)
SizeNeverChangedByRender ==
  [][out'.a.op \in RenderOps =>
       s'.size = IF out'.a.during # "" THEN out'.a.during ELSE s.size]_vars
AnimatedDrawKeepsFrame ==
  [][out'.a.op = "draw" /\ out'.a.animated /\ s.anim => s'.tell = s.tell]_vars
RejectedLeavesStateAlone ==
  [][out'.res \in {"ValueError", "TermImageError", "URLNotFoundError",
                   "UnidentifiedImageError"} => [s' EXCEPT !.callerOpen = s.callerOpen] = s]_vars
(* two URL images never share anything: an operation on one leaves the other alone *)
ImagesIndependent ==
  [][IF out'.a.op \in PeerOps
     THEN [s' EXCEPT !.peer = s.peer, !.peerVar = s.peerVar] = s
     ELSE s'.peer = s.peer /\ s'.peerVar = s.peerVar]_vars
SeekKeepsRepeatCount ==
  [][out'.a.op = "iterseek" => s'.it.rep = s.it.rep /\ s'.it.passes = s.it.passes]_vars

(* -------------------------------- edge dump ------------------------------ *)
(* History variables (read by the properties only) are stripped from the dumped  *)
(* node identity; DumpView must then be the VIEW.                                  *)
Strip(x) == [x EXCEPT !.it.lastY = -1, !.it.seekTo = -1, !.it.passes = 0, !.it.rep0 = 0]
StripOut(o) == [o EXCEPT !.preLastY = -1, !.preSeekTo = -1]
DumpView == Strip(s)
Dump == PrintT(<<"EDGE", ToJson([lvl |-> TLCGet("level"), from |-> Strip(s),
                                 op |-> StripOut(out'), to |-> Strip(s')])>>)
DumpInitInv == (TLCGet("level") = 1) => PrintT(<<"INIT", ToJson(Strip(s))>>)
=============================================================================
