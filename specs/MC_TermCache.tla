---------------------------- MODULE MC_TermCache ----------------------------
(* Configurations of TermCache (C15):                                        *)
(*   MC_TermCache.cfg        cell-size / ratio operations, 3 sizes x 2 pixel sizes, all flags   *)
(*   MC_TermCache_memo.cfg   the memoized query functions with query enabling / disabling       *)
(*   MC_TermCache_cell_dump.cfg / MC_TermCache_memo_dump.cfg   quick models with the edge dump  *)
(*   MC_TermCache_all.cfg    both groups together on a smaller terminal family (thorough)       *)
(*   MC_TermCache_var.cfg    seeded regressions of the model (VARIANT from the environment)     *)
(*   MC_TermCache_faultq.cfg / _faultx.cfg   cell operations with failing look-ups (Faults # {}): *)
(*                           2 sizes x 2 pixel sizes (quick) / the MC_TermCache.cfg family (thorough) *)
(*   MC_TermCache_cellF_dump.cfg   quick model with faults of both kinds and the edge dump      *)
(* The invariants read `out` (the value just returned).  They are decided by the configurations *)
(* WITHOUT a VIEW (cell, memo, all, var), where the last operation is part of the state         *)
(* identity; the *_dump configurations use VIEW View only to print each edge of the             *)
(* cache-level state graph once for the replay.                                                 *)
EXTENDS TermCache, Json, IOUtils

S3 == {<<4, 2>>, <<4, 3>>, <<6, 3>>}
S2 == {<<4, 2>>, <<4, 3>>}
S1 == {<<4, 2>>}
P2 == {<<48, 36>>, <<96, 72>>}
P1 == {<<48, 36>>}
R1 == {<<3, 4>>}

EnvVariant == IF "VARIANT" \in DOMAIN IOEnv THEN IOEnv.VARIANT ELSE "code"

\* what the property allows the operation to return (judged in TLA+, compared by the replay)
Allowed ==
  IF out'.fault # "" THEN {}   \* the exception propagated: nothing was returned
  ELSE IF out'.op = "GetCellSize" THEN AllowedCells(basis', env', swap', queries')
  ELSE IF out'.op = "GetRatio" /\ cr' = Nil THEN AllowedRatios(basis', env', swap', queries')
  ELSE IF out'.op = "SetRatio" /\ out'.arg = <<"FIXED">> /\ ~out'.err THEN AllowedRatios(basis', env', swap', queries')
  ELSE {}

\* the snapshot set_cell_ratio(FIXED) has taken (observed by the replay right after the call), else <<>>
Fixed == IF out'.op = "SetRatio" /\ out'.arg = <<"FIXED">> /\ ~out'.err THEN cr' ELSE <<>>

\* exception statuses the property admits for this operation: the one-time support check of set_cell_ratio(FIXED |
\* DYNAMIC) may refuse (TermImageError) iff the cell size may be undetermined, accept iff it may be determined
ErrOK ==
  IF out'.op = "SetRatio" /\ Len(out'.arg) = 1 /\ out'.fault = "" /\ isSup = "unknown"
    THEN LET cells == AllowedCells(basis', env', swap', queries') IN
         {b \in BOOLEAN : IF b THEN None \in cells ELSE cells # {None}}
    ELSE {out'.err}

Dump == PrintT(<<"EDGE", ToJson([from |-> View, to |-> View', op |-> out', allowed |-> Allowed, fixed |-> Fixed, errok |-> ErrOK,
                                 lvl |-> TLCGet("level")])>>)
=============================================================================
