SPECIFICATION Spec
CONSTANTS
  N = 1
  Postponed = FALSE
  Offs <- OffsDef
  MaxDepth = 4
CONSTRAINT Bound
VIEW View
ACTION_CONSTRAINT Dump
INVARIANT FrameInRange
INVARIANT EvaluatedAtMostOnce
PROPERTY RejectedChangesNothing
CHECK_DEADLOCK FALSE
