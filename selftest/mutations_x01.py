"""Seeded mutations for X01 (value types).  Same record format as selftest/mutations.py.

    /venv/bin/python -m selftest.mutations_x01 [id ...] [--thorough]

Every mutant must make ``./check X01`` exit 1, except those marked ``expect="clean"``: they
replace one documented behaviour by ANOTHER behaviour the documentation equally allows
(returning an equal new instance instead of the operand itself) and must exit 0.
"""

from __future__ import annotations

import os
import shutil
import subprocess
import sys
from pathlib import Path

VERIF = Path(__file__).resolve().parent.parent

MUTATIONS = {
    # ---- geometry -------------------------------------------------------------------------
    "x01-size-accepts-zero-height": dict(
        file="geometry.py",
        old="        if height < 1:\n",
        new="        if height < 0:\n",
    ),
    "x01-size-new-swaps": dict(
        # the internal constructor (used for every Size the library hands out) swaps the fields
        file="geometry.py",
        old="        return tuple.__new__(cls, (width, height))\n\n\nRawSize.width.__doc__",
        new="        return tuple.__new__(cls, (height, width))\n\n\nRawSize.width.__doc__",
    ),
    # ---- padding: relative / resolve --------------------------------------------------------
    "x01-relative-needs-both": dict(
        file="padding.py",
        old='        _setattr("relative", not width > 0 < height)',
        new='        _setattr("relative", not (width > 0 or height > 0))',
    ),
    "x01-resolve-clamps-to-zero": dict(
        file="padding.py",
        old="            width = max(terminal_width + width, 1)",
        new="            width = max(terminal_width + width, 0)",
    ),
    "x01-resolve-drops-fill": dict(
        file="padding.py",
        old="        return type(self)(width, height, *args)",
        new="        return type(self)(width, height, *args[:2])",
    ),
    "x01-resolve-loses-subclass": dict(
        file="padding.py",
        old="        return type(self)(width, height, *args)",
        new="        return AlignedPadding(width, height, *args)",
    ),
    "x01-resolve-height-against-columns": dict(
        file="padding.py",
        old="            height = max(terminal_height + height, 1)",
        new="            height = max(terminal_width + height, 1)",
    ),
    "x01-to-exact-relative-not-refused": dict(
        # _get_exact_dimensions_ treats a relative dimension as "no padding" instead of raising
        file="padding.py",
        old="""    def _get_exact_dimensions_(self, render_size: Size) -> tuple[int, int, int, int]:
        if self.relative:
            raise RelativePaddingDimensionError("Relative minimum render dimension(s)")
""",
        new="""    def _get_exact_dimensions_(self, render_size: Size) -> tuple[int, int, int, int]:
""",
    ),
    # ---- padding: to_exact / get_padded_size / dimensions -------------------------------------
    "x01-to-exact-drops-fill": dict(
        file="padding.py",
        old="            else ExactPadding(*self._get_exact_dimensions_(render_size), self.fill)",
        new="            else ExactPadding(*self._get_exact_dimensions_(render_size))",
    ),
    "x01-exact-padded-size-top-twice": dict(
        file="padding.py",
        old="        return _Size(left + width + right, top + height + bottom)",
        new="        return _Size(left + width + right, top + height + top)",
    ),
    "x01-aligned-padded-size-ignores-render-width": dict(
        file="padding.py",
        old="        return _Size(max(self.width, render_size[0]), max(self.height, render_size[1]))",
        new="        return _Size(self.width, max(self.height, render_size[1]))",
    ),
    "x01-centre-odd-column-left": dict(
        file="padding.py",
        old="            left = padding_width * numerator // denominator",
        new="            left = -(-padding_width * numerator // denominator)",
    ),
    "x01-dimensions-reversed": dict(
        file="padding.py",
        old="""            Returns the padding dimensions, ``(left, top, right, bottom)``.
        \"\"\"
        return astuple(self)[:4]""",
        new="""            Returns the padding dimensions, ``(left, top, right, bottom)``.
        \"\"\"
        return astuple(self)[3::-1]""",
    ),
    "x01-min-size-swapped": dict(
        file="padding.py",
        old="        return _RawSize(self.width, self.height)",
        new="        return _RawSize(self.height, self.width)",
    ),
    "x01-pad-one-line-short": dict(
        # the padded output has one line less than get_padded_size() says
        file="padding.py",
        old='            bottom_padding = f"\\n{fill * width}" * bottom if bottom else ""',
        new='            bottom_padding = f"\\n{fill * width}" * (bottom - 1) if bottom else ""',
    ),
    # ---- padding: construction / immutability / equality / hashing -----------------------------
    "x01-exact-rejects-zero": dict(
        file="padding.py",
        old="            if value < 0:\n",
        new="            if value <= 0 and name == \"right\" and top:\n",
    ),
    "x01-exact-accepts-negative-bottom": dict(
        file="padding.py",
        old="            if value < 0:\n",
        new="            if value < 0 and name != \"bottom\":\n",
    ),
    "x01-exact-mutable": dict(
        file="padding.py",
        old="@dataclass(frozen=True)\nclass ExactPadding(Padding):",
        new="@dataclass(unsafe_hash=True)\nclass ExactPadding(Padding):",
    ),
    "x01-exact-eq-is-identity": dict(
        file="padding.py",
        old="@dataclass(frozen=True)\nclass ExactPadding(Padding):",
        new="@dataclass(frozen=True, eq=False)\nclass ExactPadding(Padding):",
    ),
    "x01-aligned-hash-by-identity": dict(
        file="padding.py",
        old="    def __repr__(self) -> str:\n        return \"{}(width={}, height={}, h_align={}, v_align={}, fill={!r})\".format(",
        new="    def __hash__(self) -> int:\n        return id(self)\n\n"
            "    def __repr__(self) -> str:\n        return \"{}(width={}, height={}, h_align={}, v_align={}, fill={!r})\".format(",
    ),
    "x01-aligned-eq-ignores-fill": dict(
        file="padding.py",
        old="    def __repr__(self) -> str:\n        return \"{}(width={}, height={}, h_align={}, v_align={}, fill={!r})\".format(",
        new="    def __eq__(self, other):\n        if other.__class__ is not self.__class__:\n            return NotImplemented\n"
            "        return astuple(self)[:4] == astuple(other)[:4]\n\n"
            "    def __hash__(self) -> int:\n        return hash(astuple(self)[:4])\n\n"
            "    def __repr__(self) -> str:\n        return \"{}(width={}, height={}, h_align={}, v_align={}, fill={!r})\".format(",
    ),
    "x01-aligned-default-align-left": dict(
        file="padding.py",
        old="        h_align: HAlign = HAlign.CENTER,\n",
        new="        h_align: HAlign = HAlign.LEFT,\n",
    ),
    # ---- colour ---------------------------------------------------------------------------------
    "x01-color-alpha-unchecked": dict(
        file="color.py",
        old="        if (r | g | b | a) & ~255:  # First test to see if *any* is out of range",
        new="        if (r | g | b) & ~255:  # First test to see if *any* is out of range",
    ),
    "x01-color-rejects-255": dict(
        file="color.py",
        old="        if (r | g | b | a) & ~255:  # First test to see if *any* is out of range",
        new="        if (r | g | b | a) & ~255 or g == 255:  # First test to see if *any* is out of range",
    ),
    "x01-hex-uppercase": dict(
        file="color.py",
        old='        return "#%02x%02x%02x%02x" % self',
        new='        return "#%02X%02X%02X%02X" % self',
    ),
    "x01-hex-unpadded": dict(
        file="color.py",
        old='        return "#%02x%02x%02x%02x" % self',
        new='        return "#%02x%02x%02x%2x" % self',
    ),
    "x01-rgb-hex-with-alpha": dict(
        file="color.py",
        old='        return "#%02x%02x%02x" % self[:3]',
        new='        return "#%02x%02x%02x%02x" % self',
    ),
    "x01-rgb-is-four": dict(
        file="color.py",
        old="        return self[:3]",
        new="        return self[:4]",
    ),
    "x01-from-hex-alpha-default-zero": dict(
        file="color.py",
        old='        return tuple.__new__(cls, [int(x, 16) for x in match.groups("ff")])',
        new='        return tuple.__new__(cls, [int(x, 16) for x in match.groups("00")])',
    ),
    "x01-from-hex-prefix-match": dict(
        file="color.py",
        old="        if not (match := _RGBA_HEX_RE.fullmatch(color)):",
        new="        if not (match := _RGBA_HEX_RE.match(color)):",
    ),
    "x01-from-hex-dollar-anchor": dict(
        # `$` also matches before a trailing newline
        file="color.py",
        old="        if not (match := _RGBA_HEX_RE.fullmatch(color)):",
        new="        if not (match := re.match(_RGBA_HEX_RE.pattern + '$', color, re.A | re.I)):",
    ),
    "x01-from-hex-many-pounds": dict(
        file="color.py",
        old='_RGBA_HEX_RE = re.compile(rf"#?({XX})({XX})({XX})({XX})?", re.A | re.I)',
        new='_RGBA_HEX_RE = re.compile(rf"#*({XX})({XX})({XX})({XX})?", re.A | re.I)',
    ),
    "x01-from-hex-case-sensitive": dict(
        file="color.py",
        old='_RGBA_HEX_RE = re.compile(rf"#?({XX})({XX})({XX})({XX})?", re.A | re.I)',
        new='_RGBA_HEX_RE = re.compile(rf"#?({XX})({XX})({XX})({XX})?", re.A)',
    ),
    "x01-from-hex-int-parser": dict(
        # two-character groups handed to int(x, 16): accepts "+f", " f", fullwidth digits
        file="color.py",
        old='XX = "[0-9a-f]{2}"',
        new='XX = r"(?:[0-9a-f]{2}|[+ ][0-9a-f]|[０-９]{2})"',
    ),
    "x01-from-hex-pound-required-for-rgba": dict(
        file="color.py",
        old="        if not (match := _RGBA_HEX_RE.fullmatch(color)):",
        new="        if not (match := _RGBA_HEX_RE.fullmatch(color)) or (len(color) == 8 and color[0] != '#'):",
    ),
    "x01-from-hex-loses-subclass": dict(
        file="color.py",
        old='        return tuple.__new__(cls, [int(x, 16) for x in match.groups("ff")])',
        new='        return tuple.__new__(Color, [int(x, 16) for x in match.groups("ff")])',
    ),
    # ---- need something specific to manifest ------------------------------------------------------
    "x01-exact-dims-cached-without-minimum": dict(
        # a cache of the exact dimensions keyed by alignment and render size only: the result
        # depends on which padding asked first (history-dependent)
        edits=[
            dict(file="padding.py", old="_ALIGN_RATIOS = ((0, 1), (1, 2), (1, 1))\n",
                 new="_ALIGN_RATIOS = ((0, 1), (1, 2), (1, 1))\n_DIMS_CACHE = {}\n"),
            dict(file="padding.py", old="""        if self.relative:
            raise RelativePaddingDimensionError("Relative minimum render dimension(s)")

        width, height, h_align, v_align = astuple(self)[:4]
        render_width, render_height = render_size
""", new="""        if self.relative:
            raise RelativePaddingDimensionError("Relative minimum render dimension(s)")

        key = (self.h_align, self.v_align, tuple(render_size))
        if key in _DIMS_CACHE:
            return _DIMS_CACHE[key]
        _DIMS_CACHE[key] = result = self._compute_dims(render_size)
        return result

    def _compute_dims(self, render_size):
        width, height, h_align, v_align = astuple(self)[:4]
        render_width, render_height = render_size
"""),
        ],
    ),
    "x01-to-exact-empty-fill-becomes-space": dict(
        file="padding.py",
        old="            else ExactPadding(*self._get_exact_dimensions_(render_size), self.fill)",
        new="            else ExactPadding(*self._get_exact_dimensions_(render_size), self.fill or \" \")",
    ),
    "x01-relative-ignores-zero-height": dict(
        file="padding.py",
        old='        _setattr("relative", not width > 0 < height)',
        new='        _setattr("relative", not width > 0 <= height)',
    ),
    "x01-resolve-one-axis-only": dict(
        # when both dimensions are relative only the width is resolved
        file="padding.py",
        old="        if height <= 0:\n            height = max(terminal_height + height, 1)",
        new="        elif height <= 0:\n            height = max(terminal_height + height, 1)",
    ),
    "x01-size-equality-class-sensitive": dict(
        # a Size no longer equals a RawSize / tuple with the same fields
        file="geometry.py",
        old="    __slots__ = ()\n\n    def __new__(cls, width: int, height: int) -> Self:\n        if width < 1:",
        new="    __slots__ = ()\n\n    def __eq__(self, other):\n        return isinstance(other, Size) and tuple.__eq__(self, other)\n\n"
            "    def __ne__(self, other):\n        return not self == other\n\n    __hash__ = tuple.__hash__\n\n"
            "    def __new__(cls, width: int, height: int) -> Self:\n        if width < 1:",
    ),
    "x01-color-hash-includes-class": dict(
        file="color.py",
        old="    __slots__ = ()\n\n    # Overrides these descriptors",
        new="    __slots__ = ()\n\n    def __hash__(self):\n        return hash((type(self).__name__, tuple(self)))\n\n    # Overrides these descriptors",
    ),
    # ---- the abstract base class / extension API -----------------------------------------------------
    "x01-padding-base-instantiable": dict(
        file="padding.py",
        old="    @abstractmethod\n    def _get_exact_dimensions_(self, render_size: Size) -> tuple[int, int, int, int]:\n        \"\"\"Returns the exact padding dimensions for",
        new="    def _get_exact_dimensions_(self, render_size: Size) -> tuple[int, int, int, int]:\n        \"\"\"Returns the exact padding dimensions for",
    ),
    "x01-to-exact-only-converts-aligned": dict(
        # a user-defined padding class is handed back unconverted (it is not an ExactPadding)
        file="padding.py",
        old="            if isinstance(self, ExactPadding)\n",
        new="            if not isinstance(self, AlignedPadding)\n",
    ),
    # ---- documented alternatives: must NOT alarm ----------------------------------------------------
    "x01-ok-resolve-returns-copy": dict(
        expect="clean",
        file="padding.py",
        old="        if not self.relative:\n            return self\n\n        width, height, *args, _ = astuple(self)",
        new="        width, height, *args, _ = astuple(self)",
    ),
    "x01-ok-to-exact-returns-copy": dict(
        expect="clean",
        file="padding.py",
        old="""        return (
            self
            if isinstance(self, ExactPadding)
            else ExactPadding(*self._get_exact_dimensions_(render_size), self.fill)
        )""",
        new="""        return ExactPadding(*self._get_exact_dimensions_(render_size), self.fill)""",
    ),
}


def apply(mid: str) -> Path:
    m = MUTATIONS[mid]
    root = Path(f"/tmp/verif-selftest-{mid}")
    shutil.rmtree(root, ignore_errors=True)
    root.mkdir(parents=True)
    subprocess.run(["rsync", "-a", "/repo/src", str(root) + "/"], check=True)
    for e in (m["edits"] if "edits" in m else [m]):
        f = root / "src" / "term_image" / e["file"]
        text = f.read_text()
        if text.count(e["old"]) != 1:
            raise SystemExit(f"{mid}: pattern occurs {text.count(e['old'])} times in {e['file']}")
        f.write_text(text.replace(e["old"], e["new"]))
    subprocess.run([sys.executable, "-m", "compileall", "-q", str(root / "src" / "term_image")], check=True)
    return root


def run(mid: str, tier: str = "quick") -> bool:
    root = apply(mid)
    try:
        env = dict(os.environ, VERIF_REPO=str(root))
        p = subprocess.run([str(VERIF / "check"), "X01", "--tier", tier], env=env, cwd=VERIF,
                           stdout=subprocess.PIPE, stderr=subprocess.STDOUT, text=True, timeout=3600)
    finally:
        shutil.rmtree(root, ignore_errors=True)
    sigs = sorted({ln.strip()[len("signature: "):] for ln in p.stdout.splitlines() if ln.strip().startswith("signature:")})
    if MUTATIONS[mid].get("expect") == "clean":
        ok = p.returncode == 0
        print(f"MUT {mid} X01 exit={p.returncode} {'clean (as required)' if ok else 'ALARMS'} {sigs}", flush=True)
    else:
        ok = p.returncode == 1 and bool(sigs)
        status = "caught" if ok else ("MACHINERY" if p.returncode == 2 else "MISSED")
        print(f"MUT {mid} X01 exit={p.returncode} {status} {sigs}", flush=True)
    if p.returncode == 2:
        print("\n".join(p.stdout.splitlines()[-15:]))
    return ok


def main() -> int:
    args = [a for a in sys.argv[1:] if not a.startswith("--")]
    tier = "thorough" if "--thorough" in sys.argv else "quick"
    ids = args or list(MUTATIONS)
    bad = [m for m in ids if not run(m, tier)]
    print(f"{len(ids) - len(bad)}/{len(ids)} as expected" + (f"; not: {bad}" if bad else ""))
    return 1 if bad else 0


if __name__ == "__main__":
    sys.exit(main())
