---------------------------- MODULE MC_RenderShape ----------------------------
(* Exhaustive check of the design-level statement of C01 (see RenderShape).  *)
EXTENDS RenderShape

CONSTANTS MaxW, MaxH, Margin

VARIABLES par, l, T, bad
vars == <<par, l, T, bad>>

Params ==
  [style : {"block"}, method : {"lines"}, quirk : {"other"}, mix : {FALSE}, blend : {TRUE},
   nch : {1}, split : BOOLEAN, rw : 1..MaxW, rh : 1..MaxH]
  \cup
  [style : {"kitty"}, method : {"lines", "whole"}, quirk : {"other"}, mix : BOOLEAN,
   blend : BOOLEAN, nch : 1..3, split : {FALSE}, rw : 1..MaxW, rh : 1..MaxH]
  \cup
  [style : {"iterm2"}, method : {"lines", "whole"}, quirk : {"other", "konsole", "wezterm"},
   mix : BOOLEAN, blend : {TRUE}, nch : {1}, split : {FALSE}, rw : 1..MaxW, rh : 1..MaxH]

\* start positions: every row where it fits; every column for one-line outputs, column 0 otherwise
Starts(p) ==
  {[cols |-> p.rw + dc, rows |-> p.rh + dr, r0 |-> r0, c0 |-> c0] :
      dc \in 0..Margin, dr \in 0..Margin, r0 \in 0..Margin, c0 \in 0..Margin} 

Fits(p, s) == s.r0 + p.rh <= s.rows /\ s.c0 + p.rw <= s.cols /\ (p.rh > 1 => s.c0 = 0)

Sh == Shape(par.p)
N == Len(Sh.toks)
Geo == [r0 |-> par.s.r0, c0 |-> par.s.c0, rw |-> par.p.rw, rh |-> par.p.rh, cols |-> par.s.cols]

Rect(g) == {<<rr, cc>> : rr \in g.r0..(g.r0 + g.rh - 1), cc \in g.c0..(g.c0 + g.rw - 1)}

StepOK(g, S) ==
  /\ S.err = "" /\ S.wraps = 0 /\ S.scrolls = 0
  /\ Touched(S) \subseteq Rect(g)
  /\ S.r \in g.r0..(g.r0 + g.rh - 1)
  /\ S.c \in g.c0..Min(g.c0 + g.rw, g.cols - 1)

EndOK(g, S) ==
  /\ Touched(S) = Rect(g)
  /\ S.r = g.r0 + g.rh - 1
  /\ S.c = Min(g.c0 + g.rw, g.cols - 1)
  /\ SgrDefault(S) /\ S.lfs = g.rh - 1 /\ S.rx = 0 /\ S.vis /\ S.sync = 0

Init ==
  /\ par \in {[p |-> p, s |-> s] : p \in Params, s \in UNION {{s \in Starts(p) : Fits(p, s)} : p \in Params}}
  /\ Fits(par.p, par.s)
  /\ l = 0
  /\ T = NewTerminal(par.s.cols, par.s.rows, par.s.r0, par.s.c0)
  /\ bad = FALSE

Consume ==
  /\ l < N
  /\ l' = l + 1
  /\ T' = Apply(T, Sh.toks[l + 1], Sh.gfx)
  /\ bad' = (bad \/ ~StepOK(Geo, T'))
  /\ UNCHANGED par

Finish ==
  /\ l = N
  /\ l' = N + 1
  /\ bad' = (bad \/ ~EndOK(Geo, T) \/ Sh.toks[N].k = "lf")
  /\ UNCHANGED <<par, T>>

Next == Consume \/ Finish
Spec == Init /\ [][Next]_vars

RectangleClauses == ~bad
CursorAlwaysOnScreen == CursorOnScreen(T)
PlacementsNeverChangeCells == \A i \in DOMAIN T.pl : T.pl[i].w >= 1 /\ T.pl[i].h >= 1
=============================================================================
