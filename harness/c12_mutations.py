"""Development tool (not run by ./check): seeded code mutations for C12 / C13.

usage: /venv/bin/python harness/c12_mutations.py C12|C13 [name ...]
Each mutation is applied to a scratch copy of /repo/src under /tmp/build-c12-c13 (removed
afterwards) and `VERIF_REPO=<copy> ./check <ID>` is run; prints exit code and signatures.
For C12 every copy also has F1 repaired, so that exit 1 is due to the mutation.
"""
import os, re, subprocess, sys, shutil, time
ROOT = "/tmp/build-c12-c13"
F1_OLD = "    r, g, b = [int(component, 16) * 255 // uint_scale_max for component in rgb]"
F1_NEW = "    r, g, b = [int(c, 16) * 255 // ((1 << (len(c) * 4)) - 1) for c in rgb]"
U = "src/term_image/utils.py"; C = "src/term_image/_ctlseqs.py"; K = "src/term_image/image/kitty.py"
I = "src/term_image/image/iterm2.py"; A = "src/term_image/image/__init__.py"; R = "src/term_image/renderable/_renderable.py"
def sub(path, old, new, count=1):
    def f(root):
        p = os.path.join(root, path); s = open(p).read()
        assert s.count(old) >= 1, (path, old)
        open(p, "w").write(s.replace(old, new, count))
    return f
COLOR_Q = '''            ctlseqs.TEXT_FG_QUERY_b + ctlseqs.TEXT_BG_QUERY_b + ctlseqs.DA1_b,
            # The response might contain a "c"; can't stop reading at "c"
            lambda s: not s.endswith(ctlseqs.CSI_b),'''
M = {
 "C12": {
  "f1fixed": [],
  "more_c_for_colour": [sub(U, COLOR_Q, COLOR_Q.replace("ctlseqs.CSI_b)", 'b"c"))').replace('not s.endswith(b"c"))', 'not s.endswith(b"c")'))],
  "drop_second_read": [sub(U, '''        if _queries_enabled:
            read_tty()  # The rest of the response to DA1

    fg = bg = None''', '''        if _queries_enabled:
            pass

    fg = bg = None''')],
  "timeout_not_reduced": [sub(U, "None if timeout < 0 else timeout - duration)", "None if timeout < 0 else timeout)")],
  "precedence_255": [sub(C, F1_NEW, "    r, g, b = [int(c, 16) * (255 // ((1 << (len(c) * 4)) - 1)) for c in rgb]")],
  "kitty_gt": [sub(K, "if version_tuple >= (0, 20, 0):", "if version_tuple > (0, 20, 0):")],
  "styles_order": [sub(A, "_styles = (KittyImage, ITerm2Image, BlockImage)", "_styles = (ITerm2Image, KittyImage, BlockImage)")],
  "flush_now": [sub(U, "termios.tcsetattr(_tty_fd, termios.TCSAFLUSH, new_attr)", "termios.tcsetattr(_tty_fd, termios.TCSANOW, new_attr)")],
  "no_lower": [sub(U, "return (name and name.lower(), version)", "return (name, version)")],
  "swap_cell_reply": [sub(U, "                    cell_size = tuple(map(int, match.groups()))[::-1]", "                    cell_size = tuple(map(int, match.groups()))[::-1]\n                    if _swap_win_size:\n                        cell_size = cell_size[::-1]")],
  "konsole_threshold": [sub(I, ">= (22, 4, 0)", ">= (22, 3, 0)")],
  "select_none": [sub(U, "None if timeout < 0 else timeout - duration)", "None)")],
  "read_two": [sub(U, "input.extend(os.read(_tty_fd, 1))", "input.extend(os.read(_tty_fd, 2))")],
 },
 "C13": {
  "set_above_try": [sub(U, '''    input = bytearray()
    try:
        w: list[int]
        x: list[int]
        r, w, x = [_tty_fd], [], []
        termios.tcsetattr(_tty_fd, termios.TCSANOW, new_attr)
''', '''    input = bytearray()
    termios.tcsetattr(_tty_fd, termios.TCSANOW, new_attr)
    try:
        w: list[int]
        x: list[int]
        r, w, x = [_tty_fd], [], []
''')],
  "restore_new_read": [sub(U, '''            # logging.debug(duration)
    finally:
        termios.tcsetattr(_tty_fd, termios.TCSANOW, old_attr)''', '''            # logging.debug(duration)
    finally:
        termios.tcsetattr(_tty_fd, termios.TCSANOW, new_attr)''')],
  "restore_new_query": [sub(U, '''        return read_tty(more, timeout or _query_timeout)
    finally:
        termios.tcsetattr(_tty_fd, termios.TCSANOW, old_attr)''', '''        return read_tty(more, timeout or _query_timeout)
    finally:
        termios.tcsetattr(_tty_fd, termios.TCSANOW, new_attr)''')],
  "finally_to_else_read": [sub(U, '''            # logging.debug(duration)
    finally:
        termios.tcsetattr(_tty_fd, termios.TCSANOW, old_attr)''', '''            # logging.debug(duration)
    except BaseException:
        raise
    else:
        termios.tcsetattr(_tty_fd, termios.TCSANOW, old_attr)''')],
  "finally_to_else_query": [sub(U, '''        write_tty(request)
        return read_tty(more, timeout or _query_timeout)
    finally:
        termios.tcsetattr(_tty_fd, termios.TCSANOW, old_attr)''', '''        write_tty(request)
        result = read_tty(more, timeout or _query_timeout)
    except BaseException:
        raise
    else:
        termios.tcsetattr(_tty_fd, termios.TCSANOW, old_attr)
        return result''')],
  "draw_restore_if_hide": [sub(R, '''            if not_echo_input:
                termios.tcsetattr(output_fd, termios.TCSANOW, old_attr)''', '''            if not_echo_input and hide_cursor:
                termios.tcsetattr(output_fd, termios.TCSANOW, old_attr)''')],
  "alias_old_new": [sub(U, '''    old_attr = termios.tcgetattr(_tty_fd)
    new_attr = termios.tcgetattr(_tty_fd)
    new_attr[3] &= ~termios.ECHO  # Disable input echo''', '''    old_attr = termios.tcgetattr(_tty_fd)
    new_attr = old_attr
    new_attr[3] &= ~termios.ECHO  # Disable input echo''')],
  "vmin_not_restored": [sub(U, '''    finally:
        termios.tcsetattr(_tty_fd, termios.TCSANOW, old_attr)

    return bytes(input)''', '''    finally:
        old_attr[6][termios.VMIN] = new_attr[6][termios.VMIN]
        termios.tcsetattr(_tty_fd, termios.TCSANOW, old_attr)

    return bytes(input)''')],
  "swallow_interrupt_draw": [sub(R, '''        finally:
            output.write("\\n")
            if hide_cursor:
                output.write(SHOW_CURSOR)
            output.flush()
            if not_echo_input:''', '''        finally:
            output.write("\\n")
            if hide_cursor:
                output.write(SHOW_CURSOR)
            output.flush()
            if not_echo_input and sys.exc_info()[0] is not KeyboardInterrupt:''')],
 },
}
prop = sys.argv[1]
names = sys.argv[2:] or list(M[prop])
for name in names:
    root = os.path.join(ROOT, prop, name)
    shutil.rmtree(root, ignore_errors=True); os.makedirs(root)
    subprocess.run(["rsync", "-a", "/repo/src", root + "/"], check=True)
    if prop == "C12":
        sub(C, F1_OLD, F1_NEW)(root)
    for f in M[prop][name]:
        f(root)
    t0 = time.time()
    p = subprocess.run(["./check", prop], cwd="/verif", env=dict(os.environ, VERIF_REPO=root), capture_output=True, text=True, timeout=1500)
    sigs = sorted(set(re.findall(r"signature: (.*)", p.stdout)))
    tail = p.stdout.strip().splitlines()[-1] if p.stdout.strip() else ""
    print(f"{prop} {name}: exit {p.returncode} in {time.time()-t0:.0f}s sigs={sigs[:8]} :: {tail[-160:]}", flush=True)
    if p.returncode == 2: print(p.stdout[-1500:], flush=True)
    shutil.rmtree(root, ignore_errors=True)
