"""C04 - automatic sizing always fits the frame, fills it, and preserves aspect ratio.

model:    specs/Sizing.tla  (a) SizeClause/SizeRel = THE PROPERTY as an integer relation,
                            (b) Algo = exact-rational transcription of _valid_size,
                            (c) history machine core (Fixed(w,h) | Dynamic(mode)).
          specs/MC_Sizing      TLC: Algo => SizeRel over the whole small grid.
          specs/MC_SizingHist  TLC: history machine, invariants + every transition dumped.
binding:  spec -> code  every dumped transition is replayed into a REAL image object
                        (covering walks; size / rendered_size / size-during-render compared
                        after every operation).
          code -> spec  events recorded from the REAL set_size / size= / width= / height= /
                        rendered_size / render / UrwidImage.rows() are validated by TLC against
                        specs/Trace_Sizing.tla: (i) the small grid exhaustively, (ii) seeded
                        large inputs, (iii) seeded histories.
Python only drives, records and reports; every verdict is a clause name printed by TLC.
"""

from __future__ import annotations

import json
import math
import random
import re
import time
from concurrent.futures import ThreadPoolExecutor
from fractions import Fraction

from .. import c04_exec as X
from .. import graph, tlc
from ..core import Report

ASSUMPTIONS = [
    "exact aspect-preserving value: an image of ow x oh source pixels shown on W columns x H lines "
    "keeps its aspect ratio iff  H*CH = W*CW * (oh/ow) * pixel_ratio  (text family: CW x CH = 1 x 2 "
    "render pixels per cell, pixel ratio = 2 * cell ratio; graphics family: CW x CH = cell size in "
    "pixels, fallback 1 x 2, pixel ratio 1); 'less than one cell' is |actual - exact| < 1 on the "
    "dimension that was not fixed; 'never below 1' follows from positivity",
    "FIT: within the frame on both axes, equal to the frame on at least one axis, and the other "
    "axis within one cell of the exact value for the touched axis (either axis when both touch)",
    "ORIGINAL: within one cell of (ow/CW, oh*pixel_ratio/CH) on both axes",
    "AUTO: 'the source scaled for the pixel ratio fits the frame's pixel area' is taken in whole "
    "pixels: ow <= frame width px and round(oh*pixel_ratio) <= frame height px; when oh*pixel_ratio "
    "is exactly half way between two pixels either answer is accepted; 'equals ORIGINAL / FIT' is "
    "checked against what the real ORIGINAL / FIT requests return in the same environment, and "
    "against the ORIGINAL / FIT clauses",
    "the cell ratio handed to set_cell_ratio is the float nearest to rn/rd; the relation is "
    "evaluated for rn/rd exactly (a float error can only matter at exact rounding ties, where the "
    "relation accepts both neighbours); differences between the float code and the exact-rational "
    "transcription Algo that stay inside the relation are counted, not reported",
    "UrwidImage.rows((cols,)): height of the width=cols size when upscaling, else of ORIGINAL when "
    "the original is narrower than cols (either when the exact original width is within one cell of cols)",
    "terminal size / cell size are substituted at term_image.utils (harness/env/stubs.py); "
    "AutoCellRatio.is_supported is set explicitly (documented) to use the DYNAMIC ratio without a tty",
    "spec->code replay compares with Algo by equality: MC_SizingHist proves (invariant "
    "NoTieReachable, property SetStoresFixedInRel) that no rounding in any replayed computation "
    "is an exact tie, so float and exact arithmetic cannot legitimately differ there",
]

ALL_BRANCHES = {
    "original", "fit_to_width", "fit:w", "fit:w:clamped", "fit:h", "fit:h:clamped",
    "auto>original", "auto>fit:w", "auto>fit:w:clamped", "auto>fit:h", "auto>fit:h:clamped",
    "given-width", "given-height",
}

CELLS = [(0, 0), (1, 2), (2, 3), (3, 5)]
RATIOS = [(1, 4), (1, 3), (1, 2), (3, 5), (1, 1), (2, 1)]
MAXTC, MAXTL = 12, 8

_COV = re.compile(r"^<(\w+) line [^>]*? of module (\w+)(?: \([\d ]+\))?>: (\d+):(\d+)", re.M)


# --------------------------------------------------------------------------- (i) the grid


def variants():
    v = [dict(fam="text", cw=0, ch=0, rn=n, rd=d) for n, d in RATIOS]
    v += [dict(fam="text", cw=c[0], ch=c[1], rn=0, rd=1) for c in CELLS]
    v += [dict(fam="gfx", cw=c[0], ch=c[1], rn=1, rd=2) for c in CELLS]
    return v


def term_frames(full: bool):
    tfs = [(5, 4, fc, fl) for fc in range(1, MAXTC + 1) for fl in range(1, MAXTL + 1)]
    if full:
        terms = [(tc, tl) for tc in range(1, MAXTC + 1) for tl in range(1, MAXTL + 1)]
    else:
        terms = [(1, 1), (2, 3), (12, 8), (5, 2), (7, 5), (3, 8), (12, 1), (1, 8), (9, 4)]
    for tc, tl in terms:
        tfs += [(tc, tl, 0, -2), (tc, tl, 0, 0)]
        if not full:
            tfs.append((tc, tl, -3, -1))
    tfs += [(tc, tl, -1, 3) for tc in (1, 2, 7) for tl in (1, 5)]
    tfs += [(tc, tl, 4, -1) for tc in (1, 9) for tl in (1, 2, 6)]
    return tfs


def grid_calls(tfs):
    calls = []
    for tc, tl, fc, fl in tfs:
        for k in ("ORIGINAL", "FIT", "AUTO", "FIT_TO_WIDTH"):  # AUTO after its two references
            calls.append((tc, tl, fc, fl, k, 0, 0))
    for a in range(1, MAXTC + 1):
        calls.append((5, 4, 0, -2, "W", a, 0))
    for a in range(1, MAXTL + 1):
        calls.append((5, 4, 0, -2, "H", a, 0))
    for a, b in ((1, 1), (3, 2), (12, 8)):
        calls.append((5, 4, 0, -2, "WH", a, b))
    return calls


def gen_grid_traces(rep, max_o: int, full_upto: int):
    """One trace of bulk set_size calls per (variant, original).  Originals up to `full_upto`
    get every terminal/frame combination of the MC_Sizing grid, larger ones the subset."""
    tfs_sub, tfs_full = term_frames(False), term_frames(True)
    calls_sub, calls_full = grid_calls(tfs_sub), grid_calls(tfs_full)
    traces = []
    ncalls = 0
    for v in variants():
        base = dict(cw=v["cw"], ch=v["ch"], rn=v["rn"], rd=v["rd"])
        for ow in range(1, max_o + 1):
            for oh in range(1, max_o + 1):
                calls = calls_full if max(ow, oh) <= full_upto else calls_sub
                try:
                    recs = X.run_calls(v["fam"], ow, oh, base, calls)
                except X.ExecError as e:
                    rep.violation(f"grid:{e.what}:{v['fam']}", e.detail,
                                  {"kind": "calls", "fam": v["fam"], "ow": ow, "oh": oh, "base": base,
                                   "calls": calls})
                    continue
                ncalls += len(recs)
                traces.append(dict(fam=v["fam"], ow=ow, oh=oh, base=base, ev=[], calls=recs,
                                   origin="grid"))
    return traces, ncalls, (len(tfs_sub), len(tfs_full))


# ------------------------------------------------------------ (ii) large inputs, (iii) histories


def draw_ratio(rng):
    r = rng.random()
    if r < 0.12:
        return (0, 1)  # from the cell size
    if r < 0.45:  # dyadic
        j = rng.choice([1, 2, 3, 4])
        f = Fraction(rng.randrange(1, 3 * 2**j + 1), 2**j)
    else:  # non-dyadic
        d = rng.choice([3, 5, 6, 7, 9, 10, 11, 13, 20, 25, 33, 50])
        f = Fraction(rng.randrange(max(1, d // 5), 3 * d + 1), d)
    return (f.numerator, f.denominator)


def draw_env(rng, big: bool):
    if big:
        tc, tl = rng.randrange(1, 401), rng.randrange(1, 121)
        cell = rng.choice([(0, 0), (0, 0), (rng.randrange(4, 13), rng.randrange(8, 25)),
                           (rng.randrange(1, 13), rng.randrange(1, 25))])
    else:
        tc, tl = rng.randrange(1, 31), rng.randrange(1, 13)
        cell = rng.choice([(0, 0), (1, 2), (2, 3), (3, 5), (5, 11), (9, 18)])
    rn, rd = draw_ratio(rng)
    return dict(tc=tc, tl=tl, cw=cell[0], ch=cell[1], rn=rn, rd=rd)


def draw_frame(rng, env):
    r = rng.random()
    if r < 0.35:
        return (0, -2)
    if r < 0.6:
        return (-rng.randrange(0, 6), -rng.randrange(0, 6))
    if r < 0.85:
        return (rng.randrange(1, env["tc"] + 20), rng.randrange(1, env["tl"] + 10))
    return (rng.randrange(1, 30), -rng.randrange(0, 4)) if rng.random() < 0.5 else (
        -rng.randrange(0, 4), rng.randrange(1, 20))


def draw_original(rng, fam, env, big: bool):
    """Source sizes biased towards the decision boundaries (AUTO fit test, FIT clamps)."""
    hi = 4000 if big else 64
    d = X.derived(fam, 1, 1, dict(env, fc=0, fl=-2))
    r = rng.random()
    if r < 0.3:  # around 'just fits the frame'
        ow = d["FW"] + rng.choice([-1, 0, 0, 1])
        oh = int(Fraction(d["FH"] * d["PD"], d["PN"])) + rng.choice([-1, 0, 1])
    elif r < 0.5:  # same aspect as the frame (both axes nearly constrain)
        s = Fraction(rng.randrange(1, 40), rng.randrange(1, 8))
        ow = int(d["FW"] * s) + rng.choice([-1, 0, 1])
        oh = int(d["FH"] * s * d["PD"] / d["PN"]) + rng.choice([-1, 0, 1])
    elif r < 0.6:
        ow, oh = rng.choice([(1, hi), (hi, 1), (1, 1), (2, 1), (1, 2), (hi, hi)])
    else:
        ow, oh = rng.randrange(1, hi + 1), rng.randrange(1, hi + 1)
    return min(max(ow, 1), hi), min(max(oh, 1), hi)


def draw_request(rng, env):
    r = rng.random()
    if r < 0.6:
        return (rng.choice(X.SIZE_MODES), 0, 0)
    if r < 0.78:
        return ("W", rng.randrange(1, env["tc"] + 10), 0)
    if r < 0.96:
        return ("H", rng.randrange(1, env["tl"] + 10), 0)
    return ("WH", rng.randrange(1, 50), rng.randrange(1, 30))


def op_record(op, env, k="", a=0, b=0, fc=0, fl=-2, ax="w"):
    return dict(op=op, k=k, a=a, b=b, fc=fc, fl=fl, ax=ax, **env)


def safe(fam, ow, oh, op) -> bool:
    given = [("rows", op["a"], 0)] if op["op"] == "rows" else [(op["k"], op["a"], op["b"])]
    return X.products_ok(fam, ow, oh, op, given) and X.products_ok(fam, ow, oh, dict(op, fc=0, fl=-2), given)


def gen_ops(rng, big: bool, history: bool):
    """One object's op list: (fam, ow, oh, ops).  `history` mixes environment changes,
    renders and observations between the set operations."""
    fam = rng.choice(["text", "gfx"])
    env = draw_env(rng, big)
    ow, oh = draw_original(rng, fam, env, big)
    n = rng.randrange(8, 15)
    ops = []
    first = rng.random()
    if first < 0.7:
        ops.append(op_record("new", env))
    else:
        k, a, b = draw_request(rng, env)
        ops.append(op_record("new", env, k, a, b, ax=rng.choice("wh")))
    while len(ops) < n:
        r = rng.random()
        if history and r < 0.2:
            env = dict(env, **{f: v for f, v in draw_env(rng, big).items() if f in ("tc", "tl", "cw", "ch")})
            op = op_record("resize", env)
        elif history and r < 0.32:
            rn, rd = draw_ratio(rng)
            env = dict(env, rn=rn, rd=rd)
            op = op_record("cell_ratio", env)
        elif history and r < 0.42:
            op = op_record("render", env)
        elif history and r < 0.47:
            op = op_record("observe", env)
        elif r < 0.57:
            op = op_record("rows", env, a=rng.randrange(1, env["tc"] + 5), b=rng.choice([0, 1]))
        elif r < 0.67:
            k = rng.choice(X.SIZE_MODES + ("WH",))
            op = op_record("size=", env, k, *((rng.randrange(1, 40), rng.randrange(1, 20)) if k == "WH" else (0, 0)))
        elif r < 0.74:
            k, a, b = rng.choice([("W", rng.randrange(1, env["tc"] + 10), 0), (rng.choice(X.SIZE_MODES), 0, 0)])
            op = op_record("width=", env, k, a, b)
        elif r < 0.81:
            k, a, b = rng.choice([("H", rng.randrange(1, env["tl"] + 10), 0), (rng.choice(X.SIZE_MODES), 0, 0)])
            op = op_record("height=", env, k, a, b, ax="h")
        else:
            k, a, b = draw_request(rng, env)
            fc, fl = draw_frame(rng, env)
            op = op_record("set_size", env, k, a, b, fc, fl, ax=rng.choice("wh"))
        ops.append(op)
    # keep every product the specification forms below 2^31 (drop what does not qualify)
    ops = [o for o in ops if safe(fam, ow, oh, o)]
    if not ops or ops[0]["op"] != "new":
        return None
    return fam, ow, oh, ops


RENDER_MAX_CELLS = 1500


def execute(rep, fam, ow, oh, ops, origin):
    """Run ops on the real code; big renders are recorded as plain observations."""
    ops = [dict(o) for o in ops]
    try:
        # a render is only attempted when the size in force is small (time); decided by a dry
        # observation, not by the spec
        evs = X.run_ops(fam, ow, oh, _tame_renders(fam, ow, oh, ops))
    except X.ExecError as e:
        rep.violation(f"{origin}:{e.what}:{fam}", e.detail,
                      {"kind": "ops", "fam": fam, "ow": ow, "oh": oh, "ops": ops, "origin": origin})
        return None
    clamped = sum(X.clamp_event(fam, ow, oh, ev) for ev in evs)
    return dict(fam=fam, ow=ow, oh=oh, base=dict(cw=0, ch=0, rn=1, rd=2), ev=evs, calls=[],
                origin=origin, clamped=clamped)


def _tame_renders(fam, ow, oh, ops):
    if not any(o["op"] == "render" for o in ops):
        return ops
    probe = [dict(o, op="observe") if o["op"] == "render" else o for o in ops]
    evs = X.run_ops(fam, ow, oh, probe)
    out = []
    for o, ev in zip(ops, evs):
        if o["op"] == "render" and ev["rw"] * ev["rh"] > RENDER_MAX_CELLS:
            o = dict(o, op="observe")
        out.append(o)
    return out


# ------------------------------------------------------------------------ spec -> code replay


def edge_to_op(edge):
    o = edge["op"]["o"]
    to = edge["to"]
    env = {f: to[f] for f in ("tc", "tl", "cw", "ch", "rn", "rd")}
    return op_record(o["op"], env, o["k"], o["a"], o["b"], o["fc"] if o["op"] == "set_size" else 0,
                     o["fl"] if o["op"] == "set_size" else -2,
                     ax="h" if o["op"] == "height=" else "w")


def obs_of(ev):
    return {"sz": {"k": ev["kind"], "w": ev["w"], "h": ev["h"], "m": ev["m"]}, "rendered": [ev["rw"], ev["rh"]]}


def replay_walk(rep, walk, stats, origin="replay"):
    """Execute one covering walk of the history machine on a fresh real object.

    Compared with the model after every operation: the *structure* of the stored size (fixed
    vs dynamic, which Size member) must be equal; the numbers (stored size, rendered_size, size
    in force while rendering) are compared with the model's Algo prediction and the outcome
    is COUNTED - the property is the relation, so the recorded events go to TLC
    (Trace_Sizing) which judges them by SizeRel and the history clauses.
    Returns the recorded trace (or None)."""
    first = walk[0]["from"]
    fam, ow, oh = first["fam"], first["ow"], first["oh"]
    env0 = {f: first[f] for f in ("tc", "tl", "cw", "ch", "rn", "rd")}
    ops = [op_record("new", env0)] + [edge_to_op(e) for e in walk]
    try:
        evs = X.run_ops(fam, ow, oh, ops)
    except X.ExecError as e:
        rep.violation(f"{origin}:{e.what}:{fam}", e.detail, {"kind": "walk", "walk": walk})
        return None
    expect = [first] + [e["to"] for e in walk]
    for i, (ev, exp) in enumerate(zip(evs, expect)):
        got = obs_of(ev)
        o = ops[i]
        stats["steps"] += 1
        if (got["sz"]["k"], got["sz"]["m"]) != (exp["sz"]["k"], exp["sz"]["m"]):
            rep.violation(
                f"{origin}:{o['op']}:{o['k'] or '-'}:kind:{fam}",
                f"step {i} of a {len(walk)}-edge walk on a {fam} image {ow}x{oh}: after {o['op']} "
                f"{json.dumps({f: o[f] for f in ('k', 'a', 'b', 'fc', 'fl')})} in terminal "
                f"{o['tc']}x{o['tl']} cell {o['cw']}x{o['ch']} ratio {o['rn']}/{o['rd']} the model "
                f"expects size {exp['sz']} but the real object has {got['sz']}",
                {"kind": "walk", "walk": walk[:i]},
            )
            return None
        same = got == {"sz": exp["sz"], "rendered": exp["rendered"]}
        if o["op"] == "render" and i > 0:
            same = same and [ev["dw"], ev["dh"]] == walk[i - 1]["op"]["during"]
        stats["equal_to_algo" if same else "differs_from_algo"] += 1
    return dict(fam=fam, ow=ow, oh=oh, base=dict(cw=0, ch=0, rn=1, rd=2), ev=evs, calls=[],
                origin=origin, walk=walk)


# ------------------------------------------------------------------------------- validation


def validate(traces, name, batch, parallel=2, workers=4):
    """TLC validation of a list of traces (runs TLC subprocesses; touches no shared state)."""
    if not traces:
        return [], 0, 0, 0.0
    t0 = time.time()
    payload = [{k: t[k] for k in ("fam", "ow", "oh", "base", "ev", "calls")} for t in traces]
    verdicts, st, tr = tlc.validate_traces(
        "Trace_Sizing", "Trace_Sizing.cfg", payload, batch=batch, parallel=parallel, workers=workers,
        timeout=1500, name=name,
    )
    return verdicts, st, tr, time.time() - t0


def absorb(rep, traces, result, brs: set):
    """Merge a validation result into the report (main thread)."""
    verdicts, st, tr, wall = result
    rep.states += st
    rep.transitions += tr
    rep.traces_validated += len(traces)
    x = rep.extra
    x.setdefault("float_vs_algo_differences_inside_relation", 0)
    x.setdefault("float_vs_algo_differences_without_exact_tie", 0)
    x.setdefault("float_vs_algo_examples", [])
    for t, v in zip(traces, verdicts):
        n = len(t["ev"]) + len(t["calls"])
        if v["n"] != n:
            raise tlc.MachineryError(f"Trace_Sizing consumed {v['n']} of {n} events")
        rep.evaluations += n
        x["float_vs_algo_differences_inside_relation"] += v["ndiff"]
        x["float_vs_algo_differences_without_exact_tie"] += v["ndiffnotie"]
        brs.update(v["brs"])
        if v["ndiff"] and len(x["float_vs_algo_examples"]) < 5:
            x["float_vs_algo_examples"].append(describe(t, v["firstdiff"]))
        if v["verdict"] != "ok":
            report_trace_violation(rep, t, v)
    return wall


def event_at(t, i):
    """Event i (1-based, TLC numbering) of a trace as an op-like dict."""
    ne = len(t["ev"])
    if i <= ne:
        return dict(t["ev"][i - 1])
    c = t["calls"][i - ne - 1]
    kname = {v: k for k, v in X.KCODE.items()}[c[4]]
    return dict(op="set_size", k=kname, a=c[5], b=c[6], fc=c[2], fl=c[3], tc=c[0], tl=c[1], ax="w",
                kind="fixed" if c[7] else "dyn", w=c[8], h=c[9], xo=[c[10], c[11]], xf=[c[12], c[13]],
                **t["base"])


def describe(t, i):
    ev = event_at(t, i)
    return {"fam": t["fam"], "original": [t["ow"], t["oh"]], "event": ev}


def report_trace_violation(rep, t, v):
    i = v["at"]
    ev = event_at(t, i)
    clause = v["verdict"]
    ne = len(t["ev"])
    if i <= ne and t.get("walk") is not None:
        scenario = {"kind": "walk", "walk": t["walk"][: max(i - 1, 0)]}
    elif i <= ne:
        ops = [{f: e[f] for f in ("op", "k", "a", "b", "fc", "fl", "ax", "tc", "tl", "cw", "ch", "rn", "rd")}
               for e in t["ev"][:i]]
        scenario = {"kind": "ops", "fam": t["fam"], "ow": t["ow"], "oh": t["oh"], "ops": ops,
                    "origin": t["origin"]}
    else:
        c = t["calls"][i - ne - 1]
        need = [(c[0], c[1], c[2], c[3], k, 0, 0) for k in ("ORIGINAL", "FIT")] if ev["k"] == "AUTO" else []
        scenario = {"kind": "calls", "fam": t["fam"], "ow": t["ow"], "oh": t["oh"], "base": t["base"],
                    "calls": need + [(c[0], c[1], c[2], c[3], ev["k"], c[5], c[6])]}
    req = ev["k"] if ev["op"] not in ("rows", "render", "resize", "cell_ratio", "observe") else "-"
    rep.violation(
        f"{ev['op']}:{req}:{clause}:{t['fam']}",
        f"clause {clause!r} fails at event {i}/{v['n']} ({t['origin']}): {t['fam']} image "
        f"{t['ow']}x{t['oh']} px; {json.dumps(ev)}",
        scenario,
    )


# ------------------------------------------------------------------------------------ main


def coverage_of(res):
    return {m.group(1): (int(m.group(3)), int(m.group(4))) for m in _COV.finditer(res.stdout)}


def check_design(rep, res, thorough):
    rep.add_tlc(res)
    if res.violated:
        rep.violation(
            f"design:Sizing:{res.violated}",
            "the transcription of _valid_size (Sizing!Algo) violates the property relation:\n" + res.error_text[:2500],
            {"kind": "design", "spec": "MC_Sizing"},
        )
        return
    grid = res.tagged("GRID")
    if not grid:
        raise tlc.MachineryError("MC_Sizing printed no GRID line")
    g = grid[0]
    if res.distinct != g["images"] * 8:
        raise tlc.MachineryError(f"MC_Sizing: expected {g['images'] * 8} states (every request of every image), got {res.distinct}")
    per_image = g["termframes"] * 4 + g["maxtc"] + g["maxtl"] + 9
    rep.extra["mc_sizing"] = {"images": g["images"], "termframes": g["termframes"],
                              "algo_evaluations": g["images"] * per_image, "states": res.distinct,
                              "wall_s": round(res.wall_s, 1)}
    rep.evaluations += g["images"] * per_image


def check_history(rep, res):
    rep.add_tlc(res)
    if res.violated:
        rep.violation(
            f"design:SizingHist:{res.violated}",
            "the history machine violates " + res.violated + "\n" + res.error_text[:2500],
            {"kind": "design", "spec": "MC_SizingHist"},
        )
        return None
    cov = coverage_of(res)
    for a in ("SetSize", "SetSizeProperty", "SetWidthProperty", "SetHeightProperty", "Resize",
              "SetCellRatio", "Render"):
        if cov.get(a, (0, 0))[1] == 0:
            raise tlc.MachineryError(f"MC_SizingHist: action {a} never taken (vacuous): {cov}")
    g = graph.from_result(res)
    if not g.edges or not g.inits:
        raise tlc.MachineryError("MC_SizingHist dumped no edges / initial states")
    rep.extra["mc_sizing_hist"] = {"states": res.distinct, "transitions": res.generated, "depth": res.depth,
                                   "edges": len(g.edges), "coverage": {k: v[1] for k, v in cov.items()},
                                   "wall_s": round(res.wall_s, 1)}
    return g


def main(rep: Report, replay: dict | None) -> None:
    rep.assumptions += ASSUMPTIONS
    rep.rule = (
        "grid: every (family, cell size | cell ratio, original w x h, terminal/frame, request) of the "
        "stated small grid, each a real set_size call judged by TLC; large: seeded draws biased to the "
        "decision boundaries; histories: seeded op sequences; replay: every transition of the history "
        "machine.  distinct_nontrivial = distinct (family, cell, ratio, original, terminal, frame, request) "
        "tuples of judged real calls"
    )
    X.setup()
    if replay:
        return run_replay(rep, replay)

    thorough = rep.tier == "thorough"
    t0 = time.time()
    phases = rep.extra.setdefault("phase_wall_s", {})
    brs: set = set()
    with ThreadPoolExecutor(max_workers=6) as ex:
        f_mc = ex.submit(tlc.run, "MC_Sizing", "MC_Sizing_thorough.cfg" if thorough else "MC_Sizing.cfg",
                         workers=8, timeout=1500, deadlock=False, seed=rep.seed)
        f_hist = ex.submit(tlc.run, "MC_SizingHist",
                           "MC_SizingHist_thorough.cfg" if thorough else "MC_SizingHist.cfg",
                           workers=1, timeout=900, coverage=True, deadlock=False)
        # meanwhile: record the real code ...
        max_o, full_upto = (24, 10) if thorough else (10, 0)
        grid, ncalls, ntf = gen_grid_traces(rep, max_o, full_upto)
        rep.extra["grid"] = {"originals": f"1..{max_o} x 1..{max_o}", "variants": len(variants()),
                             "terminal_frames": ntf[0], "terminal_frames_for_originals_upto_%d" % full_upto: ntf[1],
                             "real_set_size_calls": ncalls, "images": len(grid)}
        phases["record_grid"] = round(time.time() - t0, 1)
        # ... and have TLC judge it (code -> spec) while recording goes on
        f_vgrid = ex.submit(validate, grid, "c04grid", max(1, math.ceil(len(grid) / (8 if thorough else 4))), 4, 4)
        t1 = time.time()
        rng = random.Random(rep.seed * 1000003 + 4)
        n_large, n_hist = (6000, 4000) if thorough else (900, 700)
        others = []
        for origin, count, big, hist in (("large", n_large, True, False), ("history", n_hist // 2, False, True),
                                         ("history-large", n_hist - n_hist // 2, True, True)):
            made = 0
            while made < count:
                g = gen_ops(rng, big, hist)
                if g is None:
                    continue
                made += 1
                t = execute(rep, *g, origin)
                if t:
                    others.append(t)
        phases["record_ops"] = round(time.time() - t1, 1)
        f_vops = ex.submit(validate, others, "c04ops", max(1, math.ceil(len(others) / (4 if thorough else 1))))

        # spec -> code: replay every transition of the history machine into the real code
        res_hist = f_hist.result()
        g = check_history(rep, res_hist)
        t2 = time.time()
        replayed = []
        if g is not None:
            walks = g.walks(max_len=60)
            if g.unreachable_edges:
                raise tlc.MachineryError(f"{g.unreachable_edges} dumped edges are unreachable from the initial states")
            stats = {"steps": 0, "equal_to_algo": 0, "differs_from_algo": 0}
            for w in walks:
                t = replay_walk(rep, w, stats)
                if t:
                    replayed.append(t)
                if len(rep.violations) > 40:
                    break
            rep.evaluations += stats["steps"]
            rep.extra["replay"] = {"walks": len(walks), "edges": len(g.edges), **stats}
            if walks:
                rep.sample({"replayed_walk": [[e["op"]["o"]["op"], e["op"]["o"]["k"], e["to"]["sz"], e["to"]["rendered"]]
                                              for e in walks[len(walks) // 2][:6]]})
        f_vreplay = ex.submit(validate, replayed, "c04replay", max(1, math.ceil(len(replayed) / (2 if thorough else 1))))
        phases["replay"] = round(time.time() - t2, 1)

        check_design(rep, f_mc.result(), thorough)
        phases["validate_grid"] = round(absorb(rep, grid, f_vgrid.result(), brs), 1)
        phases["validate_ops"] = round(absorb(rep, others, f_vops.result(), brs), 1)
        phases["validate_replay"] = round(absorb(rep, replayed, f_vreplay.result(), set()), 1)

    rep.extra["dimensions_clamped_for_int32"] = sum(t.get("clamped", 0) for t in others)
    for t in grid:
        key = (t["fam"], t["ow"], t["oh"], *t["base"].values())
        for c in t["calls"]:
            rep.distinct.add(hash(key + tuple(c[:7])))
    for t in others:
        for ev in t["ev"]:
            rep.distinct.add(hash((t["fam"], t["ow"], t["oh"], ev["op"], ev["k"], ev["a"], ev["b"], ev["fc"],
                                   ev["fl"], ev["tc"], ev["tl"], ev["cw"], ev["ch"], ev["rn"], ev["rd"])))
    rep.extra["algo_branches_exercised_by_real_calls"] = sorted(brs)
    missing = ALL_BRANCHES - set(brs)
    if missing and not rep.violations:
        raise tlc.MachineryError(f"branches of the sizing algorithm never exercised by recorded calls: {sorted(missing)}")

    for t in (grid[:1] + others[:2]):
        rep.sample({"fam": t["fam"], "original": [t["ow"], t["oh"]],
                    "events": [event_at(t, i) for i in range(1, min(4, len(t["ev"]) + len(t["calls"])) + 1)]})
    rep.exhaustive = not rep.violations
    rep.extra["exhaustive_space"] = (
        f"real set_size calls: {len(variants())} (family, cell size | ratio) variants x originals 1..{max_o}^2 x "
        f"{ntf[0]} terminal/frame combinations ({ntf[1]} for originals <= {full_upto}) x 4 Size members + given widths 1..{MAXTC} + given heights 1..{MAXTL}; "
        "model: MC_Sizing grid; history machine: all transitions"
    )


def run_replay(rep: Report, replay: dict) -> None:
    sc = replay["scenario"]
    kind = sc.get("kind")
    if kind == "walk":
        if sc["walk"]:
            stats = {"steps": 0, "equal_to_algo": 0, "differs_from_algo": 0}
            t = replay_walk(rep, sc["walk"], stats)
            if t:
                absorb(rep, [t], validate([t], "c04replay", 1), set())
            rep.extra["replay"] = stats
        return
    if kind == "ops":
        t = execute(rep, sc["fam"], sc["ow"], sc["oh"], sc["ops"], sc.get("origin", "replay"))
        if t:
            absorb(rep, [t], validate([t], "c04replay", 1), set())
        return
    if kind == "calls":
        calls = [tuple(c) for c in sc["calls"]]
        try:
            recs = X.run_calls(sc["fam"], sc["ow"], sc["oh"], sc["base"], calls)
        except X.ExecError as e:
            rep.violation(f"grid:{e.what}:{sc['fam']}", e.detail, sc)
            return
        t = dict(fam=sc["fam"], ow=sc["ow"], oh=sc["oh"], base=sc["base"], ev=[], calls=recs, origin="grid")
        absorb(rep, [t], validate([t], "c04replay", 1), set())
        return
    if kind == "design":
        if sc["spec"] == "MC_Sizing":
            check_design(rep, tlc.run("MC_Sizing", "MC_Sizing.cfg", workers=8, timeout=1500, deadlock=False), False)
        else:
            check_history(rep, tlc.run("MC_SizingHist", "MC_SizingHist.cfg", workers=1, timeout=900,
                                       coverage=True, deadlock=False))
        return
    raise tlc.MachineryError(f"unknown replay scenario kind {kind!r}")
