SPECIFICATION Spec
CONSTANT Rich = TRUE
VIEW View
INVARIANT InstancesMatch
INVARIANT ForeignNeverMatch
INVARIANT DocImpliesMatch
INVARIANT Disjoint
INVARIANT DeviationsAreNamed
INVARIANT NearMissStaysInFamily
INVARIANT QueryIdEchoed
INVARIANT Dump
CHECK_DEADLOCK FALSE
