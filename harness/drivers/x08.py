"""X08 - blocking and return semantics of the low-level terminal I/O functions (extension check).

subject:    term_image.utils.read_tty(more, timeout, min, echo=...), read_tty_all(), write_tty(data)
model:      specs/TtyIO.tla over specs/TtyIOCore.tla: a terminal input queue fed by a scripted arrival
            schedule, virtual clock, ECHO bit, echo log, output side with partial writes; one call at a time;
            named actions for call begin, arrival, read steps, `more` consultation, timeout expiry, return,
            accept / transmit of a write; the laws of the docstrings as invariants / action properties.
spec->code  TLC dumps every edge of the state graphs (MC_TtyIO_*_dump.cfg); harness/graph.py turns them into
            covering walks; every walk is a session executed on the REAL functions over the virtual tty
            (harness/x08_world.py on env/vtty.py); for every call the terminal as observed after every change
            (clock, queue, ECHO bit, echo log, bytes taken, output buffer, wire), the returned bytes, the
            return time and the arguments `more` saw are compared with the edges.
code->spec  seeded random sessions (arbitrary bytes, chunkings, gaps, timeouts, predicates, partial-write
            plans) are recorded on the real functions and validated by TLC against specs/Trace_TtyIO.tla.  The
            law (= signature) of every disagreement - also of those found by the replay - comes from that
            TLA+ module.
"""

from __future__ import annotations

import copy
import gc
import json
import random
import time
from collections import Counter
from concurrent.futures import ThreadPoolExecutor

from .. import graph, tlc
from .. import x08_world as W
from ..core import Report

ASSUMPTIONS = [
    "the documented behaviour is that of the docstrings of read_tty / read_tty_all / write_tty in utils.py (this "
    "version: timeout=None = 'all available input is read without blocking', a NEGATIVE timeout is infinite, "
    "min applies only with a timeout and is waited for whatever the timeout, the timeout left over afterwards "
    "bounds the rest) and of guide/concepts.rst 'Terminal Queries'",
    "virtual terminal of env/vtty.py (C12/C13): system calls take no time, time passes only while a caller is "
    "blocked (select / blocking read) or between calls; ticks of 2^-12 s, dyadic timeouts",
    "arrival times of one schedule are strictly increasing; the program starts calls at time 0 or right after "
    "an arrival it idled for",
    "DeadlineRace (named, harmless): input arriving exactly AT the deadline still wakes the reader, which takes "
    "one byte of it before it notices that the time is up",
    "ZeroTimeout (named, documentation silent): read_tty(timeout=0) reads nothing beyond `min` bytes even if "
    "input is queued - 'read or waited for until timeout is up' with a timeout that is up at once; the documented "
    "way to poll is timeout=None / read_tty_all()",
    "more() is not consulted once the timeout is up, nor about buffers shorter than `min`, nor at all with "
    "timeout=None (documented: `min`/`more` apply 'if timeout is not None')",
    "the ECHO bit is the only attribute modelled (whole-word restoration under faults is C13's); 'echoed' = the "
    "bit was set when the byte arrived",
    "a partial write = os.write() accepts fewer bytes than given (POSIX allows it for any descriptor; on a tty it "
    "happens when a signal handler runs during a large write): the documented 'complete transmission' requires "
    "the rest to be written too",
    "termios.error from tcdrain (ignored by the code, 'Permission denied' on Termux) is not modelled",
]

LAWS = ["TypeOK", "PendFuture", "NoTerminalNothing", "NoTerminalNone", "NothingLostOrDuplicated",
        "ResultArrivedInTime", "LeftoverStaysQueued", "MinBytes", "NonBlocking", "WaitBounded", "ReturnReason",
        "StopsWhenToldTo", "NeverWaitsInVain", "TimePasses", "EchoDuringReadOnly", "ConsultsSeeBuffer",
        "WriteInOrder", "WriteComplete", "ReadTouchesOnlyInput", "WriteTouchesOnlyOutput",
        "BlocksOnlyWhenDocumented"]
ACTIONS = ["Idle", "ReadBegin", "ReadAllBegin", "WriteBegin", "NoTerminal", "Drain", "ReadMin", "Arrive", "Consult",
           "TimeUp", "ZeroTimeout", "ReadByte", "Expire", "Blocked", "Return", "Accept", "Transmit", "WriteReturn"]
VARIANTS = {
    "flushonreturn": "the queue is flushed when the attributes are restored",
    "overread": "two bytes per read step (reads past the point where more() says stop)",
    "lateexpire": "the wait overshoots the deadline",
    "echostays": "the ECHO bit is not put back",
    "singlewrite": "a partial write is not continued",
    "nodrain": "write_tty returns before transmission",
    "minignored": "the min phase takes what is there",
    "reorder": "the drain swaps two bytes",
    "zeropolls": "timeout=0 drains the queue whatever more() says",
}
QUICK_GRAPHS = ["read", "write"]
THOROUGH_GRAPHS = ["read_t"]
BEGIN = {"ReadBegin", "ReadAllBegin", "WriteBegin"}
END = {"Return", "WriteReturn", "Blocked"}
# layout of MC_TtyIO!Key
K_TTY, K_TECHO, K_SCHED, K_NOW, K_INQ, K_NPEND, K_ECHO, K_WBUF, K_PC = range(9)


# ------------------------------------------------------------------ spec -> code
def sched_bytes(sched: list) -> list:
    """TtyIO!PendOf: arriving bytes are numbered 1, 2, 3, ..."""
    out, off = [], 0
    for at, n in sched:
        out.append((at, bytes(range(off + 1, off + n + 1))))
        off += n
    return out


def is_init(key: list) -> bool:
    return key[K_NOW] == 0 and key[K_INQ] == [] and key[K_PC] == "idle" and key[K_WBUF] == []


def next_edge(g: graph.Graph, to_key) -> dict:
    outs = g.out[graph.key(to_key)]
    if len(outs) != 1:
        raise tlc.MachineryError(f"x08: a state inside a call has {len(outs)} successors: {to_key}")
    return g.edges[outs[0][0]]


def segments(g: graph.Graph, walk: list[dict]) -> list[list[dict]]:
    """Cut a walk into operations (Idle, NoTerminal, or Begin..Return/Blocked); a walk that ends inside a
    call is completed along the only path the model has."""
    segs, i = [], 0
    while i < len(walk):
        seg = [walk[i]]
        i += 1
        if seg[0]["op"]["a"] in BEGIN:
            while seg[-1]["op"]["a"] not in END:
                if i < len(walk):
                    seg.append(walk[i])
                    i += 1
                else:
                    seg.append(next_edge(g, seg[-1]["to"]))
                if len(seg) > 400:
                    raise tlc.MachineryError("x08: a model call does not end")
        elif seg[0]["op"]["a"] not in ("Idle", "NoTerminal"):
            raise tlc.MachineryError(f"x08: walk enters a call in the middle: {seg[0]['op']['a']}")
        segs.append(seg)
    return segs


def expected_obs(exp: dict, seg: list[dict]) -> list[dict]:
    """The terminal as the model sees it before the operation and after every step that changes it
    (absolute histories rebuilt from the per-step deltas).  `exp` is updated in place."""
    seq = [copy.deepcopy(exp)]
    for e in seg:
        o, d = e["op"]["obs"], e["op"]["d"]
        exp.update(now=o["now"], q=list(o["q"]), echo=o["echo"], wbuf=list(o["wbuf"]))
        exp["elog"] = exp["elog"] + list(d["ne"])
        exp["taken"] = exp["taken"] + list(d["nt"])
        exp["wire"] = exp["wire"] + list(d["nw"])
        if exp != seq[-1]:
            seq.append(copy.deepcopy(exp))
    return seq


def coarse(seq: list[dict]) -> list[dict]:
    """TtyIOCore!Coarse + Dedup: what can be observed from outside while a call is in progress."""
    out = []
    for o in seq:
        c = {"now": o["now"], "echo": o["echo"], "elog": o["elog"], "arrived": o["taken"] + o["q"],
             "wbuf": o["wbuf"], "wire": o["wire"]}
        if not out or out[-1] != c:
            out.append(c)
    return out


def differs(seg: list[dict], want_obs: list[dict], ev: dict) -> str:
    """'' if the real event equals what the edges say, else the first difference."""
    fin = seg[-1]["op"]
    a = fin["a"]
    if ev["err"]:
        return f"raised {ev['err']}"
    if ev["hung"] != (a == "Blocked"):
        return f"hung: {ev['hung']}, spec {a == 'Blocked'}"
    if a == "Return":
        if ev["none"]:
            return "returned None"
        if ev["res"] != fin["res"]:
            return f"res: {ev['res']}, spec {fin['res']}"
    elif not ev["none"]:
        return f"returned {ev['res']}, spec None"
    if a != "Blocked" and ev["t1"] != fin["t"]:
        return f"t1: {ev['t1']}, spec {fin['t']}"
    if a != "Blocked" and ev["obs"][-1] != want_obs[-1]:
        x, y = ev["obs"][-1], want_obs[-1]
        bad = [k for k in x if x[k] != y[k]]
        return f"after the call {bad[0]}: {x[bad[0]]}, spec {y[bad[0]]}"
    got, want = coarse(ev["obs"]), coarse(want_obs)
    if got != want:
        for i, (x, y) in enumerate(zip(got, want)):
            if x != y:
                bad = [k for k in x if x[k] != y[k]]
                return f"obs[{i}].{bad[0]}: {x[bad[0]]}, spec {y[bad[0]]}"
        return f"obs: {len(got)} observations, spec {len(want)}"
    return ""


def replay_walks(lib: W.Lib, g: graph.Graph, walks: list[list[dict]], stats: dict, tamper=None,
                 keep: list | None = None, keep_p: float = 0.0, rng: random.Random | None = None) -> list[dict]:
    """Execute every walk as a session on the real functions; returns the diverging prefixes as traces.
    keep: a seeded sample of the faithful sessions is appended there (also validated by TLC)."""
    bad = []
    for wi, walk in enumerate(walks):
        k0 = walk[0]["from"]
        if not is_init(k0):
            raise tlc.MachineryError(f"x08: walk {wi} does not start in an initial state: {k0}")
        sess = lib.session(k0[K_TTY], k0[K_TECHO], sched_bytes(k0[K_SCHED]))
        exp = {"now": 0, "q": [], "echo": k0[K_TECHO], "elog": [], "taken": [], "wbuf": [], "wire": []}
        events = []
        segs = segments(g, walk)
        if tamper:
            segs = tamper(segs)
        for si, seg in enumerate(segs):
            op = W.IDLE_OP if seg[0]["op"]["a"] == "Idle" else seg[0]["op"]["op"]
            want = expected_obs(exp, seg)
            ev = sess.do(op)
            events.append(ev)
            stats["calls"] += 1
            stats["steps"] += len(seg)
            d = differs(seg, want, ev)
            if d:
                bad.append(dict(W.trace_of(sess, events), diff=d, walk=wi, step=si, seg=seg,
                                call=" ".join(e["op"]["a"] for e in seg)))
                stats["abandoned_ops"] += len(segs) - si - 1
                break
            if ev["hung"]:
                if si != len(segs) - 1:
                    raise tlc.MachineryError("x08: the model continues after a call that blocks for ever")
                break
        else:
            pass
        if keep is not None and (not bad or bad[-1]["walk"] != wi) and rng.random() < keep_p:
            keep.append(W.trace_of(sess, events))
    return bad


def shortest_walk(g: graph.Graph, seg: list[dict]) -> list[dict]:
    """BFS path from an initial state to the start of `seg`, then `seg` (a short reproduction)."""
    from collections import deque

    target = graph.key(seg[0]["from"])
    prev: dict = {k: None for k in g.inits}
    dq = deque(g.inits)
    while dq and target not in prev:
        u = dq.popleft()
        for i, v in g.out[u]:
            if v not in prev:
                prev[v] = (u, i)
                dq.append(v)
    if target not in prev:
        return []
    path = []
    u = target
    while prev[u] is not None:
        u, i = prev[u]
        path.append(g.edges[i])
    return path[::-1] + seg


# ------------------------------------------------------------------ code -> spec
def rand_session(rng: random.Random, partial: bool) -> dict:
    alphabet = rng.sample([0, 3, 10, 13, 27, 91, 99, 127, 200, 255, 65, 66, 67, 48], rng.randint(3, 6))
    nch = rng.choice([0, 1, 1, 2, 2, 3, 3, 4, 5])
    t, sched = 0, []
    big = rng.random() < 0.04
    for i in range(nch):
        t += rng.choice([1, 1, 2, 3, 4, 5, 8, 13])
        n = rng.choice([1, 1, 2, 2, 3, 4, 6])
        if big and i == 0:
            n = rng.randint(101, 240)  # longer than one os.read(fd, 100) of the drain loop
        sched.append([t, [rng.choice(alphabet) for _ in range(n)]])
    ops = []
    for _ in range(rng.randint(1, 6)):
        r = rng.random()
        if r < 0.12:
            ops.append(W.IDLE_OP)
        elif r < 0.24:
            ops.append(W.READALL_OP)
        elif r < 0.36:
            ops.append(W.write_op([rng.choice(alphabet) for _ in range(rng.choice([0, 1, 2, 5, 9]))]))
        else:
            mk = rng.choice(["default", "always", "never", "count", "count", "term", "term"])
            ops.append(W.read_op(
                min=rng.choice([0, 0, 0, 0, 1, 1, 2, 3, 5]),
                tmo=rng.choice([W.TNONE, W.TNONE, 0, W.TINF, 1, 2, 3, 4, 4, 6, 8, 8, 12, 16]),
                echo=rng.random() < 0.5, mk=mk, mn=rng.choice([1, 2, 3, 4, 7]) if mk == "count" else 0,
                mt=rng.sample(alphabet, rng.randint(1, 2)) if mk == "term" else []))
    if big:  # the whole chunk is queued when everything available is read
        ops[:0] = [W.IDLE_OP, rng.choice([W.READALL_OP, W.read_op(min=rng.choice([0, 3]), mk="never")])]
    if partial:  # a partial write ends the session (see notes: the known defect must not mask the rest)
        n = rng.choice([2, 3, 5, 8])
        plan = [rng.randint(1, n - 1)] + [rng.randint(1, 3) for _ in range(rng.randint(0, 2))]
        ops.append(W.write_op([rng.choice(alphabet) for _ in range(n)], plan))
    tty = rng.random() < 0.93
    if not tty:  # no active terminal: there is nothing to idle for
        sched, ops = [], [o for o in ops if o["op"] != "idle"] or [W.READALL_OP]
    return {"kind": "session", "tty": tty, "techo": rng.random() < 0.6, "sched": sched, "ops": ops}


def record(lib: W.Lib, scn: dict) -> dict:
    sess = lib.session(scn["tty"], scn["techo"], [(at, bytes(d)) for at, d in scn["sched"]])
    events = []
    for op in scn["ops"]:
        if op["op"] == "idle" and not sess.dev.pend:
            continue
        ev = sess.do(op)
        events.append(ev)
        if ev["hung"]:
            break
    return W.trace_of(sess, events)


# ------------------------------------------------------------------ verdicts
def _trace_json(t: dict) -> dict:
    return {k: t[k] for k in ("tty", "techo", "sched", "ev")}


def validate(traces: list[dict], name: str):
    if not traces:
        return [], 0, 0
    return tlc.validate_traces("Trace_TtyIO", "Trace_TtyIO.cfg", [_trace_json(t) for t in traces],
                               batch=250, parallel=4, workers=2, timeout=600, name=name)


def _scenario(t: dict, upto: int | None = None) -> dict:
    ev = t["ev"] if upto is None else t["ev"][:upto]
    return {"kind": "session", "tty": t["tty"], "techo": t["techo"],
            "sched": [[c["at"], c["data"]] for c in t["sched"]], "ops": [e["op"] for e in ev]}


def _opname(op: dict) -> str:
    if op["op"] == "read":
        t = {W.TNONE: "None", W.TINF: "-1"}.get(op["tmo"], f"{op['tmo']} ticks")
        m = {"default": "", "count": f", more=until {op['mn']} bytes", "term": f", more=until one of {op['mt']}"}.get(
            op["mk"], f", more={op['mk']}")
        return f"read_tty(timeout={t}, min={op['min']}, echo={op['echo']}{m})"
    if op["op"] == "write":
        return f"write_tty({bytes(op['data'])!r})" + (f" [device accepts {op['plan']} bytes per write]" if op["plan"] else "")
    return {"readall": "read_tty_all()", "idle": "(idle until the next arrival)"}.get(op["op"], op["op"])


def _describe(t: dict, v: dict, origin: str) -> str:
    at = v["at"]
    lines = [f"[{origin}] law {v['verdict']!r} at operation {at} of {len(t['ev'])}; active terminal: {t['tty']}, "
             f"terminal ECHO {t['techo']}, input schedule (tick, bytes): "
             f"{[(c['at'], bytes(c['data'])) for c in t['sched']]}"]
    for i, e in enumerate(t["ev"][max(0, at - 5):at], max(0, at - 5) + 1):
        res = "blocks for ever" if e["hung"] else e["err"] or ("None" if e["none"] else repr(bytes(e["res"])))
        o = e["obs"][-1]
        lines.append(f"  {i}. {_opname(e['op'])} -> {res} at tick {e['t1']}; queue {bytes(o['q'])!r}, ECHO {o['echo']}, "
                     f"echoed {''.join('1' if x else '0' for x in o['elog'])}, terminal received {bytes(o['wire'])!r}"
                     + (f" (+{bytes(o['wbuf'])!r} not transmitted)" if o["wbuf"] else ""))
    if t.get("diff"):
        lines.append(f"  replay difference in call #{t['step'] + 1} of walk {t['walk']} of graph {t.get('graph')} "
                     f"[{t.get('call')}]: {t['diff']}")
    return "\n".join(lines)


def report(rep: Report, traces: list[dict], validated, origin: str, expect_fail: bool = False):
    verdicts, st, tr = validated
    rep.states += st
    rep.transitions += tr
    for t, v in zip(traces, verdicts):
        if v["verdict"].startswith("malformed"):
            raise tlc.MachineryError(f"x08: {v['verdict']} at event {v['at']} ({origin})")
        if expect_fail and (v["verdict"] == "ok" or v["at"] != len(t["ev"])):
            raise tlc.MachineryError(
                f"x08: the replay saw a difference ({t.get('diff')}) in walk {t.get('walk')} call {t.get('step')} "
                f"[{t.get('call')}] that Trace_TtyIO does not confirm: {v}")
        if v["verdict"] != "ok":
            opn = t["ev"][v["at"] - 1]["op"]["op"]
            opn = {"read": "read_tty", "readall": "read_tty_all", "write": "write_tty"}.get(opn, opn)
            rep.violation(f"{opn}:{v['verdict']}", _describe(t, v, origin), _scenario(t, v["at"]))
    return verdicts


# ------------------------------------------------------------------ main
def _replay(rep: Report, replay: dict) -> None:
    sc = replay["scenario"]
    if sc.get("kind") == "design":
        res = tlc.run("MC_TtyIO", sc["cfg"], workers=4, timeout=900, check=False)
        rep.add_tlc(res)
        if res.violated:
            rep.violation(f"design:TtyIO:{res.violated}", res.error_text[:1500], sc)
        return
    lib = W.Lib()
    t = record(lib, sc)
    rep.evaluations += len(t["ev"])
    rep.traces_validated += 1
    report(rep, [t], validate([t], "x08-replay"), "replay")


def main(rep: Report, replay: dict | None) -> None:
    rep.assumptions += ASSUMPTIONS
    rep.rule = (
        "spec->code: every edge of the dumped TtyIO graphs executed in covering walks (sessions) on the real "
        "functions over the virtual tty, the terminal's observable projection compared after every step of every "
        "call; code->spec: one trace per seeded random session; distinct_nontrivial = distinct model edges + "
        "distinct recorded sessions"
    )
    rep.extra["laws"] = LAWS
    if replay:
        _replay(rep, replay)
        return
    quick = rep.tier == "quick"
    timing = rep.extra.setdefault("timing_s", {})
    t0 = time.time()

    def lap(name):
        nonlocal t0
        timing[name] = round(time.time() - t0, 1)
        t0 = time.time()

    lib = W.Lib()
    graphs = QUICK_GRAPHS if quick else QUICK_GRAPHS + THOROUGH_GRAPHS
    with ThreadPoolExecutor(max_workers=4) as ex:
        f_dump = {d: ex.submit(tlc.run, "MC_TtyIO", f"MC_TtyIO_{d}_dump.cfg", workers=1,
                               timeout=300 if quick else 1500, check=False) for d in graphs}
        f_mc = {m: ex.submit(tlc.run, "MC_TtyIO", f"MC_TtyIO_{m}.cfg", workers=2 if quick else 4,
                             timeout=300 if quick else 1500, coverage=True, check=False) for m in graphs}
        f_var = {v: ex.submit(tlc.run, "MC_TtyIO", "MC_TtyIO_var.cfg", workers=1, timeout=300, check=False,
                              env={"VARIANT": v}) for v in VARIANTS}

        # ---- code -> spec: seeded random sessions (while TLC runs)
        rng = random.Random(rep.seed * 104729 + 8)
        nsess = 600 if quick else 8000
        scns = [rand_session(rng, partial=rng.random() < 0.08) for _ in range(nsess)]
        recorded = [record(lib, s) for s in scns]
        lap("record_sessions")
        # guards: corrupted copies of recorded traces must be rejected with the matching law
        canaries, expect = [], []
        src = next((i for i, t in enumerate(recorded)
                    if any(not e["none"] and len(e["res"]) >= 2 and e["op"]["tmo"] != W.TNONE for e in t["ev"])), None)
        if src is None:
            raise tlc.MachineryError("x08: no recorded session returns two bytes: nothing to corrupt")
        k = next(i for i, e in enumerate(recorded[src]["ev"])
                 if not e["none"] and len(e["res"]) >= 2 and e["op"]["tmo"] != W.TNONE)
        c1 = copy.deepcopy(_trace_json(recorded[src]))
        c1["ev"] = c1["ev"][: k + 1]
        c1["ev"][k]["res"] = c1["ev"][k]["res"][:-1]  # one returned byte vanished
        canaries.append(c1)
        expect.append(("NothingLostOrDuplicated:taken", k + 1))
        c2 = copy.deepcopy(_trace_json(recorded[src]))
        c2["ev"] = c2["ev"][: k + 1]
        c2["ev"][k]["t1"] += 1  # returned one tick later than it had to
        canaries.append(c2)
        expect.append((None, k + 1))
        f_hist = ex.submit(validate, recorded + canaries, "x08-c2s")

        # ---- spec -> code: every edge of every dumped graph
        stats = {"calls": 0, "steps": 0, "abandoned_ops": 0}
        kept: list[dict] = []
        krng = random.Random(rep.seed * 31 + 5)
        keep_p = 0.08 if quick else 1.0
        cover: Counter = Counter()
        mism: list[dict] = []
        nwalks = nedges = 0
        tampered_ok = None
        for d in graphs:
            res = f_dump[d].result()
            if res.violated or res.rc:
                raise tlc.MachineryError(f"x08: edge dump {d} failed: {res.violated}\n{res.stdout[-1500:]}")
            rep.add_tlc(res)
            g = graph.from_result(res)
            if not g.edges or not g.inits:
                raise tlc.MachineryError(f"x08: edge dump {d} is empty")
            walks = g.walks(max_len=60)
            if g.unreachable_edges:
                raise tlc.MachineryError(f"x08: {g.unreachable_edges} dumped edges of {d} are unreachable")
            gc.freeze()
            for e in g.edges:
                cover[e["op"]["a"]] += 1
            lap(f"dump_{d}")
            if tampered_ok is None:
                # guard: a tampered edge (the expected return time of a call moved by one tick) must be noticed
                # at that call - judged on a walk the code under test follows faithfully
                tampered_ok = "not judged: the code diverges on every candidate walk"
                cands = [w for w in walks if any(e["op"]["a"] == "Return" and e["op"]["res"] for e in w)][:25]
                for cw in cands:
                    if replay_walks(lib, g, [cw], {"calls": 0, "steps": 0, "abandoned_ops": 0}):
                        continue

                    def tamper(segs):
                        segs = copy.deepcopy(segs)
                        for si, seg in enumerate(segs):
                            if seg[-1]["op"]["a"] == "Return" and seg[-1]["op"]["res"]:
                                seg[-1]["op"]["res"] = seg[-1]["op"]["res"][:-1]
                                tamper.at = si
                                break
                        return segs

                    tb = replay_walks(lib, g, [cw], {"calls": 0, "steps": 0, "abandoned_ops": 0}, tamper=tamper)
                    if not (tb and tb[0]["step"] == tamper.at):
                        raise tlc.MachineryError("x08: the replay did not notice a tampered edge")
                    tampered_ok = "noticed"
                    break
            bad = replay_walks(lib, g, walks, stats, keep=kept, keep_p=keep_p, rng=krng)
            kinds = set()
            for b in bad:
                b["graph"] = d
                kind = (b["ev"][-1]["op"]["op"], b["diff"].split(":")[0], bool(b["ev"][-1]["op"]["plan"]))
                if kind in kinds or len(kinds) >= 12:
                    continue
                kinds.add(kind)
                sw = shortest_walk(g, b["seg"])  # a short reproduction for the first divergence of each kind
                if sw and len(sw) < sum(len(s_) for s_ in segments(g, walks[b["walk"]])[: b["step"] + 1]):
                    sb = replay_walks(lib, g, [sw], {"calls": 0, "steps": 0, "abandoned_ops": 0})
                    if sb and sb[0]["step"] == len(segments(g, sw)) - 1:
                        b.update(ev=sb[0]["ev"], diff=sb[0]["diff"], step=sb[0]["step"], sched=sb[0]["sched"],
                                 walk=f"{b['walk']} (shortest path)")
            mism += bad
            nwalks += len(walks)
            nedges += len(g.edges)
            rep.distinct.update((d, i) for i in range(len(g.edges)))
            rep.extra.setdefault("replay", {})[d] = {"states": g.nodes, "edges": len(g.edges), "inits": len(g.inits),
                                                     "walks": len(walks), "diverging_walks": len(bad)}
            if d == graphs[0] and walks:
                w0 = max(walks[:80], key=lambda w: len({e["op"]["a"] for e in w[:14]}))
                rep.sample({"graph": d, "schedule": w0[0]["from"][K_SCHED],
                            "walk": [[e["op"]["a"], _opname(e["op"]["op"]) if e["op"]["a"] in BEGIN else "",
                                      e["op"]["res"] if e["op"]["a"] == "Return" else "", e["op"]["t"]]
                                     for e in w0[:14]]})
            lap(f"replay_{d}")
        rep.traces_validated += nwalks
        rep.evaluations += stats["calls"]
        rep.extra["replay_totals"] = {"edges": nedges, "walks": nwalks, "real_calls": stats["calls"],
                                      "model_steps_compared": stats["steps"],
                                      "operations_behind_a_divergence": stats["abandoned_ops"]}
        vac = [a for a in ACTIONS if not cover.get(a)]
        if vac:
            raise tlc.MachineryError(f"x08: vacuous actions (no transition generated): {vac}")
        rep.extra["action_coverage_edges"] = dict(cover)

        # ---- the model itself and its seeded regressions
        tlc_cov: Counter = Counter()
        for m, f in f_mc.items():
            res = f.result()
            rep.add_tlc(res)
            rep.extra.setdefault("model", {})[m] = {"states": res.distinct, "transitions": res.generated,
                                                    "depth": res.depth, "wall_s": round(res.wall_s, 1)}
            for a, (_dis, gen) in res.coverage.items():
                tlc_cov[a] += gen
            if res.violated:
                rep.violation(f"design:TtyIO:{res.violated}",
                              f"the model in TtyIO.tla violates {res.violated} ({m})\n{res.error_text[:1500]}",
                              {"kind": "design", "cfg": f"MC_TtyIO_{m}.cfg"})
            elif res.rc:
                raise tlc.MachineryError(f"x08: TLC failed on MC_TtyIO_{m}.cfg:\n{res.stdout[-1500:]}")
        vac = [a for a in ACTIONS if not tlc_cov.get(a)]
        if vac:
            raise tlc.MachineryError(f"x08: vacuous actions according to TLC -coverage: {vac}")
        rep.extra["action_coverage_tlc"] = {a: tlc_cov[a] for a in ACTIONS}
        for v, f in f_var.items():
            res = f.result()
            rep.add_tlc(res)
            if not res.violated:
                raise tlc.MachineryError(f"x08: model variant {v!r} ({VARIANTS[v]}) satisfies every law: the "
                                         f"specification no longer discriminates\n{res.stdout[-800:]}")
            rep.extra.setdefault("model_variants", {})[v] = f"{res.violated} after {res.distinct} states"
        lap("wait_model_check")

        # the replayed sessions themselves (quick: a seeded sample) are judged by the Trace spec as well
        kv = validate(kept, "x08-s2c-kept")
        hv, hst, htr = f_hist.result()
        lap("wait_validate_sessions")
    cvs = hv[len(recorded):]
    hv = hv[: len(recorded)]
    if hv[src]["verdict"] != "ok" and hv[src]["at"] <= k + 1:
        rep.extra["guards"] = {"corrupted_traces": "not judged: their source session is itself rejected",
                               "tampered_edge": tampered_ok}
    else:
        for cv, (law, at) in zip(cvs, expect):
            if cv["verdict"] == "ok" or cv["at"] != at or (law and cv["verdict"] != law):
                raise tlc.MachineryError(f"x08: Trace_TtyIO did not reject a corrupted trace as expected "
                                         f"({law} at {at}): {cv}")
        rep.extra["guards"] = {"corrupted_traces": [cv["verdict"] for cv in cvs], "tampered_edge": tampered_ok}

    # ---- replay differences, classified by the Trace spec
    if mism:
        seen, uniq = set(), []
        for b in mism:
            key = (b["ev"][-1]["op"]["op"], b["diff"].split(":")[0], bool(b["ev"][-1]["op"]["plan"]))
            if key not in seen and len(uniq) < 40:
                seen.add(key)
                uniq.append(b)
        report(rep, uniq, validate(uniq, "x08-s2c"), "spec->code replay", expect_fail=True)
        rep.extra["replay_totals"]["diverging_walks"] = len(mism)
    elif stats["abandoned_ops"]:
        raise tlc.MachineryError("x08: operations were skipped although no walk diverged")

    report(rep, kept, kv, "spec->code replay (faithful to the edges, judged by the laws)")
    rep.traces_validated += len(kept)
    rep.extra["replay_totals"]["sessions_also_validated_by_TLC"] = len(kept)

    # ---- recorded sessions
    verdicts = report(rep, recorded, (hv, hst, htr), "code->spec session")
    rep.traces_validated += len(recorded)
    rep.evaluations += sum(len(t["ev"]) for t in recorded)
    for t in recorded:
        rep.distinct.add(("sess", json.dumps(_scenario(t), sort_keys=True)))
    laws_seen = sorted({x for v in verdicts for x in v["laws"]})
    rep.extra["sessions"] = {"recorded": len(recorded), "events": sum(v["events"] for v in verdicts),
                             "laws_exercised": laws_seen,
                             "rejected": sum(1 for v in verdicts if v["verdict"] != "ok"),
                             "calls_blocking_for_ever": sum(1 for t in recorded for e in t["ev"] if e["hung"])}
    need = {"NoTerminalNothing", "Idle", "NonBlocking", "ZeroTimeout", "StopsWhenToldTo", "WaitBounded",
            "DeadlineRace", "BlocksOnlyWhenDocumented", "WriteComplete"}
    if not need <= set(laws_seen):
        only_known = all(v.signature.startswith("write_tty:WriteComplete") for v in rep.violations)
        if not rep.violations or only_known:
            raise tlc.MachineryError(f"x08: the recorded sessions are vacuous: never exercised {sorted(need - set(laws_seen))}")
    rep.exhaustive = True
    rep.extra["exhaustive_over"] = (
        "all histories of the TtyIO configurations listed under extra.model (finite state graphs fully explored by "
        "TLC: every arrival schedule within the stated bounds x every call sequence); every edge of the graphs "
        "under extra.replay executed on the real functions; the recorded sessions are samples")
    rep.sample({"session": {"schedule": scns[1]["sched"], "ops": [_opname(o) for o in scns[1]["ops"]]}})
