SPECIFICATION Spec
CONSTANTS
  Tmo = 3
  AllWords = TRUE
INVARIANT AttrRestored
INVARIANT Terminates
INVARIANT FaultSurfaces
INVARIANT ModeIsChanged
INVARIANT Report
CHECK_DEADLOCK FALSE
