----------------------------- MODULE Apa_PadDims -----------------------------
(***************************************************************************)
(* Unbounded check (Apalache, SMT) of the padding-dimension laws that the   *)
(* bounded TLC runs of Padding.tla / RenderIter.tla (PadDims) enumerate:    *)
(* for ALL integers - render size >= 1, minimum size any integer (<= 0 =    *)
(* terminal-relative), terminal size >= 1, alignments 0..2 -                *)
(*   l + rw + r = max(rw, W)   t + rh + b = max(rh, H)   l, t, r, b >= 0     *)
(*   no padding on an axis whose minimum does not exceed the render, and    *)
(*   the lead (left / top) is 0, floor(total/2) or total by alignment.      *)
(* Init => Laws is a validity query (length 0); informational evidence on   *)
(* top of the bounded model checking, never the deciding engine.            *)
(***************************************************************************)
EXTENDS Integers

VARIABLES
  \* @type: Int;
  rw,
  \* @type: Int;
  rh,
  \* @type: Int;
  w,
  \* @type: Int;
  h,
  \* @type: Int;
  tw,
  \* @type: Int;
  th,
  \* @type: Int;
  ha,
  \* @type: Int;
  va

MaxI(a, b) == IF a > b THEN a ELSE b
Resolve(d, term) == IF d > 0 THEN d ELSE MaxI(term + d, 1)
Lead(total, a) == IF a = 0 THEN 0 ELSE IF a = 1 THEN total \div 2 ELSE total

PW == MaxI(Resolve(w, tw) - rw, 0)
PH == MaxI(Resolve(h, th) - rh, 0)
L == Lead(PW, ha)
T == Lead(PH, va)
R == PW - L
B == PH - T

Init ==
  /\ rw \in Int /\ rh \in Int /\ w \in Int /\ h \in Int /\ tw \in Int /\ th \in Int
  /\ ha \in 0..2 /\ va \in 0..2
  /\ rw >= 1 /\ rh >= 1 /\ tw >= 1 /\ th >= 1

Next == UNCHANGED <<rw, rh, w, h, tw, th, ha, va>>

Laws ==
  /\ L >= 0 /\ T >= 0 /\ R >= 0 /\ B >= 0
  /\ L + rw + R = MaxI(rw, Resolve(w, tw))
  /\ T + rh + B = MaxI(rh, Resolve(h, th))
  /\ (Resolve(w, tw) <= rw => L = 0 /\ R = 0)
  /\ (Resolve(h, th) <= rh => T = 0 /\ B = 0)
  /\ Resolve(w, tw) >= 1 /\ Resolve(h, th) >= 1
  /\ (ha = 0 => L = 0) /\ (ha = 2 => R = 0) /\ (ha = 1 => R - L \in {0, 1})
  /\ (va = 0 => T = 0) /\ (va = 2 => B = 0) /\ (va = 1 => B - T \in {0, 1})
=============================================================================
