SPECIFICATION Spec
CONSTANTS
  N = 4
  ScratchMax = 1
  Overwrite = FALSE
  ProbeAll = FALSE
  Fams = {"pad", "color"}
  Subs = FALSE
  AlignedSeeds <- C_AlignedSeeds
  AlignedDefaultSeeds <- C_AlignedDefaultSeeds
  ExactSeeds <- C_ExactSeeds
  Terms <- C_Terms
  RSs <- C_RSs
  RebuildInts <- C_RebuildInts
  Fills <- C_Fills
  SizeSeeds <- C_SizeSeeds
  SizeReplace <- C_SizeReplace
  ColorSeeds <- C_ColorSeeds
  RgbSeeds <- C_RgbSeeds
  ChanReplace <- C_ChanReplace
  StrSeeds <- C_StrSeeds
VIEW View
INVARIANT TypeOK
INVARIANT IdentityAndEquality
INVARIANT EqualFieldsEqualPaddings
INVARIANT RelativeFlag
INVARIANT HexRoundTrip
INVARIANT ParseNormalForm
PROPERTY ActionsAreCoreOps
PROPERTY RejectedChangesNothing
PROPERTY ValueOpsChangeNothing
PROPERTY MutationRefused
PROPERTY OnlyDstChanges
PROPERTY OnlyBypassMakesInvalid
PROPERTY ResolveLaw
PROPERTY ToExactLaw
PROPERTY PaddedSizeLaw
PROPERTY PadMatchesPaddedSize
PROPERTY AlignmentSplit
PROPERTY RelativeIsRefused
PROPERTY RebuildLaw
PROPERTY FromHexLaw
PROPERTY HexLaw
ACTION_CONSTRAINT Dump
INVARIANT InitDump
CHECK_DEADLOCK FALSE
