SPECIFICATION Spec
INVARIANT Sane
INVARIANT RelaxingNeverRejects
CHECK_DEADLOCK FALSE
